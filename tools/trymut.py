#!/usr/bin/env python3
"""tools/trymut.py <PID[,PID..]> <relpath> <old> <new>  - apply one textual change to a scratch copy of
/repo (outside /repo and /verif), make sure it still compiles, run the checks on it, remove it."""
import os, shutil, subprocess, sys, tempfile
pids, rel, old, new = sys.argv[1:5]
d = tempfile.mkdtemp(prefix="cimba-mut-")
try:
    for sub in ("src", "include", "codegen"):
        shutil.copytree(os.path.join("/repo", sub), os.path.join(d, sub))
    shutil.copy("/repo/meson.build", d)
    p = os.path.join(d, rel)
    s = open(p).read()
    if s.count(old) < 1:
        print("pattern not found"); sys.exit(3)
    open(p, "w").write(s.replace(old, new, 1))
    env = dict(os.environ, VERIF_REPO=d)
    for pid in pids.split(","):
        r = subprocess.run(["/verif/check", pid], env=env, capture_output=True, text=True)
        lines = [l for l in r.stdout.splitlines() if "VIOLATION" in l or l.startswith("  ") or "BROKEN" in l]
        print(pid, "exit", r.returncode)
        for l in lines[:6]:
            print("   ", l[:260])
        if r.returncode not in (0, 1):
            print(r.stdout[-800:], r.stderr[-800:])
finally:
    shutil.rmtree(d, ignore_errors=True)
