#!/usr/bin/env python3
"""tools/selftest.py [PID ...]  - run the recorded source variants through the checks (analysis only, nothing
is executed): breaking variants must be reported, behaviour-preserving variants must stay silent.
Variants whose anchor text is no longer in /repo are skipped (the tree has moved on)."""
import json, os, shutil, subprocess, sys, tempfile

HERE = os.path.dirname(os.path.dirname(os.path.abspath(__file__)))
REPO = os.environ.get("VERIF_REPO", "/repo")


def run_variant(v, repo=REPO):
    d = tempfile.mkdtemp(prefix="cimba-var-")
    try:
        for sub in ("src", "include", "codegen"):
            shutil.copytree(os.path.join(repo, sub), os.path.join(d, sub))
        shutil.copy(os.path.join(repo, "meson.build"), d)
        if v.get("patch"):
            # a whole patch (behaviour-preserving refactoring or seeded change), applied to the scratch copy
            pf = os.path.join(HERE, v["patch"])
            r = subprocess.run(["patch", "-p1", "-s", "-f", "-d", d, "-i", pf], capture_output=True, text=True)
            if r.returncode != 0:
                return "skipped", "patch does not apply"
        for ed in v.get("edits", []):
            p = os.path.join(d, ed["file"])
            s = open(p).read()
            if ed.get("regex"):
                import re
                s2, n = re.subn(ed["old"], ed["new"], s)
                if n == 0:
                    return "skipped", "anchor not found"
                s = s2
            else:
                if ed["old"] not in s:
                    return "skipped", "anchor not found"
                s = s.replace(ed["old"], ed["new"], 1)
            open(p, "w").write(s)
        # still a valid C program?
        for ed in v.get("edits", []):
            if ed["file"].endswith((".c", ".h")):
                src = os.path.join(d, ed["file"]) if ed["file"].endswith(".c") else os.path.join(d, "src", "cimba.c")
                gen = os.path.join(d, "gen"); os.makedirs(gen, exist_ok=True)
                for nm in ("cmi_random_exp_zig.inc", "cmi_random_nor_zig.inc"):
                    open(os.path.join(gen, nm), "a").close()
                r = subprocess.run(["clang", "-fsyntax-only", "-std=c17", "-D_POSIX_C_SOURCE=200809L", "-w",
                                    "-I" + os.path.join(d, "include"), "-I" + os.path.join(d, "src"), "-I" + gen, src],
                                   capture_output=True, text=True)
                if r.returncode != 0 and "zig" not in r.stderr:
                    return "invalid", r.stderr[:300]
        env = dict(os.environ, VERIF_REPO=d)
        r = subprocess.run([os.path.join(HERE, "check"), v["property"]], env=env, capture_output=True, text=True)
        rules = sorted({l.split()[1] for l in r.stdout.splitlines() if l.startswith("  " + v["property"])})
        return {0: "silent", 1: "violation", 2: "broken"}.get(r.returncode, "error"), ",".join(rules) or r.stdout[-300:]
    finally:
        shutil.rmtree(d, ignore_errors=True)


def main(argv):
    from concurrent.futures import ThreadPoolExecutor
    vs = json.load(open(os.path.join(HERE, "selftest", "variants.json")))
    args = list(argv[1:])
    jobs = int(os.environ.get("VERIF_JOBS", "8"))
    if "-j" in args:
        i = args.index("-j")
        jobs = int(args[i + 1])
        del args[i:i + 2]
    want = set(a.upper() for a in args)
    todo = [v for v in vs if not want or v["property"] in want]
    bad = 0
    with ThreadPoolExecutor(max_workers=max(1, jobs)) as ex:
        for v, (got, detail) in zip(todo, ex.map(run_variant, todo)):
            ok = got == v["expect"] or got == "skipped"
            if ok and v["expect"] == "violation" and v.get("rule") and got == "violation" and v["rule"] not in detail:
                ok = False
            print("%-4s %-40s expect %-9s got %-9s %s %s" % (v["property"], v["id"][:40], v["expect"], got,
                                                             "" if ok else "<<< UNEXPECTED", detail if not ok or got != "silent" else ""))
            sys.stdout.flush()
            bad += 0 if ok else 1
    print("%d variant(s), %d unexpected" % (len(todo), bad))
    return 1 if bad else 0


if __name__ == "__main__":
    sys.exit(main(sys.argv))
