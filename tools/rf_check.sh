#!/bin/sh
# tools/rf_check.sh <dir-with rf/1..4>  <ids|all> : run the checks against behaviour-preserving refactorings; anything but exit 0 is reported
d=$1; ids=${2:-all}
for n in 1 2 3 4 5 6; do
  [ -f $d/rf/$n/patch.diff ] || continue
  out=$(sh /verif/tools/seed_check.sh $d/rf/$n/patch.diff $ids 2>&1 | grep -E "exit [123]|^  C|BROKEN" | cut -c1-240 | head -12)
  echo "## $(basename $d) rf$n: ${out:-silent}"
done
