#!/bin/sh
# tools/seed_check.sh <patch.diff> <PID,PID,...|all>  - apply a seeded change to /repo, run checks, undo it.
patch=$1; pids=$2
[ "$pids" = all ] && pids=$(python3 -c "import json;print(','.join(c['property_id'] for c in json.load(open('/verif/MANIFEST.json'))['checks']))")
git -C /repo diff --quiet || { echo "/repo has local changes"; exit 3; }
git -C /repo apply "$patch" || exit 3
for p in $(echo $pids | tr ',' ' '); do
  out=$(cd /verif && ./check $p 2>&1); rc=$?
  echo "== $p exit $rc"
  echo "$out" | grep -E "^  $p|BROKEN" | cut -c1-300 | head -5
done
git -C /repo checkout -- .
# evidence was written from a changed tree: regenerate it from the real tree
for p in $(echo $pids | tr ',' ' '); do (cd /verif && ./check $p >/dev/null 2>&1); done
