#!/usr/bin/env python3
"""tools/table.py [-j N] [-p ids|all] <patch.diff> ...  - apply each patch to its own scratch copy of /repo (under a
temporary directory that is removed afterwards) and run the checks against it (VERIF_REPO), in parallel.  Prints one line
per patch: the checks that did not stay silent, with their exit code and first finding.  Nothing is written to
/verif/evidence (reports for another tree go to out/) and /repo is not touched."""
import json, os, shutil, subprocess, sys, tempfile
from concurrent.futures import ThreadPoolExecutor

HERE = os.path.dirname(os.path.dirname(os.path.abspath(__file__)))
REPO = "/repo"


def one(patch, ids):
    d = tempfile.mkdtemp(prefix="cimba-tab-")
    try:
        for sub in ("src", "include", "codegen"):
            shutil.copytree(os.path.join(REPO, sub), os.path.join(d, sub))
        shutil.copy(os.path.join(REPO, "meson.build"), d)
        r = subprocess.run(["patch", "-p1", "-s", "-f", "-d", d, "-i", patch], capture_output=True, text=True)
        if r.returncode != 0:
            return patch, {"*": (3, "patch does not apply")}
        res = {}
        env = dict(os.environ, VERIF_REPO=d)
        for p in ids:
            r = subprocess.run([os.path.join(HERE, "check"), p], env=env, capture_output=True, text=True)
            if r.returncode != 0:
                ls = [l.strip() for l in r.stdout.splitlines() if l.startswith("  " + p) or "BROKEN" in l]
                res[p] = (r.returncode, " | ".join(l[:200] for l in ls[:3]))
        return patch, res
    finally:
        shutil.rmtree(d, ignore_errors=True)


def main(argv):
    j, ids, patches = 8, "all", []
    it = iter(argv[1:])
    for a in it:
        if a == "-j":
            j = int(next(it))
        elif a == "-p":
            ids = next(it)
        else:
            patches.append(os.path.abspath(a))
    allids = [c["property_id"] for c in json.load(open(os.path.join(HERE, "MANIFEST.json")))["checks"]]
    ids = allids if ids == "all" else ids.split(",")
    with ThreadPoolExecutor(max_workers=j) as ex:
        for patch, res in ex.map(lambda p: one(p, ids), patches):
            name = os.path.relpath(patch, HERE) if patch.startswith(HERE) else patch
            if not res:
                print("%-40s silent on %d check(s)" % (name, len(ids)))
            for p, (rc, txt) in sorted(res.items()):
                print("%-40s %s exit %d  %s" % (name, p, rc, txt))
            sys.stdout.flush()


if __name__ == "__main__":
    main(sys.argv)
