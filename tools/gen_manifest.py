#!/usr/bin/env python3
"""Regenerate MANIFEST.json from tools/manifest_src.py (keeps it valid at all times)."""
import json, os, sys
HERE = os.path.dirname(os.path.dirname(os.path.abspath(__file__)))
sys.path.insert(0, os.path.join(HERE, "tools"))
import manifest_src as S

props = [json.loads(l)["id"] for l in open(os.path.join(HERE, "properties.jsonl"))]
checks = []
for pid in props:
    c = S.CLAIMED.get(pid)
    if not c:
        continue
    checks.append({
        "property_id": pid,
        "quick_cmd": "./check %s --tier quick" % pid,
        "thorough_cmd": "./check %s --tier thorough" % pid,
        "evidence_file": "/verif/evidence/%s.json" % pid,
        "replay_cmd_template": "cat {path}",
        "engine": c["engine"],
        "level_claimed": {"category": "other", "text": c["text"], "design_ref": "DESIGN.md §4 " + pid},
        "level_note": c["note"],
        "technique": c["technique"],
    })
na = [{"property_id": p, "reason": S.NOT_APPLICABLE.get(p, "no static check built yet for this property")}
      for p in props if p not in S.CLAIMED]
man = {
    "version": 1,
    "setup_cmd": "python3 -c \"import sys; sys.path.insert(0,'/verif'); import sa.frontend, sa.model\"",
    "hooks": {"guard": "CIMBA_VERIF", "enable": "no hooks: the analyses read the unmodified source",
              "baseline_off_cmd": "meson test -C /repo/_build", "source_commits": [], "add_only": True},
    "engines": S.ENGINES,
    "checks": checks,
    "notes": S.NOTES,
    "not_applicable": na,
}
json.dump(man, open(os.path.join(HERE, "MANIFEST.json"), "w"), indent=1)
try:
    import jsonschema
    jsonschema.validate(man, json.load(open("/root/.vp/MANIFEST.schema.json")))
    print("MANIFEST.json valid: %d checks, %d not applicable" % (len(checks), len(na)))
except ImportError:
    print("written (jsonschema not available)")
