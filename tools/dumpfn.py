#!/usr/bin/env python3
"""tools/dumpfn.py <function> ... - print the normalised body of a function as the rules see it (debugging aid)."""
import sys
import os as _os; sys.path.insert(0, _os.path.dirname(_os.path.dirname(_os.path.abspath(__file__))))
from sa.rules import common
from sa.astutil import render, kids


def pp(s, ind=0):
    pad = "    " * ind
    k = s["kind"]
    ch = kids(s)
    if k == "CompoundStmt":
        print(pad + "{")
        for c in ch:
            pp(c, ind + 1)
        print(pad + "}")
    elif k == "IfStmt":
        print(pad + "if (%s)" % render(ch[0]))
        pp(ch[1], ind + 1)
        if len(ch) > 2:
            print(pad + "else")
            pp(ch[2], ind + 1)
    elif k == "ForStmt":
        print(pad + "for (%s; %s; %s)" % tuple(decl(c) if c["kind"] == "DeclStmt" else render(c) for c in (ch[0], ch[2], ch[3])))
        pp(ch[4], ind + 1)
    elif k == "WhileStmt":
        print(pad + "while (%s)" % render(ch[0]))
        pp(ch[1], ind + 1)
    elif k == "DoStmt":
        print(pad + "do")
        pp(ch[0], ind + 1)
        print(pad + "while (%s)" % render(ch[1]))
    elif k == "DeclStmt":
        print(pad + decl(s))
    elif k == "ReturnStmt":
        print(pad + "return %s" % (render(ch[0]) if ch else ""))
    else:
        print(pad + render(s))


def decl(s):
    return ", ".join("%s %s%s" % (d.get("type"), d.get("name"), (" = " + render(kids(d)[0])) if kids(d) else "")
                     for d in kids(s) if d["kind"] == "VarDecl")


m = common.load_models("quick")[0]
for n in sys.argv[1:]:
    for f in m.func_named(n):
        print("== %s (%s)" % (n, f.where))
        pp(f.body)
