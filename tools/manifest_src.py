ENGINES = [
 {"name": "frontend+model", "path": "sa/frontend.py, sa/model.py", "serves_properties": [],
  "kind_free_text": "clang JSON AST of every unit in meson.build (+ generated tables, assembled context switch) -> functions, records, globals, call graph"},
 {"name": "ORD", "path": "sa/engines/ord.py", "serves_properties": ["C01", "C02", "C06", "C07", "C12"],
  "kind_free_text": "abstract evaluation of comparators over all per-field orderings (3^k pairs, 13^k triples): strict total order + stated lexicographic order"},
]
NOTES = ("Static analysis only: no check executes /repo code. Exit 0 pass, 1 violation, 2 analysis broken "
         "(anchor vanished / instance floor not met). known_findings.json is committed and never written at run time.")
CLAIMED = {
 "C06": {"engine": "ORD + INV", "technique": "static analysis: exhaustive order abstraction of the comparator + call-site value rules",
         "text": "Decides, for all priorities/times/addresses (non-NaN), that the waiting-list comparator is the stated strict total order; that entries are enqueued with (priority, now, process address); that only the head is evaluated and removed; and that a priority change repositions timers, guard entries and holdings. Necessary conditions of the property; heap sift arithmetic is not decided.",
         "note": "trusts clang's AST, the ORD evaluator (fails closed on unsupported constructs) and that sort keys are not NaN"},
}
NOT_APPLICABLE = {}
