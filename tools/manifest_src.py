ENGINES = [
 {"name": "frontend+model", "path": "sa/frontend.py, sa/model.py", "serves_properties": [],
  "kind_free_text": "clang JSON AST of every unit in meson.build (+ generated tables, assembled context switch) -> functions, records, globals, call graph"},
 {"name": "ORD", "path": "sa/engines/ord.py", "serves_properties": ["C01", "C02", "C06", "C07", "C12"],
  "kind_free_text": "abstract evaluation of comparators over all per-field orderings (3^k pairs, 13^k triples): strict total order + stated lexicographic order"},
]
NOTES = ("Static analysis only: no check executes /repo code. Exit 0 pass, 1 violation, 2 analysis broken "
         "(anchor vanished / instance floor not met). known_findings.json is committed and never written at run time.")
CLAIMED = {
 "C06": {"engine": "ORD + INV", "technique": "static analysis: exhaustive order abstraction of the comparator + call-site value rules",
         "text": "Decides, for all priorities/times/addresses (non-NaN), that the waiting-list comparator is the stated strict total order; that entries are enqueued with (priority, now, process address); that only the head is evaluated and removed; and that a priority change repositions timers, guard entries and holdings. Necessary conditions of the property; heap sift arithmetic is not decided.",
         "note": "trusts clang's AST, the ORD evaluator (fails closed on unsupported constructs) and that sort keys are not NaN"},
}
NOT_APPLICABLE = {}
CLAIMED.update({
 "C01": {"engine": "ORD + INV + boolfun", "technique": "static analysis: exhaustive order abstraction, who-writes inventories, dominance and call-site value rules",
         "text": "Decides for all times/priorities/handles that the event comparator is the stated strict total order; that handles are issued increasingly; that the clock has three writers and is set unconditionally from the dequeued entry; that every caller-supplied time is dominated by a release assertion against the clock; that the dispatcher executes each dequeued event exactly once; that the current-event slot is written only by the dequeue; that reschedule/reprioritise keep the other key; and that the pattern predicates of find/count/cancel have the specified truth table. Heap index arithmetic is not decided.",
         "note": "trusts clang's AST and the evaluators (fail closed); NaN keys excluded"},
 "C05": {"engine": "REGION (FLOW)", "technique": "static analysis: atomic-region dataflow (nullness + typestate) between yield points",
         "text": "Cooperative scheduling makes yield-free regions atomic; the check shows that every store of a non-NULL holder happens in a configuration where the holder is known NULL in the same region, for every path of every root function, which by induction over regions gives mutual exclusion for all programs and schedules. Also decides holder/tag pairing and that the queries are functions of the holder alone.",
         "note": "assumes user callbacks do not yield or modify library objects inside library regions; may-yield from the resolved call graph"},
 "C08": {"engine": "REGION (FLOW)", "technique": "static analysis: atomic-region must-follow dataflow with a guard/direction table derived from the demand functions",
         "text": "For every path of every function of the five guard-based classes: an availability increase is followed by a signal on the guard it can satisfy before the region ends; every wait re-tests in a loop; a waiter leaving for another reason dequeues itself, withdraws a pending grant and passes it on; unwinding removes a process from its guard.",
         "note": "demand predicates of the built-in classes are cross-checked against the table on every run; user predicates are out of scope"},
 "C14": {"engine": "REGION (FLOW) + INV", "technique": "static analysis: atomic-region must-record dataflow + value rules on the sampler and the time series",
         "text": "For every path of every function of the five classes a change of the recorded quantity is followed by a history sample before the region ends (or the quantity is provably back at its last sampled value); samplers record the state expression at the current time; start/stop ordering; the time series stores elapsed time as the previous sample's weight and the summary uses all but the last sample.",
         "note": "numerical value of the weighted mean is not decided"},
})
ENGINES += [
 {"name": "FLOW/REGION", "path": "sa/engines/flow.py, sa/engines/region.py", "serves_properties": ["C05", "C08", "C14"],
  "kind_free_text": "structured abstract interpreter over the AST with a bounded disjunction of configurations, flow-sensitive value strings, inlining of static helpers; resource-class domain tracks nullness, owed signals and owed samples per atomic region"},
 {"name": "INV", "path": "sa/inv.py, sa/vals.py", "serves_properties": ["C01", "C05", "C06", "C14"],
  "kind_free_text": "who-writes / who-calls inventories, statement dominance, value canonicalisation"},
]

CLAIMED.update({
 "C02": {"engine": "ORD + FLOW + INV", "technique": "static analysis: exhaustive order abstraction of every installable comparator; flow-sensitive pairing of tag moves with hash back-pointer updates; layout/size agreement",
         "text": "Decides the structural invariants the keyed-priority-queue behaviour rests on, for every path of every hashheap routine: all installable comparators are strict weak orders (total on keys); every tag moved into a live slot gets its hash back pointer before the slot index changes; every count decrement is preceded by a tombstone of the departing entry; count is raised only after the full->grow test; heap_size/hash_size/hash shift agree; the three size computations agree incl. two scratch slots; lookups return the entry found for the key; no loop over the heap restructures it. Sift/probe index arithmetic is not decided.",
         "note": "trusts clang AST; index arithmetic of sift and probe loops out of reach"},
 "C12": {"engine": "ORD + TRACE (FLOW)", "technique": "static analysis: exhaustive order abstraction + path-by-path region traces with dominance checks",
         "text": "Decides for every path of put/get of both queue types: insertion dominated by length<capacity in the same atomic region; put links a fresh tag carrying the object once at the tail; successful get unlinks the head, delivers the head's object before the tag is recycled; non-success gets deliver NULL and change nothing; the priority comparator is the stated strict total order with auto-issued keys; who-writes and query agreement.",
         "note": "list shape beyond the append/pop idioms and heap order (C02) not decided"},
})
ENGINES += [{"name": "TRACE", "path": "sa/engines/trace.py", "serves_properties": ["C12"],
  "kind_free_text": "enumerates every path of a root function per atomic region and hands the ordered store/call/branch trace to a rule predicate"}]

CLAIMED.update({
 "C11": {"engine": "AFFINE (FLOW)", "technique": "static analysis: affine bookkeeping with a ghost total and Houdini-inferred loop invariants (rational null spaces), dominance checks",
         "text": "For every path of get/put: every store to the level is dominated in its atomic region by a test keeping it in [0,capacity] whose own arithmetic cannot wrap; at every return the caller-visible amount equals what the call actually moved (ghost total over all level stores), and a success return moved exactly the request. The loop invariants (*amntp + rem = init, *amntp = moved, ...) are inferred, so behaviour-preserving rewrites do not alarm. Holds for all interleavings because regions between yields are atomic and the level is re-based at every yield.",
         "note": "amount pointer assumed not to alias the buffer; integers treated mathematically with wrap excluded by the guard rule"},
 "C07": {"engine": "AFFINE (FLOW) + ORD", "technique": "static analysis: affine bookkeeping with ghost semantics for the holders heap, inferred loop invariants, dominance checks, order abstraction",
         "text": "For every path of acquire/preempt/release/drop: per atomic region the change of in_use equals the summed change of the recorded holdings; every in_use store stays within [0,capacity]; success leaves the caller's record exactly req above its entry value, interruption exactly at it, release exactly rel below; victims are taken only when strictly lower priority, from a heap ordered lowest-priority-first, and each is untagged and sent PREEMPTED in the same region; records and process-side tags are created and deleted together.",
         "note": "ghost semantics of enqueue/cancel/dequeue/find_index trusted (justified by cmi_hashheap.c and C02); foreign changes to a caller's record only via PREEMPTED"},
 "C13": {"engine": "INV", "technique": "static analysis: struct-cast validity over first-member chains, declared-vs-defined symbols, evaluate-all shape, call-graph reachability",
         "text": "All 151 struct-pointer casts follow first-member chains; every declared condition/guard function is defined; cmb_condition_signal evaluates every queued predicate with its own entry's process/context, wakes exactly the satisfied ones with success at the current time and removes exactly those; wait/cancel/remove/subscribe use the condition's own guard. Observer forwarding reaching an evaluate-all routine is checked and currently reported as a known finding.",
         "note": "user predicates assumed pure"},
})
ENGINES += [{"name": "AFFINE", "path": "sa/engines/affine.py", "serves_properties": ["C07", "C11"],
  "kind_free_text": "affine forms over symbolic atoms per local and tracked field, ghost totals, loop-head equalities inferred Houdini-style with exact rational linear algebra, obligations discharged by small non-negative combinations"}]

CLAIMED.update({
 "C03": {"engine": "ASM + INV", "technique": "static analysis: stack-effect interpretation of the assembled context switch and trampoline; byte-accurate interpretation of the C frame writer; ordering rules on the coroutine bookkeeping",
         "text": "The object code is straight-line, so its stack/register effect is data-independent: decides for all register contents and nesting depths that every callee-saved register, MXCSR and the flags are restored from the slot they were saved in, the saved frame is not altered before the switch, net stack effect is zero, rax receives the message; that the C-built initial frame matches the restore layout slot by slot (function/handle/context/exit roles, loadable MXCSR image, aligned base); trampoline argument passing and alignment; and the bookkeeping around the switch incl. unconditional parent/caller/status on (re)start.",
         "note": "trusts nasm/objdump and the psABI table; x87 control word not covered"},
 "C04": {"engine": "TRACE (FLOW) + INV", "technique": "static analysis: path-by-path region traces with a registration/inverse table; reachability + contradiction rule on assertions; call-site role rule",
         "text": "Structural necessary conditions of 'no stale wake-ups': every blocking primitive undoes each registration on every non-success resume path (or the deliverer reported it gone); pending grant/condition wake-ups are withdrawn; routines reached while unwinding never abort on membership/count; cancel_awaiteds is applied to the process that is then woken/stopped; hold arms exactly now+d and returns the resume value; deliverers resume their subject with the scheduled value and remove exactly their awaitable; wildcard event cancellation only in the unwinding routine.",
         "note": "timing of arbitrary same-instant coincidences is not decided"},
 "C09": {"engine": "TRACE (FLOW) + INV", "technique": "static analysis: must-precede path rule (clean-up before any way out incl. calls that may not return), enum exhaustiveness, who-writes",
         "text": "On every path of exit/stop the ending process's awaiteds are cancelled, holdings dropped and waiters woken (right signal, right process) before returning or calling something that reaches cmi_coroutine_exit; unwinding handles every awaitable kind with its inverse, recycles every tag and cancels all pending events; drop callbacks invoked for every holding; status/exit value writers and the finished-never-resumed guard.",
         "note": "same-instant ordering relative to other events not decided"},
})
ENGINES += [{"name": "ASM", "path": "sa/engines/asm.py", "serves_properties": ["C03"],
  "kind_free_text": "abstract stack-effect interpreter over the disassembly of the assembled NASM unit (slot map, register provenance, alignment)"}]

CLAIMED.update({
 "C10": {"engine": "FLOW (pointer typestate) + INV", "technique": "static analysis: a bundle of exact rules, one per obligation class named by the anchors",
         "text": "Eight exact rules: interior pointers into growable containers are not used (or handed to an invalidating callee) after a call that may move or overwrite the storage; pool objects are not double-freed or used after a possible re-allocation; realloc results stored back with byte sizes; parallel arrays allocated by capacity; no restructuring during iteration; byte-indexed tables have 256 entries; membership-asserting accessors are dominated by a membership test or a reviewed precondition; unwinding routines never abort on membership/count. General absence of UB is NOT claimed.",
         "note": "index arithmetic, overflow and float-to-int conversions are out of reach"},
 "C15": {"engine": "INV (effects)", "technique": "static analysis: transitive read/write effect sets over static-storage variables, reset-or-memo classification, bootstrap shape",
         "text": "Every static-storage variable the samplers read is reset unconditionally by the seeding function, a parameter memo, or never written; every one they write is thread-local; the seeding function seeds splitmix with the given seed, assigns the four state words from splitmix64() and discards exactly 20 outputs; the generator state has no other writers or direct readers. That the arithmetic IS sfc64/splitmix64 (constants) is not decided.",
         "note": "libm assumed pure; logging/assertion paths excluded from the effect sets"},
 "C16": {"engine": "INV", "technique": "static analysis: structural bounds on index-valued samplers and generated tables, offset discipline of the ziggurat tail (narrow clauses only)",
         "text": "NARROW: decides only that search-loop counters used as sampled indices cannot be one-past-the-end, that the unit-interval generator is strictly below 1 by construction, that byte-indexed tables have 256 entries, that Bernoulli-based counts accumulate 0/1 trials over exactly n iterations, and that an offset accumulated across retry rounds (exponential ziggurat tail) is added in every value returned from the retry loop. Distribution fit and value-level support of continuous samplers are not decidable statically and are not claimed.",
         "note": "the behavioural core of this property (distribution fit) is out of reach of static analysis"},
 "C17": {"engine": "DEG + INV", "technique": "static analysis: homogeneity-degree typing of the moment formulas in two scalings, guarded-division rule, aliasing rule",
         "text": "Decides necessary conditions of exactness: every sum in add/merge is homogeneous in the data (m_k degree k) and in the weights (m1 degree 0, m2..m4 and wsum degree 1); every weighted accessor has weight degree 0 (scale invariance for all inputs); divisions by count/weight-sum derived quantities are dominated by positivity facts (incl. empty merges); merge writes the target only by a final struct copy; min/max/count merged correctly; zero weights ignored. Numeric coefficients are not decided.",
         "note": "catches wrong powers and missing/extra factors, not wrong constants"},
 "C18": {"engine": "INV + ORD-style + SHIFT + DEG", "technique": "static analysis: exchange-only writes, grouped triple swaps, exhaustive order abstraction of one sift round, heapsort skeleton, exhaustive bin assignment, copy/allocation agreement, translation and homogeneity typing of the autocorrelation",
         "text": "Sorting writes array elements only through exchanges (same multiset for every input); time-series exchanges move all three parallel arrays with one index pair; one sift round moves the root to the largest of root and existing children for every ordering of the keys and every heap boundary, and the heapsort skeleton (build from n/2-1 down to 0, extract n-1 down to 1, no other way out than no data) is in place - the structural part of 'ascending order'; histogram filling adds exactly one contribution per sample on an exhaustive bin assignment over the right range; copies copy what they allocate; every autocorrelation coefficient is typed shift-invariant and of scale degree 0 with lag zero the literal one (and the zero-variance test is scale-free); of the median / quartile clauses only necessary conditions are decided: the array-median helper indexes inside the array for every n >= 1 and is never called with length 0, and a searched order statistic starts from a sample, never from a placeholder literal; the histogram report never divides by a zero bar scale (all-empty histogram). That the reported medians / quartiles are true ones and ordered is value-level and not claimed.",
         "note": "median / quartile values are out of reach (only index safety and no-placeholder are decided); sift termination and the numerical value of coefficients are not decided"},
 "C19": {"engine": "INV (effects)", "technique": "static analysis: shared-state discipline over all static-storage variables, dispenser/join shape, thread-local reset classification",
         "text": "Every non-thread-local, non-const static variable is atomic-only, set up before the first pthread_create, a mutex or never written; the trial index comes from an atomic fetch-add of 1 with the bound test before use, trial pointer = base + index*size, trial function called once per index; create/join loops agree; every thread-local written at run time is reset by a per-trial initialiser, a parameter memo or reviewed result-neutral.",
         "note": "bit-identity with a sequential run as such is not decided; neutral table reviewed by reading"},
 "C20": {"engine": "IDX + INV", "technique": "static analysis: realloc discipline, object-index analysis of the free-list threading (induction variables, guard facts, Fourier-Motzkin), push/pop symmetry, dominance of the chunk-list store, static initialisers matched by field with a parsed macro witness",
         "text": "Chunk list grown with a stored-back byte-sized realloc; in a new chunk every store hits an object number in [0, incr_num-1], every link is NULL or such an object strictly ahead, the walk follows its links and the last linked object gets NULL, with incr_num = incr_sz/obj_sz of the page-rounded chunk; static pools start as {THREAD_STATIC, sizeof(object type) or larger, positive count, empty lists} and the initialiser macro puts size and count into the right fields; each pool is used with one object type; object size release-asserted multiple of 8 on the one initialisation route, static pools initialised/registered on first use; alloc pops / free pushes symmetrically and nothing else writes the head; chunk-list slot dominated by the grow test; terminate frees all.",
         "note": "sizeof(void*) == 8 on the analysed port"},
})
ENGINES += [{"name": "IDX", "path": "sa/engines/induct.py", "serves_properties": ["C20"],
  "kind_free_text": "polynomial offsets + induction variables + linear guard facts decided by Fourier-Motzkin elimination"},
 {"name": "SHIFT", "path": "sa/engines/shift.py", "serves_properties": ["C18"],
  "kind_free_text": "translation-class typing (invariant/equivariant/sum/other) with assumption-and-check for loop-carried accumulators"}]
ENGINES += [{"name": "DEG", "path": "sa/engines/deg.py", "serves_properties": ["C17", "C18"],
  "kind_free_text": "degree typing of arithmetic expressions in a scaling variable (weights or data)"}]
