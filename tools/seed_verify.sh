#!/bin/sh
# tools/seed_verify.sh <seed-out-dir> <name>   e.g. tools/seed_verify.sh /tmp/seed/C08/out/1 C08-1
# Independently confirms a seeded change in a scratch worktree of /repo HEAD: patch applies, library builds,
# the unchanged test suite passes with it, the demo FAILS with it and PASSES without it.
# On success copies patch.diff, demo.c, build.sh, meta.json (+ verification record) to /verif/seeded/<name>/.
src=$1; name=$2
d=$(mktemp -d /tmp/cimba-seedv-XXXXXX)
log=$d/log
git -C /repo worktree add --detach -f "$d/wt" HEAD >/dev/null 2>&1 || { echo "worktree failed"; exit 3; }
cd "$d/wt"
clean_demo=$(sh "$src/build.sh" "$d/wt" 2>&1 | tail -1)
if ! git apply --check "$src/patch.diff" 2>$log; then echo "$name: patch does not apply: $(cat $log)"; res=noapply; else
git apply "$src/patch.diff"
changed_demo=$(sh "$src/build.sh" "$d/wt" 2>&1 | tail -1)
meson setup _build >/dev/null 2>&1
suite=$(meson test -C _build 2>&1 | grep -E "^Ok:|^Fail:|^Timeout:" | tr -s ' ' | tr '\n' ' ')
res=ok
fi
cd /
git -C /repo worktree remove --force "$d/wt"
echo "$name: demo on unchanged tree: $clean_demo | demo on changed tree: $changed_demo | suite with change: $suite"
case "$clean_demo" in PASS*) ;; *) res=bad;; esac
case "$changed_demo" in FAIL*) ;; *) res=bad;; esac
case "$suite" in *"Ok: 15"*"Fail: 0"*) ;; *) res=bad;; esac
if [ "$res" = ok ]; then
  mkdir -p /verif/seeded/$name
  cp "$src/patch.diff" "$src/demo.c" "$src/build.sh" /verif/seeded/$name/
  python3 - "$src/meta.json" "/verif/seeded/$name/meta.json" "$clean_demo" "$changed_demo" "$suite" "$(git -C /repo rev-parse --short HEAD)" <<'PY'
import json, sys
m = json.load(open(sys.argv[1]))
m["verified_by_me"] = {"base_commit": sys.argv[6], "demo_unchanged": sys.argv[3], "demo_changed": sys.argv[4],
                       "suite_with_change": sys.argv[5],
                       "commands": ["git apply patch.diff (scratch worktree of /repo HEAD)", "sh build.sh <tree>",
                                    "meson setup _build && meson test -C _build"]}
json.dump(m, open(sys.argv[2], "w"), indent=1)
PY
  echo "$name: KEPT"
else
  echo "$name: NOT kept ($res)"
fi
rm -rf "$d"
