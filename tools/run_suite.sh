#!/bin/sh
# Run the repository's own test suite on a scratch worktree of /repo at <rev> (default HEAD).
# usage: tools/run_suite.sh [rev] ; prints the meson summary; removes the worktree afterwards.
rev=${1:-HEAD}
d=$(mktemp -d /tmp/cimba-suite-XXXXXX)
git -C /repo worktree add --detach -f "$d/wt" "$rev" >/dev/null 2>&1 || exit 3
cd "$d/wt" || exit 3
meson setup _build >/dev/null 2>&1 || { echo "meson setup failed"; exit 3; }
meson test -C _build 2>&1 | tail -25
rc=$?
cd /
git -C /repo worktree remove --force "$d/wt"
rm -rf "$d"
exit $rc
