"""Value canonicalisation inside one function: single-assignment locals are
replaced by their defining expression and trivial accessor functions (one
return besides assertions) are expanded, so rules compare *values*, not text."""
from .astutil import kids, strip, walk, callee_ref, render, is_null_expr


def is_assert_stmt(n):
    """Statement that is only an assertion in either build configuration."""
    k = n["kind"]
    if k == "DoStmt":
        # NDEBUG form: do { (void)sizeof(x); } while (0)
        body = kids(n)[0] if kids(n) else None
        if body is not None and all(_is_void_sizeof(c) for c in kids(body)):
            return True
        return False
    if k in ("ParenExpr", "ConditionalOperator"):
        c = strip(n)
        if c["kind"] == "ConditionalOperator":
            for x in walk(c):
                if x["kind"] == "CallExpr" and callee_ref(x) == "cmi_assert_failed":
                    return True
    return False


def assert_condition(n):
    """For a release assertion statement return the asserted condition node, else None."""
    c = strip(n)
    if c["kind"] == "ConditionalOperator":
        ch = kids(c)
        if len(ch) >= 3:
            for x in walk(ch[2]):
                if x["kind"] == "CallExpr" and callee_ref(x) == "cmi_assert_failed":
                    return ch[0]
    return None


def any_assert_condition(n):
    """The asserted condition of a release OR debug assertion statement (the NDEBUG form keeps it as the operand of
    sizeof), else None."""
    c = assert_condition(n)
    if c is not None:
        return c
    if n["kind"] == "DoStmt" and kids(n):
        body = kids(n)[0]
        st = kids(body) if body["kind"] == "CompoundStmt" else [body]
        if len(st) == 1 and _is_void_sizeof(st[0]):
            for x in walk(st[0]):
                if x["kind"] == "UnaryExprOrTypeTraitExpr" and kids(x):
                    return kids(x)[0]
    return None


def _is_void_sizeof(n):
    c = strip(n, casts=True)
    return c["kind"] == "UnaryExprOrTypeTraitExpr" or n["kind"] == "NullStmt"


def is_logger_call(n):
    c = strip(n, casts=True)
    if c["kind"] == "CallExpr":
        nm = callee_ref(c) or ""
        return nm.startswith("cmb_logger_") or nm.startswith("cmi_logger_")
    return False


def body_statements(func):
    return [s for s in kids(func.body)]


_EXPAND = {}


def _may_expand(name):
    """calls of one-expression functions are replaced by the expression - for the functions that were one-liners on the
    validated tree (sa/trivial_accessors.txt) and for helpers the reference does not know at all"""
    if not _EXPAND:
        import os
        here = os.path.dirname(os.path.abspath(__file__))
        def rd(fn):
            try:
                return {l.strip() for l in open(os.path.join(here, fn)) if l.strip() and not l.startswith("#")}
            except OSError:
                return set()
        _EXPAND["trivial"] = rd("trivial_accessors.txt")
        _EXPAND["known"] = rd("known_helpers.txt") | rd("reference_functions.txt")
    return name in _EXPAND["trivial"] or name not in _EXPAND["known"]


def trivial_return(func):
    """If func's body is assertions/logging + one `return e;` give e, else None."""
    ret = None
    for s in kids(func.body):
        if is_assert_stmt(s) or is_logger_call(s):
            continue
        if s["kind"] == "ReturnStmt" and ret is None and kids(s):
            ret = kids(s)[0]
            continue
        return None
    return ret


_LIBC_RETURNS_FIRST = ("memcpy", "memmove", "memset", "strcpy", "strncpy", "__builtin_memcpy", "__builtin_memset", "__builtin_memmove")


def returned_param(model, unit, name, _depth=0):
    """index of the parameter whose value the function returns on its single return (directly, through a single-definition
    local, or as the result of memcpy / memset / a function of the same kind applied to it), else None"""
    if name in _LIBC_RETURNS_FIRST:
        return 0
    if _depth > 3:
        return None
    f = model.funcs.get(model.resolve(unit, name))
    if f is None or f.body is None:
        return None
    cache = model.__dict__.setdefault("_returned_param", {})
    if f.key in cache:
        return cache[f.key]
    cache[f.key] = None
    rets = [x for x in walk(f.body) if x["kind"] == "ReturnStmt"]
    res = None
    if len(rets) == 1 and kids(rets[0]):
        e = strip(kids(rets[0])[0], casts=True)
        for _ in range(6):
            if e["kind"] == "DeclRefExpr" and e.get("ref", {}).get("kind") == "ParmVarDecl":
                pw = [y for y in walk(f.body) if y["kind"] in ("BinaryOperator", "CompoundAssignOperator", "UnaryOperator") and
                      (y.get("opcode", "").endswith("=") and y.get("opcode") not in ("==", "!=", "<=", ">=") or y.get("opcode") in ("++", "--"))
                      and strip(kids(y)[0], casts=True).get("ref", {}).get("id") == e["ref"].get("id")]
                if not pw:                       # the parameter still holds the argument
                    for i_, p_ in enumerate(f.params):
                        if p_.get("id") == e["ref"].get("id"):
                            res = i_
                break
            if e["kind"] == "DeclRefExpr" and e.get("ref", {}).get("kind") == "VarDecl":
                defs = [v for v in walk(f.body) if v["kind"] == "VarDecl" and v.get("id") == e["ref"].get("id") and kids(v)]
                writes = [y for y in walk(f.body) if y["kind"] == "BinaryOperator" and y.get("opcode") == "=" and
                          strip(kids(y)[0], casts=True).get("ref", {}).get("id") == e["ref"].get("id")]
                if len(defs) == 1 and not writes:
                    e = strip(kids(defs[0])[0], casts=True)
                    continue
                break
            if e["kind"] == "CallExpr" and callee_ref(e):
                j_ = returned_param(model, f.unit, callee_ref(e), _depth + 1)
                if j_ is not None and j_ + 1 < len(kids(e)):
                    e = strip(kids(e)[j_ + 1], casts=True)
                    continue
            break
    cache[f.key] = res
    return res


class FuncCtx:
    def __init__(self, model, func):
        self.model = model
        self.func = func
        self.inits = {}
        self.writes = {}
        self.addr = set()
        for p in func.params:
            self.writes[p["id"]] = 0
        for n in walk(func.body):
            k = n["kind"]
            if k == "VarDecl":
                ini = [c for c in kids(n) if c["kind"] not in ("FullComment",)]
                self.inits[n["id"]] = ini[0] if ini else None
                self.writes.setdefault(n["id"], 0)
            elif k in ("BinaryOperator", "CompoundAssignOperator") and \
                    (n.get("opcode") == "=" or k == "CompoundAssignOperator"):
                l = strip(kids(n)[0], casts=True)
                if l["kind"] == "DeclRefExpr":
                    self.writes[l["ref"]["id"]] = self.writes.get(l["ref"]["id"], 0) + 1
            elif k == "UnaryOperator" and n.get("opcode") in ("++", "--"):
                l = strip(kids(n)[0], casts=True)
                if l["kind"] == "DeclRefExpr":
                    self.writes[l["ref"]["id"]] = self.writes.get(l["ref"]["id"], 0) + 1
            elif k == "UnaryOperator" and n.get("opcode") == "&":
                l = strip(kids(n)[0], casts=True)
                if l["kind"] == "DeclRefExpr":
                    self.addr.add(l["ref"]["id"])

        # locals declared without an initialiser and assigned exactly once, unconditionally, in the block that declares
        # them (a temporary or the result variable of an inlined helper); pointer locals initialised with &local and
        # used only as `*p = v` (the out-parameter of an inlined helper) count as assignments to that local
        self.assign1 = {}
        self._late_defs(func.body)

    def _late_defs(self, body):
        ptr_to = {}
        for vid, ini in self.inits.items():
            if ini is None:
                continue
            i0 = strip(ini, casts=True)
            if i0["kind"] == "UnaryOperator" and i0.get("opcode") == "&" and self.writes.get(vid, 0) == 0 and vid not in self.addr:
                t = strip(kids(i0)[0], casts=True)
                if t["kind"] == "DeclRefExpr" and t["ref"].get("kind") == "VarDecl":
                    ptr_to[vid] = t["ref"]["id"]
        # every use of such a pointer must be `*p` as the target of a plain assignment
        uses_ok = {p_: True for p_ in ptr_to}
        store_targets = set()
        for n in walk(body):
            if n["kind"] == "BinaryOperator" and n.get("opcode") == "=":
                l = strip(kids(n)[0], casts=True)
                if l["kind"] == "UnaryOperator" and l.get("opcode") == "*":
                    p_ = strip(kids(l)[0], casts=True)
                    if p_["kind"] == "DeclRefExpr" and p_["ref"]["id"] in ptr_to:
                        store_targets.add(id(p_))
        for n in walk(body):
            if n["kind"] == "DeclRefExpr" and n["ref"].get("id") in ptr_to and id(n) not in store_targets:
                uses_ok[n["ref"]["id"]] = False
        out_ptr = {p_: q for p_, q in ptr_to.items() if uses_ok[p_]}
        addr_elsewhere = set()
        for n in walk(body):
            if n["kind"] == "UnaryOperator" and n.get("opcode") == "&":
                t = strip(kids(n)[0], casts=True)
                if t["kind"] == "DeclRefExpr":
                    # is this & the initialiser of an out pointer?
                    if not any(self.inits.get(p_) is not None and any(y is n for y in walk(self.inits[p_])) for p_ in out_ptr):
                        addr_elsewhere.add(t["ref"]["id"])
        counts = {}
        cands = {}
        for blk in walk(body):
            if blk["kind"] != "CompoundStmt":
                continue
            declared = set()
            for s_ in kids(blk):
                if s_["kind"] == "DeclStmt":
                    for d in kids(s_):
                        if d["kind"] == "VarDecl":
                            declared.add(d["id"])
                tgt = None
                if s_["kind"] == "BinaryOperator" and s_.get("opcode") == "=":
                    l = strip(kids(s_)[0], casts=True)
                    if l["kind"] == "DeclRefExpr":
                        tgt = l["ref"]["id"]
                    elif l["kind"] == "UnaryOperator" and l.get("opcode") == "*":
                        p_ = strip(kids(l)[0], casts=True)
                        if p_["kind"] == "DeclRefExpr" and p_["ref"]["id"] in out_ptr:
                            tgt = out_ptr[p_["ref"]["id"]]
                if tgt is not None and tgt in declared:
                    cands.setdefault(tgt, kids(s_)[1])
        # total number of writes to each candidate (direct + through out pointers)
        for n in walk(body):
            if n["kind"] == "BinaryOperator" and n.get("opcode") == "=":
                l = strip(kids(n)[0], casts=True)
                if l["kind"] == "UnaryOperator" and l.get("opcode") == "*":
                    p_ = strip(kids(l)[0], casts=True)
                    if p_["kind"] == "DeclRefExpr" and p_["ref"]["id"] in out_ptr:
                        q = out_ptr[p_["ref"]["id"]]
                        counts[q] = counts.get(q, 0) + 1
        for vid, rhs in cands.items():
            total = self.writes.get(vid, 0) + counts.get(vid, 0)
            if self.inits.get(vid) is None and total == 1 and vid not in addr_elsewhere:
                self.assign1[vid] = rhs

    def single_def(self, ref_id):
        """Defining expression of a local that is initialised once and never written again (or declared without an
        initialiser and assigned exactly once, unconditionally, in its own block)."""
        if ref_id in self.inits and self.inits[ref_id] is not None \
                and self.writes.get(ref_id, 0) == 0 and ref_id not in self.addr:
            return self.inits[ref_id]
        if ref_id in self.assign1:
            return self.assign1[ref_id]
        return None

    def struct_member_def(self, base, field):
        """`S.f` for a struct-typed local S whose member f is stored exactly once (an unconditional statement of the block
        that declares S), that is never assigned as a whole after its declaration, and whose address is only ever handed
        to parameters of type pointer-to-const: the stored expression, else None."""
        if base["kind"] != "DeclRefExpr" or base.get("ref", {}).get("kind") != "VarDecl":
            return None
        sid = base["ref"]["id"]
        cache = getattr(self, "_smd", None)
        if cache is None:
            cache = self._smd = {}
        if (sid, field) in cache:
            return cache[(sid, field)]
        res = None
        decl_blk = None
        for blk in walk(self.func.body):
            if blk["kind"] == "CompoundStmt":
                for st_ in kids(blk):
                    if st_["kind"] == "DeclStmt" and any(v.get("id") == sid for v in kids(st_)):
                        decl_blk = blk
        ok = decl_blk is not None
        stores_f = []
        if ok:
            for x in walk(self.func.body):
                if x["kind"] in ("BinaryOperator", "CompoundAssignOperator") and x.get("opcode", "").endswith("=") and \
                        x.get("opcode") not in ("==", "!=", "<=", ">="):
                    l = strip(kids(x)[0], casts=True)
                    if l["kind"] == "DeclRefExpr" and l["ref"].get("id") == sid:
                        ok = False                       # whole-struct assignment after the declaration
                    if l["kind"] == "MemberExpr" and not l.get("isArrow") and l.get("name") == field:
                        b_ = strip(kids(l)[0], casts=True)
                        if b_["kind"] == "DeclRefExpr" and b_["ref"].get("id") == sid:
                            stores_f.append(x)
                if x["kind"] == "UnaryOperator" and x.get("opcode") in ("++", "--"):
                    l = strip(kids(x)[0], casts=True)
                    if l["kind"] == "MemberExpr" and l.get("name") == field and \
                            strip(kids(l)[0], casts=True).get("ref", {}).get("id") == sid:
                        ok = False
                if x["kind"] == "CallExpr":
                    for a_ in kids(x)[1:]:
                        a0 = a_
                        const_ptr = False
                        while a0["kind"] in ("ImplicitCastExpr", "CStyleCastExpr", "ParenExpr") and kids(a0):
                            if "const " in (a0.get("type") or "") and (a0.get("type") or "").rstrip().endswith("*"):
                                const_ptr = True
                            a0 = kids(a0)[0]
                        if a0["kind"] == "UnaryOperator" and a0.get("opcode") == "&":
                            t_ = strip(kids(a0)[0], casts=True)
                            if t_["kind"] == "DeclRefExpr" and t_["ref"].get("id") == sid and not const_ptr:
                                ok = False
            # an address taken outside a call argument
            for x in walk(self.func.body):
                if x["kind"] == "UnaryOperator" and x.get("opcode") == "&":
                    t_ = strip(kids(x)[0], casts=True)
                    if t_["kind"] == "DeclRefExpr" and t_["ref"].get("id") == sid:
                        in_call = any(y["kind"] == "CallExpr" and any(z is x for a_ in kids(y)[1:] for z in walk(a_))
                                      for y in walk(self.func.body))
                        if not in_call:
                            ok = False
        if ok and len(stores_f) == 1 and stores_f[0].get("opcode") == "=" and any(st_ is stores_f[0] for st_ in kids(decl_blk)):
            rhs = kids(stores_f[0])[1]
            if not any(y["kind"] == "DeclRefExpr" and y.get("ref", {}).get("id") == sid for y in walk(rhs)):
                res = rhs
        cache[(sid, field)] = res
        return res

    def resolve(self, n):
        """Follow single-assignment locals to the defining expression node."""
        seen = 0
        while seen < 20:
            s = strip(n, casts=True)
            if s["kind"] == "DeclRefExpr" and s.get("ref", {}).get("kind") == "VarDecl":
                d = self.single_def(s["ref"]["id"])
                if d is not None:
                    n = d
                    seen += 1
                    continue
            if s["kind"] == "CallExpr" and callee_ref(s):
                # a function that hands back one of its arguments (memcpy / memset and wrappers of them): the value is that argument
                i_ = returned_param(self.model, self.func.unit, callee_ref(s))
                if i_ is not None and i_ + 1 < len(kids(s)):
                    n = kids(s)[i_ + 1]
                    seen += 1
                    continue
            return s
        return strip(n, casts=True)

    def canon(self, n, depth=0, subst=None):
        """Canonical string of the value of n (casts dropped, locals and accessors expanded)."""
        if n is None:
            return "?"
        if is_null_expr(n):
            return "NULL"
        n = strip(n, casts=True)
        k = n["kind"]
        ch = kids(n)
        if k == "DeclRefExpr":
            rid = n.get("ref", {}).get("id")
            if subst and rid in subst:
                return subst[rid]
            if n["ref"].get("kind") == "VarDecl":
                d = self.single_def(rid)
                if d is not None and depth < 12:
                    return self.canon(d, depth + 1, subst)
            if n["ref"].get("kind") == "EnumConstantDecl":
                return n["ref"]["name"]
            return n["ref"].get("name") or "?"
        if k == "MemberExpr":
            if not n.get("name"):      # anonymous struct/union member
                base = self.canon(ch[0], depth, subst)
                return base + ("->" if n.get("isArrow") else ".") + "<anon>"
            b0 = self.resolve(ch[0])
            if not n.get("isArrow") and depth < 12:
                sd = self.struct_member_def(strip(ch[0], casts=True), n["name"])
                if sd is not None:
                    return self.canon(sd, depth + 1, subst)
            if n.get("isArrow") and b0["kind"] == "BinaryOperator" and b0.get("opcode") == "+" and \
                    "*" in (strip(kids(b0)[0], casts=True).get("type") or "") and "*" not in (strip(kids(b0)[1], casts=True).get("type") or "*"):
                # (p + i)->f  ==  p[i].f
                return "%s[%s].%s" % (self.canon(kids(b0)[0], depth, subst), self.canon(kids(b0)[1], depth, subst), n["name"])
            if n.get("isArrow") and b0["kind"] == "ConditionalOperator":
                # (c ? p : NULL)->f is only defined when it is p->f
                from .astutil import is_null_expr as _isnull
                arms = kids(b0)[1:]
                live = [a_ for a_ in arms if not _isnull(a_)]
                if len(arms) == 2 and len(live) == 1:
                    pb = self.canon(live[0], depth, subst)
                    if pb.startswith("&") and not pb.startswith("&("):
                        return pb[1:] + "." + n["name"]
                    return pb + "->" + n["name"]
            base = self.canon(ch[0], depth, subst)
            if base.endswith("-><anon>") or base.endswith(".<anon>"):
                return base[:-6] + n["name"]
            if n.get("isArrow") and b0["kind"] == "MemberExpr" and b0.get("name") in self.model.array_fields():
                return "%s[0].%s" % (base, n["name"])       # q->F->g  ==  q->F[0].g  for a member used as an array
            if base.startswith("&") and n.get("isArrow") and not base.startswith("&("):
                return base[1:] + "." + n["name"]       # (&x)->f  ==  x.f
            return base + ("->" if n.get("isArrow") else ".") + n["name"]
        if k == "UnaryOperator":
            op = n.get("opcode")
            if op == "!":
                # !(a < b) on integers is (a >= b); not for floating point (NaN)
                c1 = self.resolve(ch[0]) if subst is None else strip(ch[0], casts=True)
                if c1["kind"] == "BinaryOperator" and c1.get("opcode") in ("<", "<=", ">", ">=", "==", "!="):
                    ts = [(strip(z, casts=True).get("type") or "") for z in kids(c1)]
                    if not any(("double" in t_ or "float" in t_) for t_ in ts):
                        flip = {"<": ">=", "<=": ">", ">": "<=", ">=": "<", "==": "!=", "!=": "=="}[c1["opcode"]]
                        return "(%s %s %s)" % (self.canon(kids(c1)[0], depth, subst), flip, self.canon(kids(c1)[1], depth, subst))
            inner = self.canon(ch[0], depth, subst)
            if op == "&" and inner.startswith("*"):
                return inner[1:]
            if op == "*" and inner.startswith("&"):
                return inner[1:]
            c0 = self.resolve(ch[0])
            if op == "*" and c0["kind"] == "MemberExpr" and c0.get("name") in self.model.array_fields():
                return "%s[0]" % inner
            if op == "*" and c0["kind"] == "BinaryOperator" and c0.get("opcode") == "+" and \
                    "*" in (strip(kids(c0)[0], casts=True).get("type") or "") and "*" not in (strip(kids(c0)[1], casts=True).get("type") or "*"):
                return "%s[%s]" % (self.canon(kids(c0)[0], depth, subst), self.canon(kids(c0)[1], depth, subst))
            if n.get("isPostfix"):
                return inner + op
            return op + inner
        if k in ("BinaryOperator", "CompoundAssignOperator"):
            l_, r_ = self.canon(ch[0], depth, subst), self.canon(ch[1], depth, subst)
            if n.get("opcode") == "-" and l_.startswith("&" + r_ + "[") and l_.endswith("]") and \
                    l_.count("[") - l_.count("]") == 0 and "*" in (strip(ch[0], casts=True).get("type") or ""):
                inner_ = l_[len(r_) + 2:-1]
                if inner_.count("[") == inner_.count("]"):
                    return inner_                      # &A[i] - A  ==  i
            return "(%s %s %s)" % (l_, n.get("opcode"), r_)
        if k == "ArraySubscriptExpr":
            return "%s[%s]" % (self.canon(ch[0], depth, subst), self.canon(ch[1], depth, subst))
        if k == "ConditionalOperator":
            return "(%s ? %s : %s)" % tuple(self.canon(c, depth, subst) for c in ch[:3])
        if k == "CallExpr":
            nm = callee_ref(n)
            args = [self.canon(a, depth, subst) for a in ch[1:]]
            if nm is not None and depth < 12:
                f = self.model.funcs.get(self.model.resolve(self.func.unit, nm))
                if f is not None:
                    r = trivial_return(f) if _may_expand(nm) else None
                    if r is not None and len(f.params) == len(args):
                        sub = {p["id"]: a for p, a in zip(f.params, args)}
                        return FuncCtx(self.model, f).canon(r, depth + 1, sub)
            if nm is None:
                return "(*%s)(%s)" % (self.canon(ch[0], depth, subst), ", ".join(args))
            return "%s(%s)" % (nm, ", ".join(args))
        if k == "IntegerLiteral":
            return str(n.get("value"))
        if k == "FloatingLiteral":
            try:
                return repr(float(n.get("value")))
            except (TypeError, ValueError):
                return str(n.get("value"))
        return render(n)
