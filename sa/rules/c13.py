"""C13 - A condition wakes exactly the satisfied waiters, also via observed guards."""
import re

from ..astutil import kids, strip, walk, callee_ref, render, loc, struct_name, pointee, int_value
from ..frontend import AnalysisBroken
from ..report import Report
from ..vals import FuncCtx
from .. import inv
from . import common

PID = "C13"


def struct_casts(m):
    """Every explicit cast between pointers to two different struct types: (func, node, from, to)."""
    out = []
    for f in m.funcs.values():
        for n in walk(f.body):
            if n["kind"] != "CStyleCastExpr":
                continue
            to = struct_name(pointee(n.get("type")))
            ch = kids(n)
            if not ch or to is None:
                continue
            src = ch[0]
            while src["kind"] in ("ImplicitCastExpr", "ParenExpr") and kids(src) and \
                    src.get("castKind") in (None, "LValueToRValue", "NoOp"):
                src = kids(src)[0]
            fr = struct_name(pointee(src.get("type")))
            if fr is None or fr == to:
                continue
            out.append((f, n, fr, to))
    return out


def rules(rep, m):
    SIG = common.signal_table(m)
    # R-C13-1 ------------------------------------------------------------
    r1 = rep.rule("R-C13-1", "every cast between pointers to different struct types follows the first-member "
                  "(inheritance) chain of one of them, so the converted pointer addresses the object it claims to",
                  floor=100)
    casts = struct_casts(m)
    seen = set()
    for f, n, fr, to in casts:
        key = (f.name, fr, to, render(kids(n)[0]))
        if key in seen:
            continue
        seen.add(key)
        up = to in m.first_member_chain(fr)
        down = fr in m.first_member_chain(to)
        r1.instance("%s: (%s *)%s [%s]" % (f.name, to, render(kids(n)[0]), fr))
        if up or down:
            r1.ok()
        else:
            rep.finding(r1, f.name, "cast:%s->%s" % (fr, to),
                        "(struct %s *) applied to a struct %s *: neither type is at offset 0 of the other (first-member "
                        "chains: %s / %s), so the callee receives the wrong object"
                        % (to, fr, "→".join(m.first_member_chain(fr)), "→".join(m.first_member_chain(to))),
                        where=m.rel(loc(n)))
            r1.fail()
    rep.sample({"rule": "R-C13-1", "distinct_casts": len(seen),
                "chains": {k: m.first_member_chain(k) for k in ("cmb_condition", "cmb_resource", "cmb_resourceguard",
                                                                  "cmb_process", "cmb_timeseries") if k in m.records}})

    # R-C13-2 ------------------------------------------------------------
    r2 = rep.rule("R-C13-2", "every function declared (non-inline) in a public or internal header has exactly one "
                  "definition among the library's units: no documented function is missing at link time", floor=150)
    defined = {f.name for f in m.funcs.values() if not f.static}
    declared = {}
    for name, lst in m.decls.items():
        for unit, d in lst:
            fl = m.rel(d.get("file") or "")
            if not fl.endswith(".h") or not fl.startswith(("include/", "src/")):
                continue
            if d.get("storageClass") == "static" or d.get("inline") or d.get("isImplicit"):
                continue
            if any(c["kind"] == "CompoundStmt" for c in kids(d)):
                continue
            declared.setdefault(name, fl + ":" + str(d.get("line")))
    asm_syms = set()
    for a, info in m.asm.items():
        for mm in re.finditer(r"^\s*global\s+(\w+)", info["source"], re.M):
            asm_syms.add(mm.group(1))
    for name, where in sorted(declared.items()):
        r2.instance(name)
        if name in defined or name in asm_syms:
            r2.ok()
        elif not where.startswith(("include/cmb_condition.h", "include/cmb_resourceguard.h")):
            # outside this property's interface: reported as information only
            r2.notes.append("declared but not defined (outside the condition/guard interface): %s at %s" % (name, where))
            r2.ok()
        else:
            rep.finding(r2, name, "declared-not-defined", "%s is declared in %s but no unit defines it: callers fail to "
                        "link" % (name, where), where=where)
            r2.fail()
    # functions the library itself calls across units must be defined too
    for f in m.funcs.values():
        for key, n in m.direct_callees(f):
            nm = callee_ref(n)
            if nm in declared or nm in defined or nm in asm_syms:
                continue
            ds = [x for x in m.decls.get(nm, []) if not x[1].get("isImplicit")]
            if ds and all((m.rel(d.get("file") or "")).startswith(("src/", "include/")) for _, d in ds) \
                    and m.resolve(f.unit, nm) not in m.funcs:
                rep.finding(r2, f.name, "call-undefined:" + nm, "%s calls %s, which no unit defines" % (f.name, nm),
                            where=m.rel(loc(n)))
                r2.fail()

    # R-C13-3 ------------------------------------------------------------
    r3 = rep.rule("R-C13-3", "cmb_condition_signal evaluates the stored predicate of every queued entry with that "
                  "entry's process and context, schedules a success wake-up at the current time for exactly the "
                  "entries whose predicate is true and removes exactly those keys from the same queue", floor=1)
    cs = m.need("cmb_condition_signal")
    cx = FuncCtx(m, cs)
    cvp = cs.params[0]["name"]
    heap = "&%s->guard" % cvp
    P = "%s->guard." % cvp
    preds = [c for c in walk(cs.body) if c["kind"] == "CallExpr" and callee_ref(c) is None
             and cx.canon(kids(c)[0]).lstrip("*").endswith(".item[1]")]
    from ..vals import is_assert_stmt as _is_assert
    scans = [x for x in walk(cs.body) if x["kind"] in ("ForStmt", "WhileStmt", "DoStmt") and not _is_assert(x) and
             not (x["kind"] == "DoStmt" and int_value(kids(x)[1]) == 0) and preds and any(y is preds[0] for y in walk(x))]
    # the innermost loop that contains the predicate call
    scans = [x for x in scans if not any(y is not x and any(z is y for z in walk(x)) for y in scans)]
    if len(preds) != 1 or len(scans) != 1:
        rep.finding(r3, cs.name, "shape", "expected one scan loop evaluating the stored predicate of each entry; found %d "
                    "predicate call(s) in %d loop(s)" % (len(preds), len(scans)), where=m.rel(cs.where))
        r3.fail()
    else:
        scan, call = scans[0], preds[0]
        from . import siftrules as _sr
        from ..engines.induct import Poly as _Poly
        loopvar, start, bound = None, None, None
        try:
            first_, last_, step_ = _sr.scan_range_general(m, cs, scan, heap)
            loopvar = _sr.scan_range_general.last_index
            lo_, hi_ = (first_, last_) if step_ == 1 else (last_, first_)
            okrange = lo_ == _Poly.const(1) and hi_ == _Poly.sym("N")
            start, bound = first_.show(), last_.show()
        except AnalysisBroken as e_:
            okrange = False
            bound = str(e_)
        r3.instance("scan loop: %s from %s to %s" % (loopvar, start, bound))
        if not okrange:
            rep.finding(r3, cs.name, "scan:range", "the scan does not cover heap[1..heap_count] of the condition's own "
                        "queue (from %s to %s)" % (start, bound), where=m.rel(loc(scan)))
            r3.fail()
        else:
            r3.ok()
        callee = cx.canon(kids(call)[0]).lstrip("*")
        args = [cx.canon(a) for a in kids(call)[1:]]
        entry = "%sheap[%s]" % (P, loopvar)
        ent = entry + ".item"
        rep.sample({"rule": "R-C13-3", "predicate": callee, "args": args})
        if callee != ent + "[1]" or args != [cvp, ent + "[0]", ent + "[2]"]:
            rep.finding(r3, cs.name, "scan:predicate", "evaluates %s(%s); expected the entry's own predicate with "
                        "(condition, entry's process, entry's context)" % (callee, ", ".join(args)), where=m.rel(loc(call)))
            r3.fail()
        else:
            r3.ok()
        ifs = [x for x in walk(scan) if x["kind"] == "IfStmt" and any(y is call for y in walk(kids(x)[0]))]
        if not ifs:
            # the outcome may be kept in a local first
            ctext = cx.canon(call)
            ifs = [x for x in walk(scan) if x["kind"] == "IfStmt" and cx.canon(kids(x)[0]).lstrip("!") in (ctext, "(" + ctext + ")")]
        br = None
        if len(ifs) == 1:
            c0 = cx.canon(kids(ifs[0])[0])
            neg = c0.startswith("!")
            br = kids(ifs[0])[2] if (neg and len(kids(ifs[0])) > 2) else (None if neg else kids(ifs[0])[1])
        if br is None:
            rep.finding(r3, cs.name, "scan:branch", "cannot find the 'predicate true' branch of the scan", where=m.rel(loc(scan)))
            r3.fail()
        else:
            inside = lambda n_: any(y is n_ for y in walk(br))
            # the list of satisfied entries: storage written inside the true branch with this entry's data - through a
            # subscript or through a walking pointer; the storage is identified by its root variable
            lists = set()
            for l, r_, k, n_ in inv.stores(cs):
                lt = strip(l, casts=True)
                if lt["kind"] in ("ArraySubscriptExpr", "UnaryOperator") and r_ is not None and k == "=":
                    if lt["kind"] == "UnaryOperator" and lt.get("opcode") != "*":
                        continue
                    rv = cx.canon(r_)
                    if inside(n_) and (rv.startswith(entry) or rv in ("*&" + entry, entry)):
                        root = inv.storage_root(cx, cs, lt)
                        if root:
                            lists.add(root)
            r3.instance("satisfied entries are recorded in %s" % sorted(lists))
            if not lists:
                rep.finding(r3, cs.name, "scan:note", "the satisfied entry is not recorded for waking and removal", where=m.rel(loc(scan)))
                r3.fail()
            else:
                r3.ok()
            stray = []
            for l, r_, k, n_ in inv.stores(cs):
                lt = strip(l, casts=True)
                if lt["kind"] == "ArraySubscriptExpr" or (lt["kind"] == "UnaryOperator" and lt.get("opcode") == "*"):
                    if inv.storage_root(cx, cs, lt) in lists and not inside(n_):
                        stray.append(render(l))
            if stray:
                rep.finding(r3, cs.name, "scan:note-unsatisfied", "the list of satisfied entries is also written outside the "
                            "'predicate true' branch (%s)" % stray, where=m.rel(loc(scan)))
                r3.fail()
            else:
                r3.ok()
            def from_list(node):
                return inv.storage_root(cx, cs, node) in lists
            # wake-ups
            scs = [y for y in walk(cs.body) if y["kind"] == "CallExpr" and callee_ref(y) == "cmb_event_schedule"]
            okw = bool(scs)
            for y in scs:
                a = [cx.canon(z) for z in kids(y)[1:]]
                subj_node = cx.resolve(kids(y)[2])
                subj_raw = render(subj_node)
                good = common.sigval(a[2]) == SIG["CMB_PROCESS_SUCCESS"] and a[3] in ("cmb_time()", "sim_time") and \
                    a[0] == "wakeup_event_condition"
                if inside(y):
                    good = good and a[1] == ent + "[0]"
                else:
                    good = good and from_list(subj_node) and re.search(r"(\.|->)item\[0\]$", subj_raw) is not None and inv.in_loop(cs, y)
                if not good:
                    okw = False
                    rep.finding(r3, cs.name, "wake", "schedules (%s) for '%s': every wake-up must go, with the success code at "
                                "the current time, to the process of an entry whose predicate was found true"
                                % (", ".join(a[:4]), subj_raw), where=m.rel(loc(y)))
            r3.instance("wake-ups go to recorded satisfied entries only: %s" % okw)
            (r3.ok if okw else r3.fail)()
            if not scs:
                rep.finding(r3, cs.name, "scan:wake", "no wake-up is scheduled for satisfied entries", where=m.rel(cs.where))
            # removals
            rms = [y for y in walk(cs.body) if y["kind"] == "CallExpr" and callee_ref(y) in ("cmi_hashheap_remove", "cmi_hashheap_cancel")]
            okr = bool(rms)
            for y in rms:
                a0 = cx.canon(kids(y)[1])
                k_node = cx.resolve(kids(y)[2])
                k_raw = render(k_node)
                keyish = re.search(r"(\.|->)key$", k_raw) is not None or strip(k_node, casts=True)["kind"] in ("ArraySubscriptExpr", "UnaryOperator")
                if a0 != heap or not from_list(k_node) or not keyish or any(z is y for z in walk(scan)) or not inv.in_loop(cs, y):
                    okr = False
            r3.instance("exactly the recorded entries are removed, after the scan: %s" % okr)
            if not okr:
                rep.finding(r3, cs.name, "remove", "the removal pass does not remove exactly the recorded satisfied entries "
                            "from the condition's queue after the scan", where=m.rel(cs.where))
                r3.fail()
            else:
                r3.ok()
            # the second pass runs over exactly the recorded entries: its trip count is the counter raised in the true branch
            cnts = set()
            for l, r_, k, n_ in inv.stores(cs):
                lt = strip(l, casts=True)
                if inside(n_) and lt["kind"] == "DeclRefExpr" and (k == "++" or (k == "+=" and r_ is not None and int_value(r_) == 1)):
                    cnts.add(lt["ref"]["name"])
            seconds = [x for x in walk(cs.body) if x["kind"] in ("ForStmt", "WhileStmt") and x is not scan and
                       not any(y is x for y in walk(scan)) and
                       any(callee_ref(y) in ("cmi_hashheap_remove", "cmb_event_schedule") for y in walk(x) if y["kind"] == "CallExpr")]
            okc = bool(seconds)
            trips_seen = []
            for x in seconds:
                iv_, g_ = inv.induction_vars(cx, cs, x)
                tc = inv.trip_count(iv_, g_)
                if tc is None and g_ is not None:
                    # pointer walk from the list to list + count
                    nm_, op_, bd_ = g_
                    e_, d_ = iv_[nm_]
                    mm = re.fullmatch(r"\(%s \+ (\w+)\)" % re.escape(e_), bd_)
                    if d_ == 1 and op_ in ("!=", "<") and mm:
                        tc = mm.group(1)
                trips_seen.append(tc)
                if tc not in cnts:
                    okc = False
            r3.instance("second pass trip count(s) %s, counter(s) %s" % (trips_seen, sorted(cnts)))
            if not okc:
                rep.finding(r3, cs.name, "second-pass:range", "the second pass does not run over exactly the recorded entries "
                            "(trip count %s, counter(s) %s)" % (trips_seen, sorted(cnts)), where=m.rel(cs.where))
                r3.fail()
            else:
                r3.ok()

    # cancel / remove delegate to the guard member with the named process
    r5 = rep.rule("R-C13-5", "condition wait/cancel/remove/subscribe/unsubscribe operate on the condition's own guard "
                  "member and pass the named process / guard through", floor=5)
    for fn, callee, idx in (("cmb_condition_wait", "cmb_resourceguard_wait", None),
                            ("cmb_condition_cancel", "cmb_resourceguard_cancel", 1),
                            ("cmb_condition_remove", "cmb_resourceguard_remove", 1),
                            ("cmb_condition_subscribe", "cmb_resourceguard_register", None),
                            ("cmb_condition_unsubscribe", "cmb_resourceguard_unregister", None)):
        cands = m.func_named(fn)
        if not cands:
            rep.finding(r5, fn, "missing", "%s is not defined" % fn, where="include/cmb_condition.h")
            r5.fail()
            continue
        f = cands[0]
        fx = FuncCtx(m, f)
        cc = [c for c in walk(f.body) if c["kind"] == "CallExpr" and callee_ref(c) == callee]
        if len(cc) != 1:
            rep.finding(r5, fn, "delegate", "%s does not delegate to %s" % (fn, callee), where=m.rel(f.where))
            r5.fail()
            continue
        a = [fx.canon(z) for z in kids(cc[0])[1:]]
        r5.instance("%s -> %s(%s)" % (fn, callee, ", ".join(a)))
        mine = "&%s->guard" % f.params[0]["name"]
        if "subscribe" in fn:
            good = a == [f.params[1]["name"], mine]
        elif fn == "cmb_condition_wait":
            good = a[0] == mine and a[1] == f.params[1]["name"] and a[2] == f.params[2]["name"]
        else:
            good = a == [mine, f.params[1]["name"]]
        if not good:
            rep.finding(r5, fn, "delegate:args", "%s calls %s(%s)" % (fn, callee, ", ".join(a)), where=m.rel(loc(cc[0])))
            r5.fail()
        else:
            r5.ok()
    # guard cancel: removes exactly the named process and wakes it with CANCELLED; remove: no wake-up
    for fn, wake in (("cmb_resourceguard_cancel", True), ("cmb_resourceguard_remove", False)):
        f = m.need(fn)
        fx = FuncCtx(m, f)
        rm = [c for c in walk(f.body) if c["kind"] == "CallExpr" and callee_ref(c) in ("cmi_hashheap_cancel", "cmi_hashheap_remove")]
        sc = [c for c in walk(f.body) if c["kind"] == "CallExpr" and callee_ref(c) == "cmb_event_schedule"]
        good = len(rm) == 1 and common.same_object(m, fx.canon(kids(rm[0])[1]), f.params[0]["name"]) and \
            fx.canon(kids(rm[0])[2]) == f.params[1]["name"]
        if wake and not rm:
            # cancel = remove + wake-up: the removal is delegated to cmb_resourceguard_remove (checked in the next round of
            # this loop), whose result must say whether the process was in the queue
            dl = [c for c in walk(f.body) if c["kind"] == "CallExpr" and callee_ref(c) == "cmb_resourceguard_remove"]
            g = m.need("cmb_resourceguard_remove")
            gx = FuncCtx(m, g)
            truthful = True
            for rt in [x for x in walk(g.body) if x["kind"] == "ReturnStmt" and kids(x)]:
                v = gx.canon(kids(rt)[0])
                if v in ("0", "false"):
                    continue
                if re.fullmatch(r"cmi_hashheap_(is_enqueued|cancel|remove)\(.*\)", v):
                    continue
                if any(not cd.startswith("!") and re.search(r"cmi_hashheap_(is_enqueued|cancel|remove)\(", cd)
                       for cd in inv.dominating_conditions(gx, g, rt)):
                    continue
                truthful = False
            good = len(dl) == 1 and truthful and fx.canon(kids(dl[0])[1]) == f.params[0]["name"] and \
                fx.canon(kids(dl[0])[2]) == f.params[1]["name"]
        if wake:
            # the wake-up is sent only if the process was in the queue (membership test or the removal's result)
            member = good and len(sc) == 1 and any(
                not cd.startswith("!") and re.search(r"(cmi_hashheap_(is_enqueued|cancel|remove)|cmb_resourceguard_remove)\(", cd)
                for cd in inv.dominating_conditions(fx, f, sc[0]))
            good = good and len(sc) == 1 and fx.canon(kids(sc[0])[2]) == f.params[1]["name"] and \
                common.sigval(fx.canon(kids(sc[0])[3])) == SIG["CMB_PROCESS_CANCELLED"] and member
        else:
            good = good and not sc
        r5.instance("%s removes the named process%s: %s" % (fn, " and wakes it with CANCELLED" if wake else
                                                            " without waking it", good))
        if not good:
            rep.finding(r5, fn, "guard-%s" % ("cancel" if wake else "remove"), "%s does not take exactly the named "
                        "process out of the queue %s" % (fn, "and resume it with the cancelled code" if wake else
                                                         "without resuming it"), where=m.rel(f.where))
            r5.fail()
        else:
            r5.ok()

    # R-C13-4 ------------------------------------------------------------
    r4 = rep.rule("R-C13-4", "signalling a guard forwards to every registered observer through a routine that evaluates "
                  "all of the observer's waiters (a head-only signal does not resume a satisfied waiter behind an "
                  "unsatisfied one)", floor=1)
    gs = m.need("cmb_resourceguard_signal")
    gx = FuncCtx(m, gs)
    # any loop (while / for / do) in the routine that calls something with an observer as argument
    loops = [x for x in walk(gs.body) if x["kind"] in ("WhileStmt", "ForStmt", "DoStmt")]
    fwd = []
    for lp in loops:
        for c in walk(lp):
            if c["kind"] == "CallExpr" and callee_ref(c):
                if "observer" in gx.canon(kids(c)[1]) if len(kids(c)) > 1 else False:
                    fwd.append(c)
    # path-sensitive: every return path of the signal routine walks the observer list (helpers inlined)
    from ..engines import trace as TR
    pst = {"paths": 0, "bad": []}

    def cb(dom, flow, s_, tr, why, where, ev):
        if not why.startswith("return"):
            return
        pst["paths"] += 1
        walked = any(e[0] == "loop" and any("observers" in v for _, v in e[2]) for e in tr) or \
            any(e[0] == "assume" and "observers" in e[1] for e in tr)
        if not walked:
            pst["bad"].append(where)
    TR.run_traces(m, gs, cb)
    r4.instance("paths through the signal routine that walk the observer list: %d of %d"
                % (pst["paths"] - len(pst["bad"]), pst["paths"]))
    if pst["bad"] or pst["paths"] == 0:
        rep.finding(r4, gs.name, "forward:not-on-every-path", "a path through the signal routine returns (at %s) without "
                    "forwarding the signal to the registered observers: a condition waiter whose predicate became true "
                    "through this release is not resumed" % pst["bad"][:2], where=m.rel(gs.where))
        r4.fail()
    else:
        r4.ok()
    if not fwd:
        # the forwarding call may live in a static helper: look there as well
        for key, n_ in m.direct_callees(gs):
            hf = m.funcs.get(key)
            if hf is not None and hf.static:
                hx = FuncCtx(m, hf)
                for c in walk(hf.body):
                    if c["kind"] == "CallExpr" and callee_ref(c) and len(kids(c)) > 1 and "observer" in hx.canon(kids(c)[1]):
                        fwd.append(c)
    if not fwd:
        rep.finding(r4, gs.name, "forward:none", "signalling a guard does not forward to its observers",
                    where=m.rel(gs.where))
        r4.fail()
    # every observer is signalled: inside the walk over the list the forwarding call is unconditional - not the right operand
    # of a short-circuit, not under a test of what an earlier observer (or the guard's own waiter) did
    for c in fwd:
        lp_ = [a_ for a_ in inv.enclosing_chain(gs, c) if a_["kind"] in ("WhileStmt", "ForStmt", "DoStmt")]
        if not lp_:
            continue
        conds_c = [(n_, t_) for n_, t_ in inv.dominating_cond_nodes(gs, c)
                   if any(z is n_ for z in walk(lp_[-1])) and not any(z is n_ for z in walk(kids(lp_[-1])[0] if lp_[-1]["kind"] == "WhileStmt" else {"kind": "x"}))]
        # tests of the list cursor itself (end of list) are the walk, not a restriction
        conds_c = [(n_, t_) for n_, t_ in conds_c if "observers" not in gx.canon(n_) and "->next" not in gx.canon(n_)]
        r4.instance("forwarding call inside the walk is unconditional: %s" % (not conds_c))
        if conds_c:
            rep.finding(r4, gs.name, "forward:conditional", "inside the walk over the observers the signal is forwarded only under "
                        "%s: once that decides, the remaining observers are skipped, and a waiter at one of them whose predicate "
                        "became true through this release is not resumed" % [gx.canon(n_)[:80] for n_, t_ in conds_c],
                        where=m.rel(loc(c)))
            r4.fail()
        else:
            r4.ok()
    for c in fwd:
        callee = m.funcs.get(m.resolve(gs.unit, callee_ref(c)))
        r4.instance("observers are signalled through %s" % callee_ref(c))
        # evaluate-all shape: the callee (or something it reaches without blocking) calls a stored predicate
        # inside a loop over heap[1..heap_count]
        def eval_all(fn, depth=0, seen=None):
            seen = seen or set()
            if fn is None or fn.key in seen or depth > 3:
                return False
            seen.add(fn.key)
            if (m.rel(fn.file) or "").endswith("cmi_hashheap.c"):
                return False
            fcx = FuncCtx(m, fn)
            for x in walk(fn.body):
                if x["kind"] in ("ForStmt", "WhileStmt"):
                    cond = kids(x)[2] if x["kind"] == "ForStmt" else kids(x)[0]
                    if cond["kind"] != "Null" and "heap_count" in fcx.canon(cond):
                        if any(y["kind"] == "CallExpr" and callee_ref(y) is None and
                               fcx.canon(kids(y)[0]).endswith(".item[1]") for y in walk(x)):
                            return True
            for key, n in m.direct_callees(fn):
                if key != fn.key and eval_all(m.funcs.get(key), depth + 1, seen):
                    return True
            return False
        if eval_all(callee):
            r4.ok()
        else:
            rep.finding(r4, gs.name, "forward:head-only", "observers are signalled through %s, which evaluates only the "
                        "head of the observer's queue: a condition waiter whose predicate became true through the "
                        "release stays blocked behind an unsatisfied higher-priority waiter" % callee_ref(c),
                        where=m.rel(loc(c)))
            r4.fail()

    # R-C13-6 ------------------------------------------------------------
    r6 = rep.rule("R-C13-6", "a waiter that leaves cmb_condition_wait with any code other than success (its own timer with an "
                  "application-defined code, an interrupt, a cancel) withdraws a condition wake-up that was scheduled for it "
                  "in the same instant: otherwise the condition 'resumes' a process that is no longer waiting on it (shared "
                  "with R-C04-1)", floor=1)
    from . import c04
    c04.withdraw_rule(rep, r6, m, SIG, only={"cmb_condition_wait"})

    # R-C13-7 ------------------------------------------------------------
    r7 = rep.rule("R-C13-7", "a waiter that leaves the condition with any code other than success - the predefined negative "
                  "ones or an application-defined one of either sign, from its own timer - is out of the queue when the wait "
                  "returns: every path of cmb_resourceguard_wait (through which the condition waits) that can be taken with "
                  "a code other than success removes the caller's entry, and where the entry was already gone withdraws every wake-up "
                  "the guard sent it - whatever its code - and passes a grant on (shared with R-C08-3); a ghost entry or a "
                  "left-over wake-up would 'resume' the process out of an unrelated wait", floor=1)
    from . import c08
    c08.guard_leave_rule(rep, r7, m)

    # R-C13-8 ------------------------------------------------------------
    r8 = rep.rule("R-C13-8", "a waiter that is stopped is taken out of the condition's queue before its holdings are dropped: "
                  "the drop signals the resource's list, which is forwarded to the observing condition - a forwarded signal "
                  "that finds the dying process still queued is spent on it and lost for the satisfied waiters behind it "
                  "(shared with R-C08-5)", floor=1)
    c08.stop_ordering(rep, r8, m)


def compiler_witness(rep, m):
    """Thorough tier: every first-member step used to accept a cast is re-checked by the real compiler as a
    _Static_assert(offsetof(struct S, first) == 0) in one translation unit (a compile-fail witness)."""
    import os, subprocess, tempfile
    r = rep.rule("R-C13-1w", "compile-fail witness: for every accepted struct cast, each first-member step is confirmed by "
                 "the compiler with _Static_assert(offsetof(...) == 0)", floor=5)
    steps = set()
    for f, n, fr, to in struct_casts(m):
        for a, b in ((fr, to), (to, fr)):
            ch = m.first_member_chain(a)
            if b in ch:
                for i in range(ch.index(b)):
                    fld = m.records[ch[i]][0][0]
                    steps.add((ch[i], fld))
    if not steps:
        return
    hdrs = sorted(os.listdir(os.path.join(m.repo, "include"))) + sorted(h for h in os.listdir(os.path.join(m.repo, "src")) if h.endswith(".h"))
    lines = ["#include <stddef.h>"] + ['#include "%s"' % h for h in hdrs if h.endswith(".h")]
    local_structs = {"pool_item", "queue_tag", "event_peek", "observer_tag", "static_pools_tag"}
    for sname, fld in sorted(steps):
        if sname in local_structs or sname not in m.records:
            continue
        lines.append('_Static_assert(offsetof(struct %s, %s) == 0, "%s.%s not first");' % (sname, fld, sname, fld))
        r.instance("offsetof(struct %s, %s) == 0" % (sname, fld))
    d = tempfile.mkdtemp(prefix="cimba-wit-")
    try:
        src = os.path.join(d, "witness.c")
        open(src, "w").write("\n".join(lines) + "\n")
        gen = os.path.join(d, "gen")
        os.mkdir(gen)
        p = subprocess.run(["clang", "-fsyntax-only", "-ferror-limit=0", "-std=c17", "-D_POSIX_C_SOURCE=200809L", "-w",
                            "-I" + os.path.join(m.repo, "include"), "-I" + os.path.join(m.repo, "src"), "-I" + gen, src],
                           capture_output=True, text=True)
        errs = [l for l in p.stderr.splitlines() if "error:" in l]
        n = len(r.instances)
        r.obligations += n
        r.discharged += max(0, n - len(errs))
        for e in errs:
            rep.finding(r, "witness", "offset:" + e.split("error:")[1].strip()[:60], "the compiler refutes a first-member "
                        "step: " + e.split("error:")[1].strip(), where="witness.c")
    finally:
        import shutil
        shutil.rmtree(d, ignore_errors=True)



def run(tier="quick"):
    models = common.load_models(tier)
    rep = Report(PID, tier, models[0])
    rep.assumptions = ["user predicates are pure", "struct layout: first member at offset 0 (C standard)"]
    rep.not_decided = ["service order among simultaneously satisfied waiters (C06)"]
    for m in models:
        rep.configs.append(m.config)
        common.run_rules(rep, m, rules)
    if tier == "thorough":
        compiler_witness(rep, models[0])
    return rep.finish()
