"""C10 - Valid programs never hit memory errors, undefined behaviour or library aborts.

No static argument in reach decides all of this; the check is a bundle of exact rules, each for one class of
obligation the property's anchors name."""
import re

from ..astutil import kids, strip, walk, callee_ref, render, loc, int_value
from ..frontend import AnalysisBroken
from ..report import Report
from ..vals import FuncCtx, assert_condition
from ..engines.flow import Flow, Domain, State
from .. import inv
from . import common
from .c20 import realloc_discipline

PID = "C10"
ORIGIN = re.compile(r"(cmi_hashheap_dequeue|cmi_hashheap_item|cmi_hashheap_peek_item)\((&?[\w>.\-]+?)(?:, [^()]*(?:\([^()]*\))?[^()]*)?\)")
HEAP_ELEM = re.compile(r"&([\w>.\-]+?)(->|\.)heap\[[^\]]+\]")
RESHUFFLE = {"cmi_hashheap_dequeue", "cmi_hashheap_remove", "cmi_hashheap_cancel", "cmi_hashheap_reprioritize",
             "cmi_hashheap_pattern_cancel", "cmi_hashheap_clear"}


class PtrDomain(Domain):
    """Typestate of pointers into growable containers and of pool objects."""

    def __init__(self, m, root, eq_grow, eq_shuffle, pool_alloc, out):
        self.m = m
        self.root = root
        self.eq_grow = eq_grow          # functions that may enqueue on the event queue (may move its storage)
        self.eq_shuffle = eq_shuffle    # functions that may remove/reposition event-queue entries
        self.pool_alloc = pool_alloc    # pool name -> functions that may allocate from it
        self.out = out

    def inline(self, flow, callee, call):
        return callee is not None and callee.static and not callee.in_header

    def loop_mode(self, flow, body):
        return "once"

    # -- marking --------------------------------------------------------
    def _stale(self, flow, s, container, kinds, why):
        """Mark every local that holds a pointer into `container` (origin kind in kinds) as stale."""
        hit = False
        for k, v in list(s.env.items()):
            if not isinstance(v, str) or v.startswith("stale:") or "stale:" in v:
                continue
            # only strings that denote an address inside the storage (the origin itself, or &origin->field);
            # a value *loaded* through the pointer (origin->f, origin[i]) is an ordinary value
            mm = ORIGIN.match(v[1:] if v.startswith("&") else v)
            if mm and (mm.end() == len(v) - (1 if v.startswith("&") else 0) or v.startswith("&")):
                cont = mm.group(2).lstrip("&")
                if cont == container and mm.group(1) in kinds:
                    s.env[k] = "stale:[%s] %s" % (why, v)
                    hit = True
            if "heap" in kinds:
                mm = HEAP_ELEM.match(v)
                if mm and mm.group(1) == container:
                    s.env[k] = "stale:[%s] %s" % (why, v)
                    hit = True
        if hit:
            s._k = None

    def _check_use(self, flow, s, strings, node, what):
        for st in strings:
            if not isinstance(st, str) or "stale:" not in st:
                continue
            # a dereference of the stale pointer: stale value followed by ->, [ or preceded by *
            if re.search(r"stale:\[[^\]]*\] [^,]*?(->|\[)", st) or st.startswith("*stale:") or "(*stale:" in st:
                why = re.search(r"stale:\[([^\]]*)\]", st).group(1)
                self.out["findings"].append(("R-C10-1", self.root.name, "interior-pointer:%s" % flow.cur_func().name,
                                             "%s dereferences a pointer into container storage (%s) after %s, which can move or "
                                             "overwrite that storage" % (what, re.sub(r"stale:\[[^\]]*\] ", "", st)[:120], why),
                                             self.m.rel(loc(node))))
            if re.search(r"freed:\[[^\]]*\]", st):
                pass

    def _check_freed(self, flow, s, strings, node, what):
        """a member at offset 0 of an object that was returned to its pool holds the pool's free-list link"""
        for (kk, obj), first in [(k, v_) for k, v_ in s.d.items() if k[0] == "freedfirst"]:
            for st in strings:
                if not isinstance(st, str):
                    continue
                for mem in first:
                    if re.search(r"(?<![\w>.])" + re.escape(obj) + r"->" + re.escape(mem) + r"(?![\w])", st):
                        self.out["findings"].append(("R-C10-2", self.root.name, "use-after-free:first-word:%s" % flow.cur_func().name,
                                                     "%s reads '%s->%s' after '%s' was returned to its pool: returning an object "
                                                     "overwrites its first word with the free-list link, and '%s' lives in that word"
                                                     % (what, obj, mem, obj, mem), self.m.rel(loc(node))))

    def store(self, flow, s, lc, lhs, value, rhs, op, node):
        self._check_use(flow, s, [lc, value or ""], node, "a store")
        self._check_freed(flow, s, [value or ""], node, "a store")
        return [s]

    def assume(self, flow, s, cond, truth):
        self._check_use(flow, s, [flow.canon(s, cond)], cond, "a test")
        self._check_freed(flow, s, [flow.canon(s, cond)], cond, "a test")
        return [s]

    def at_return(self, flow, s, node, value):
        self._check_freed(flow, s, [value or ""], node, "a return")

    def call(self, flow, s, call, name, args):
        if name == "cmi_assert_failed":
            return []
        s = s.copy()
        callee_str = flow.canon(s, kids(call)[0]) if name is None else ""
        self._check_use(flow, s, list(args) + [callee_str], call, "a call")
        self._check_freed(flow, s, list(args) + [callee_str], call, "a call")
        key = self.m.resolve(flow.cur_unit(), name) if name else None
        where = self.m.rel(loc(call))
        # pointer origins seen (for the instance count)
        v = flow.canon(s, call)
        # an object named by a call expression (the node a pop returned): executing the same call again yields another
        # object, so what is known about the earlier one no longer applies to that name
        if name and isinstance(v, str) and len(v) > 4:
            for k_ in [k_ for k_ in s.d if isinstance(k_, tuple) and k_[0] in ("freed", "freedfirst", "realloc") and v in str(k_[1])]:
                del s.d[k_]
                s._k = None
        if name in ("cmi_hashheap_dequeue", "cmi_hashheap_item", "cmi_hashheap_peek_item"):
            self.out["origins"].add((self.root.name, name, args[0] if args else "?", where))
        # invalidation
        if name == "cmi_hashheap_enqueue" and args:
            self._stale(flow, s, args[0].lstrip("&"), ("cmi_hashheap_dequeue", "cmi_hashheap_item", "cmi_hashheap_peek_item", "heap"),
                        "cmi_hashheap_enqueue at %s" % where)
        elif name in RESHUFFLE and args:
            self._stale(flow, s, args[0].lstrip("&"), ("cmi_hashheap_item", "cmi_hashheap_peek_item", "heap") +
                        (("cmi_hashheap_dequeue",) if name == "cmi_hashheap_dequeue" else ()), "%s at %s" % (name, where))
        targets = set()
        if name is None:
            for n2, sig, tg in self.m.indirect_sites.get(flow.cur_func().key, []):
                if n2 is call:
                    targets = tg
        else:
            targets = {key}
        if any(t in self.eq_grow or t in self.eq_shuffle for t in targets):
            # an address inside the event queue's storage handed to a function that can move or reshuffle that
            # storage: the callee works through a pointer that its own scheduling invalidates
            for a in args:
                body = a[1:] if a.startswith("&") else a
                mm = ORIGIN.match(body)
                if mm and mm.group(2).lstrip("&") == "event_queue" and (mm.end() == len(body) or a.startswith("&")):
                    self.out["findings"].append(("R-C10-1", self.root.name, "interior-pointer-passed:%s" % flow.cur_func().name,
                                                 "'%s' points into the event queue's storage and is passed to %s, which may "
                                                 "schedule or cancel events and thereby move or overwrite that storage while "
                                                 "using it" % (a[:100], name or "an indirect callee"), where))
        if any(t in self.eq_grow for t in targets):
            self._stale(flow, s, "event_queue", ("cmi_hashheap_dequeue", "cmi_hashheap_item", "cmi_hashheap_peek_item", "heap"),
                        "%s at %s, which may schedule events" % (name or "an indirect call", where))
        elif any(t in self.eq_shuffle for t in targets):
            self._stale(flow, s, "event_queue", ("cmi_hashheap_item", "cmi_hashheap_peek_item", "heap"),
                        "%s at %s, which may reshuffle the event queue" % (name or "an indirect call", where))
        # pool objects
        if name == "cmi_mempool_free" and len(args) == 2:
            pool, obj = args[0], args[1]
            self.out["frees"].add((self.root.name, pool, where))
            if ("freed", obj) in s.d:
                self.out["findings"].append(("R-C10-2", self.root.name, "double-free:%s" % flow.cur_func().name,
                                             "object '%s' is returned to %s twice" % (obj, pool), where))
            s.d[("freed", obj)] = pool
            t_ = (kids(call)[2].get("type") or "") if len(kids(call)) > 2 else ""
            a2 = strip(kids(call)[2], casts=True) if len(kids(call)) > 2 else None
            if a2 is not None and "struct " not in t_:
                t_ = a2.get("type") or ""
            mm_ = re.search(r"struct (\w+) \*", t_)
            if mm_:
                s.d[("freedfirst", obj)] = tuple(sorted(self.m.first_word_members(mm_.group(1))))
            s._k = None
        else:
            for (kk, obj), pool in [(k, v_) for k, v_ in s.d.items() if k[0] == "freed"]:
                may_alloc = any(t in self.pool_alloc.get(pool.lstrip("&"), ()) for t in targets) or \
                    (name == "cmi_mempool_alloc" and args and args[0] == pool)
                if may_alloc:
                    s.d[("realloc", obj)] = "%s at %s" % (name or "indirect call", where)
                    s._k = None
            for a in list(args):
                for (kk, obj), why in [(k, v_) for k, v_ in s.d.items() if k[0] == "realloc"]:
                    if re.search(r"(?<![\w>])" + re.escape(obj) + r"(->|\[)", a):
                        self.out["findings"].append(("R-C10-2", self.root.name, "use-after-recycle:%s" % flow.cur_func().name,
                                                     "'%s' was returned to its pool and %s may have handed it out again before "
                                                     "this use" % (obj, why), where))
        return [s]


def pointer_lifetime(m):
    """Run the pointer-lifetime domain over every root that touches container storage or pools."""
    eq_grow = m.reaches({"cmb_event_schedule"})
    eq_shuffle = m.reaches({"cmb_event_cancel", "cmb_event_reschedule", "cmb_event_reprioritize", "cmb_event_pattern_cancel",
                            "cmb_event_execute_next"})
    pools = {}
    for f, c in inv.calls_to(m, "cmi_mempool_alloc"):
        a = render(kids(c)[1]).lstrip("&")
        pools.setdefault(a, set()).add(f.key)
    pool_alloc = {p: m.reaches(fs) for p, fs in pools.items()}
    out = {"findings": [], "origins": set(), "frees": set()}
    roots = []
    addr_taken = set()
    for ks in m.addr_taken.values():
        addr_taken |= ks
    for f in m.funcs.values():
        rel = m.rel(f.file) or ""
        if not rel.startswith(("src/", "include/")):
            continue
        if f.static and not f.in_header and f.key not in addr_taken:
            continue
        # only functions that touch container storage or pools
        txt_calls = {callee_ref(c) for c in walk(f.body) if c["kind"] == "CallExpr"}
        if not (txt_calls & {"cmi_hashheap_dequeue", "cmi_hashheap_item", "cmi_hashheap_peek_item", "cmi_mempool_free"}) and \
                not any(x["kind"] == "ArraySubscriptExpr" and "heap" in render(kids(x)[0]) for x in walk(f.body)):
            # statics inlined into it may
            if not any(m.funcs.get(m.resolve(f.unit, n)) and m.funcs[m.resolve(f.unit, n)].static for n in txt_calls if n):
                continue
        roots.append(f)
    for f in sorted(roots, key=lambda x: x.key):
        Flow(m, f, PtrDomain(m, f, eq_grow, eq_shuffle, pool_alloc, out)).run()
    return out, roots, eq_grow, pool_alloc


def rules(rep, m):
    out, roots, eq_grow, pool_alloc = pointer_lifetime(m)

    r1 = rep.rule("R-C10-1", "a pointer obtained from hashheap storage (dequeue / item / peek / &heap[i]) is not dereferenced "
                  "after a call that may insert into, remove from or grow the same container (for the event queue: any call "
                  "that can schedule, cancel or execute an event)", floor=8)
    for o in sorted(out["origins"]):
        r1.instance("%s: %s(%s) at %s" % o)
    r2 = rep.rule("R-C10-2", "an object returned to a memory pool is not returned twice and is not used after a call that may "
                  "allocate from the same pool (free only overwrites the first word; reuse starts at the next allocation)",
                  floor=8)
    for o in sorted(out["frees"]):
        r2.instance("%s frees to %s at %s" % o)
    seen = set()
    for rid, root, cons, msg, where in out["findings"]:
        if (rid, root, cons) in seen:
            continue
        seen.add((rid, root, cons))
        rep.finding(r1 if rid == "R-C10-1" else r2, root, cons, msg, where=where)
    r1.obligations += len(out["origins"])
    r1.discharged += max(0, len(out["origins"]) - len([1 for s_ in seen if s_[0] == "R-C10-1"]))
    r2.obligations += len(out["frees"])
    r2.discharged += max(0, len(out["frees"]) - len([1 for s_ in seen if s_[0] == "R-C10-2"]))
    rep.sample({"rule": "R-C10-1", "roots_analysed": len(roots), "origins": len(out["origins"]),
                "event_queue_growers": len(eq_grow), "pools": {k: len(v) for k, v in pool_alloc.items()}})

    # R-C10-3 ------------------------------------------------------------
    r3 = rep.rule("R-C10-3", "every realloc in the library stores its result back and is given a byte count", floor=4)
    realloc_discipline(rep, r3, m)

    # R-C10-4 ------------------------------------------------------------
    r4 = rep.rule("R-C10-4", "the parallel arrays of a dataset / time series (xa, ta, wa) are always allocated with the "
                  "capacity (cursize, or the initial-size constant), never with the sample count, and copies copy that many",
                  floor=6)
    for f in m.funcs.values():
        rel = m.rel(f.file) or ""
        if rel not in ("src/cmb_dataset.c", "src/cmb_timeseries.c", "src/cmi_dataset.h", "include/cmb_dataset.h",
                       "include/cmb_timeseries.h"):
            continue
        cx = FuncCtx(m, f)
        for l, r, k, n_ in inv.stores(f):
            lc = cx.canon(l)
            mm = re.search(r"->(xa|ta|wa)$", lc)
            if not mm or r is None:
                continue
            rr = strip(r, casts=True)
            if rr["kind"] != "CallExpr" or callee_ref(rr) not in ("cmi_malloc", "cmi_calloc", "cmi_realloc"):
                continue
            nm = callee_ref(rr)
            a = [cx.canon(z) for z in kids(rr)[1:]]
            if nm == "cmi_calloc":
                count = a[0]
            else:
                sz = a[-1]
                mm2 = re.fullmatch(r"\((.+) \* sizeof\(.+\)\)", sz)
                count = mm2.group(1) if mm2 else sz
            r4.instance("%s: %s = %s(count %s)" % (f.name, lc, nm, count))
            rep.sample({"rule": "R-C10-4", "function": f.name, "array": lc, "count": count})
            good = re.search(r"->cursize$", count) is not None or re.fullmatch(r"\d+", count) is not None
            if not good:
                # the count is the very value this function stores as the new capacity
                caps = {cx.canon(r2_) for l2_, r2_, k2_, n2_ in inv.stores(f)
                        if r2_ is not None and k2_ == "=" and cx.canon(l2_).endswith("->cursize")}
                good = count in caps
            if not good:
                rep.finding(r4, f.name, "sibling-size:" + mm.group(1), "%s allocates %s with %s elements; the arrays are indexed "
                            "up to the capacity (cursize), so a later append can write past it" % (f.name, lc, count),
                            where=m.rel(loc(n_)))
                r4.fail()
            else:
                r4.ok()
    # R-C10-5 ------------------------------------------------------------
    from . import c02
    r5 = rep.rule("R-C10-5", "no loop over heap[1..heap_count] restructures the heap it iterates (shared with R-C02-7)", floor=5)
    sub = Report("C02", rep.tier, m)
    try:
        c02.rules(sub, m)
    except AnalysisBroken:
        raise
    for rr_ in sub.rules:
        if rr_.id == "R-C02-7":
            r5.instances = list(rr_.instances)
            r5.obligations, r5.discharged = rr_.obligations, rr_.discharged
    for fd in sub.findings:
        if fd["rule"] == "R-C02-7":
            rep.finding(r5, fd["function"], fd["construct"], fd["message"], where=fd["where"])

    # R-C10-6 ------------------------------------------------------------
    r6 = rep.rule("R-C10-6", "every table subscripted by a byte-sized index (uint8_t or '& 0xff') has at least 256 elements",
                  floor=6)
    for f in m.funcs.values():
        if not (m.rel(f.file) or "").startswith(("src/cmb_random", "include/cmb_random")):
            continue
        for x in walk(f.body):
            if x["kind"] != "ArraySubscriptExpr":
                continue
            idx = strip(kids(x)[1])
            it = idx.get("type") or ""
            bytey = "uint8_t" in it or re.search(r"& (255|0x[fF]{2})\)?$", render(idx)) is not None
            if not bytey:
                continue
            base = strip(kids(x)[0], casts=True)
            if base["kind"] != "DeclRefExpr":
                continue
            gk = m.global_key(f.unit, f, base["ref"])
            if gk is None:
                continue
            t = m.globals[gk].type
            mm = re.search(r"\[(\d+)\]", t)
            r6.instance("%s: %s[%s] (%s)" % (f.name, base["ref"]["name"], render(idx), t))
            if not mm:
                r6.ok()       # extern without bound here: the defining unit's bound is checked where visible
                continue
            if int(mm.group(1)) < 256:
                rep.finding(r6, f.name, "table-size:" + base["ref"]["name"], "table %s has %s elements but is indexed by a byte"
                            % (base["ref"]["name"], mm.group(1)), where=m.rel(loc(x)))
                r6.fail()
            else:
                r6.ok()
    for gk, gv in m.globals.items():
        if re.search(r"zig_", gv.name) and "[" in gv.type:
            mm = re.search(r"\[(\d+)\]", gv.type)
            r6.instance("generated table %s: %s" % (gv.name, gv.type))
            if mm and int(mm.group(1)) < 256:
                rep.finding(r6, gv.name, "table-size:" + gv.name, "generated table %s has %s elements" % (gv.name, mm.group(1)),
                            where=m.rel(gv.file))
                r6.fail()
            else:
                r6.ok()

    # R-C10-7 ------------------------------------------------------------
    r7 = rep.rule("R-C10-7", "every library-internal call of a hashheap accessor that release-asserts membership (item, dkey, "
                  "ikey, reprioritize) is dominated by a membership test on the same heap and key in the same function, or "
                  "is in the reviewed table of callers whose precondition is the documented API precondition", floor=8)
    REVIEWED = {
        ("cmb_event_time", "cmi_hashheap_dkey"): "documented precondition: the event is scheduled",
        ("cmb_event_priority", "cmi_hashheap_ikey"): "documented precondition: the event is scheduled",
        ("cmb_resourcepool_release", "cmi_hashheap_item"): "documented precondition: the caller holds units (record exists, R-C07-5)",
        ("reset_holder", "cmi_hashheap_item"): "called only when initially_held > 0 (record exists, R-C07-3)",
        ("reprioritize_holder", "cmi_hashheap_reprioritize"): "invoked through a holdable tag, which exists iff the record exists (R-C07-5)",
        ("cmb_priorityqueue_reprioritize", "cmi_hashheap_reprioritize"): "documented precondition: handle is queued",
    }
    asserting = []
    for fn in ("cmi_hashheap_item", "cmi_hashheap_dkey", "cmi_hashheap_ikey", "cmi_hashheap_reprioritize"):
        f = m.need(fn)
        fx = FuncCtx(m, f)
        if any(assert_condition(s_) is not None and "!= 0" in fx.canon(assert_condition(s_)) and "find_index" in fx.canon(assert_condition(s_))
               for s_ in kids(f.body)):
            asserting.append(fn)
    for fn in asserting:
        for f, c in inv.calls_to(m, fn):
            if (m.rel(f.file) or "").endswith("cmi_hashheap.c"):
                continue
            cx = FuncCtx(m, f)
            a = [cx.canon(z) for z in kids(c)[1:]]
            H, K = a[0], a[1]
            dom = False
            # release assertion or enclosing if on is_enqueued / find_index for the same (H, K)
            idx = inv.stmt_index_containing(f, c)
            pats = [r"cmi_hash_find_index\(%s, %s\) != 0" % (re.escape(H), re.escape(K)),
                    r"cmi_hashheap_is_enqueued\(%s, %s\)" % (re.escape(H), re.escape(K))]
            for cond in inv.release_asserts_before(f, idx if idx is not None else 0):
                cc = cx.canon(cond)
                if any(re.search(p, cc) for p in pats):
                    dom = True
            for cc in inv.dominating_conditions(cx, f, c):
                if not cc.startswith("!") and any(re.search(p, cc) for p in pats):
                    dom = True
            # early-return guard: if (!member) return ...; before the call
            for s_ in kids(f.body)[:idx if idx is not None else 0]:
                if s_["kind"] == "IfStmt":
                    cc = cx.canon(kids(s_)[0])
                    if cc.startswith("!") and any(re.search(p, cc) for p in pats) and \
                            any(y["kind"] == "ReturnStmt" for y in walk(kids(s_)[1])):
                        dom = True
            # the pool's rollback: the record of a process exists iff it holds units (R-C07-3 / R-C07-5), so a positive
            # amount read through cmb_resourcepool_held_by_process for the same process at entry stands for membership
            if not dom and fn == "cmi_hashheap_item":
                for cc in inv.dominating_conditions(cx, f, c):
                    mm = re.fullmatch(r"!\((\w+) == 0\)|\(?(\w+) (?:>|!=) 0\)?", cc)
                    nm = mm and (mm.group(1) or mm.group(2))
                    if not nm:
                        continue
                    # the amount local: 0 unless set under a membership test for this heap and key (the inlined accessor)
                    decl = [d for d in walk(f.body) if d["kind"] == "VarDecl" and d.get("name") == nm]
                    if len(decl) == 1 and kids(decl[0]) and int_value(strip(kids(decl[0])[0], casts=True)) == 0:
                        sets = [x for x in walk(f.body) if x["kind"] == "BinaryOperator" and x.get("opcode") == "=" and
                                strip(kids(x)[0], casts=True)["kind"] == "DeclRefExpr" and
                                strip(kids(x)[0], casts=True)["ref"].get("id") == decl[0].get("id")]
                        others = [x for x in walk(f.body) if x["kind"] in ("CompoundAssignOperator", "UnaryOperator") and
                                  x.get("opcode") not in ("!", "-", "~", "*") and kids(x) and
                                  strip(kids(x)[0], casts=True)["kind"] == "DeclRefExpr" and
                                  strip(kids(x)[0], casts=True)["ref"].get("id") == decl[0].get("id")]
                        if sets and not others and all(
                                any(not c2.startswith("!") and any(re.search(p, c2) for p in pats)
                                    for c2 in inv.dominating_conditions(cx, f, x)) for x in sets):
                            dom = True
                            r7.notes.append("%s -> %s: dominated by %s, an amount that is only non-zero for a queued key" %
                                            (f.name, fn, cc))
                    for d in walk(f.body):
                        if d["kind"] == "VarDecl" and d.get("name") == nm and kids(d) and \
                                strip(kids(d)[0], casts=True)["kind"] == "CallExpr" and \
                                callee_ref(strip(kids(d)[0], casts=True)) == "cmb_resourcepool_held_by_process":
                            call = strip(kids(d)[0], casts=True)
                            pool, proc = cx.canon(kids(call)[1]), cx.canon(kids(call)[2])
                            if H == "&%s->holders" % pool and K == proc:
                                dom = True
                                r7.notes.append("%s -> %s: dominated by %s, the amount held at entry" % (f.name, fn, cc))
            r7.instance("%s: %s(%s, %s) dominated=%s" % (f.name, fn, H, K, dom))
            if dom:
                r7.ok()
            elif (f.name, fn) in REVIEWED:
                r7.notes.append("%s -> %s: %s" % (f.name, fn, REVIEWED[(f.name, fn)]))
                r7.ok()
            else:
                rep.finding(r7, f.name, "membership:" + fn, "%s calls %s(%s, %s), which aborts when the key is not queued, "
                            "without a dominating membership test; the entry may legitimately be gone (granted, executed, "
                            "cancelled) at this point" % (f.name, fn, H, K), where=m.rel(loc(c)))
                r7.fail()

    # R-C10-8 ------------------------------------------------------------
    from . import c04
    r8 = rep.rule("R-C10-8", "routines reached while unwinding a process never abort on queue membership or count (shared "
                  "with R-C04-2)", floor=4)
    sub = Report("C04", rep.tier, m)
    c04.rules(sub, m)
    for rr_ in sub.rules:
        if rr_.id == "R-C04-2":
            r8.instances = list(rr_.instances)
            r8.obligations, r8.discharged = rr_.obligations, rr_.discharged
    for fd in sub.findings:
        if fd["rule"] == "R-C04-2":
            rep.finding(r8, fd["function"], fd["construct"], fd["message"], where=fd["where"])


    # R-C10-9 ------------------------------------------------------------
    r9 = rep.rule("R-C10-9", "containers may grow at any moment: growth copies every slot of the old heap including the two "
                  "scratch slots (slot 0 is read after growth by the current-event query and the timer wake-up); and every "
                  "event addressed to an ending process is cancelled on every path of the unwinding routine, so a finished "
                  "process is never resumed (release assertion)", floor=2)
    okg, desc = c02.grow_copies_whole_heap(m)
    r9.instance("growth copies the whole old heap: %s (%s)" % (okg, desc))
    if not okg:
        rep.finding(r9, "hashheap_grow", "grow:partial-copy", "growth copies %s of the old heap: slot 0 (most recently dequeued "
                    "entry) is left uninitialised, so the timer wake-up removes the wrong awaitable and a later priority "
                    "change aborts on a stale handle" % desc, where="src/cmi_hashheap.c")
        r9.fail()
    else:
        r9.ok()
    from . import c09
    ca = m.need("cmi_process_cancel_awaiteds")
    okp = c09.unwinding_cancels_events_on_all_paths(m, ca, ca.params[0]["name"])
    r9.instance("unwinding cancels all events of the process on every path: %s" % okp)
    if not okp:
        rep.finding(r9, ca.name, "unwind:events-left", "a path through the unwinding routine returns without cancelling the "
                    "events addressed to the process: an interrupt or resume still pending when the process ends later "
                    "resumes a finished process (library abort / use after free)", where=m.rel(ca.where))
        r9.fail()
    else:
        r9.ok()


    # R-C10-10 -----------------------------------------------------------
    r10 = rep.rule("R-C10-10", "a new pool chunk is threaded inside its allocation: every object linked into the free list lies "
                   "within the chunk for every object size that is a multiple of 8, not only for sizes that divide the "
                   "page-rounded chunk (shared with R-C20-2, engine IDX)", floor=3)
    from . import c20
    c20.threading_rules(rep, r10, m)

    # R-C10-11 -----------------------------------------------------------
    r11 = rep.rule("R-C10-11", "the list of chunk pointers of a pool grows with the pool: on every path through an expansion the "
                   "slot written lies inside the (possibly just grown) list and the count stays below the stored length "
                   "afterwards, so the 2nd, 3rd, ... growth happens too (shared with R-C20-5, engine LSE)", floor=1)
    c20.chunk_list_bounds(rep, r11, m)

    # R-C10-12 -----------------------------------------------------------
    r12 = rep.rule("R-C10-12", "the event handles kept in a process's awaitable tags are handles of queued events: "
                   "cmb_process_priority_set hands each of them to cmb_event_reprioritize, which aborts on a handle that is "
                   "not queued (release assertion) - so the timer wake-up removes the tag of exactly the timer that fired, "
                   "by the handle of the current event, not the first time-type tag (shared with R-C04-5)", floor=2)
    ps = m.need("cmb_process_priority_set")
    px = FuncCtx(m, ps)
    uses = [c for c in walk(ps.body) if c["kind"] == "CallExpr" and callee_ref(c) == "cmb_event_reprioritize" and
            re.search(r"->(handle|ptr)\b", px.canon(kids(c)[1]))]
    er = m.need("cmb_event_reprioritize")
    asserted = any(y["kind"] == "CallExpr" and callee_ref(y) in ("cmi_hashheap_is_enqueued",)
                   for s_ in kids(er.body) if inv.assert_condition(s_) is not None for y in walk(s_))
    r12.instance("cmb_process_priority_set reprioritises %d stored handle(s); cmb_event_reprioritize asserts the handle is "
                 "queued: %s" % (len(uses), asserted))
    r12.ok()
    if uses and asserted:
        from . import c04
        c04.timer_awaitable_clause(rep, r12, m)
    else:
        # nothing aborts on a stale handle any more: the clause has no consequence for this property
        r12.instance("no consumer aborts on a stale handle: clause not required")
        r12.ok()


    # R-C10-15 -----------------------------------------------------------
    r15 = rep.rule("R-C10-15", "fixed-size buffers: every subscript of an object of array type T[N] and every bounded C-library "
                   "write into it (snprintf / memcpy / memset / strncpy with a count) stays inside the N elements; index and count "
                   "are bounded through literals, sizeof, strnlen(s, K) <= K, x % K, x & mask, single-definition locals and for "
                   "variables with constant bounds; other accesses are listed as undecided", floor=15)
    from . import scratch as _scr
    dec_, und_ = _scr.check_fixed_buffers(rep, r15, m)
    if dec_ < 15:
        raise AnalysisBroken("R-C10-15 decided only %d fixed-size buffer accesses" % dec_)

    # R-C10-14 -----------------------------------------------------------
    r14 = rep.rule("R-C10-14", "clearing the event queue forgets every key: the wipe covers the whole hash map of the current size "
                   "(shared with R-C02-5 / R-C01-9) - a key that survives is found again, cancels an unrelated live event, and "
                   "the next reschedule aborts on the count assertion", floor=1)
    c02.layout_rules(rep, r14, m, clear_only=True)

    # R-C10-13 -----------------------------------------------------------
    r13 = rep.rule("R-C10-13", "scratch arrays: every subscript of a locally allocated array - in the allocating function and "
                   "in the library function the array is handed to - stays below the allocated element count (polynomial "
                   "index and count over parameters, loop variables and match counters; facts from release assertions, "
                   "dominating conditions and loop ranges; decided by Fourier-Motzkin elimination; subscripts outside the "
                   "fragment are listed as undecided and not judged)", floor=20)
    from . import scratch
    decided, undecided = scratch.check_scratch_arrays(rep, r13, m)
    if decided < 20:
        raise AnalysisBroken("R-C10-13 decided only %d scratch-array subscripts" % decided)


def run(tier="quick"):
    models = common.load_models(tier)
    rep = Report(PID, tier, models[0])
    rep.assumptions = ["only the eight named obligation classes are decided; general absence of undefined behaviour is not claimed",
                       "the event queue is the thread's only container reached through a global; other heaps are identified by "
                       "their base expression"]
    rep.not_decided = ["index arithmetic outside the rules named (the median helper is decided in C18), integer overflow, float-to-int "
                       "conversions"]
    for m in models:
        rep.configs.append(m.config)
        common.run_rules(rep, m, rules)
    return rep.finish()
