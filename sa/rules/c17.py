"""C17 - Summaries equal exact sample statistics; merging equals concatenation."""
import re
from fractions import Fraction

from ..astutil import kids, strip, walk, callee_ref, render, loc, int_value
from ..frontend import AnalysisBroken
from ..report import Report
from ..vals import FuncCtx, is_assert_stmt
from ..engines.deg import DegEval, ANY
from .. import inv
from . import common

PID = "C17"
F0 = Fraction(0)
# degrees of the summary fields in the two scalings
FIELDS_X = {"m1": Fraction(1), "m2": Fraction(2), "m3": Fraction(3), "m4": Fraction(4), "min": Fraction(1),
            "max": Fraction(1), "count": F0, "wsum": F0}
FIELDS_W_WEIGHTED = {"m1": F0, "m2": Fraction(1), "m3": Fraction(1), "m4": Fraction(1), "min": F0, "max": F0,
                     "count": F0, "wsum": Fraction(1)}
WANT_X = {"mean": 1, "variance": 2, "stddev": 1, "skewness": 0, "kurtosis": 0}


def rules(rep, m):
    ds_add = m.need("cmb_datasummary_add")
    ds_merge = m.need("cmb_datasummary_merge")
    ws_add = m.need("cmb_wtdsummary_add")
    ws_merge = m.need("cmb_wtdsummary_merge")
    acc = {n: m.need("cmb_datasummary_" + n) for n in WANT_X}

    # R-C17-2 data homogeneity ----------------------------------------------
    r2 = rep.rule("R-C17-2", "data homogeneity: when every sample is multiplied by c, m_k scales with c^k - every sum in the "
                  "update and merge formulas adds terms of one degree, every store puts degree k into m_k, and the accessors "
                  "have the degrees of their statistic (variance 2, stddev 1, skewness and kurtosis 0)", floor=8)
    for f, pdeg in ((ds_add, {"y": Fraction(1)}), (ds_merge, {}), (ws_add, {"x": Fraction(1), "w": F0}), (ws_merge, {})):
        de = DegEval(m, f, FIELDS_X, pdeg).run()
        r2.instance("%s: %d sums/comparisons typed, %d stores" % (f.name, de.checked, len(de.stores)))
        r2.obligations += de.checked + len(de.stores)
        bad = 0
        for node, msg in de.problems:
            rep.finding(r2, f.name, "inhomogeneous-sum", "%s: %s (scaling the data by c would not scale this expression by a "
                        "power of c)" % (f.name, msg), where=m.rel(loc(node)))
            bad += 1
        for txt, fld, d, node in de.stores:
            if fld in FIELDS_X and d not in (None, ANY) and d != FIELDS_X[fld]:
                rep.finding(r2, f.name, "store-degree:" + fld, "%s stores an expression of degree %s into %s (degree %s)"
                            % (f.name, d, fld, FIELDS_X[fld]), where=m.rel(loc(node)))
                bad += 1
        r2.discharged += max(0, de.checked + len(de.stores) - bad)
        rep.sample({"rule": "R-C17-2", "function": f.name, "stores": [(t, str(d)) for t, fl, d, n in de.stores][:8]})
    call_deg = {"cmb_datasummary_variance": Fraction(2)}
    for nm, f in acc.items():
        de = DegEval(m, f, FIELDS_X, {}, call_deg).run()
        got = [d for d, n in de.returns if d not in (None, ANY)]
        r2.instance("%s returns degree %s" % (f.name, [str(g) for g in got]))
        r2.obligations += 1
        okd = all(g == WANT_X[nm] for g in got) and not de.problems and got
        if not okd:
            rep.finding(r2, f.name, "accessor-degree", "%s has data degree %s, expected %d%s" %
                        (f.name, [str(g) for g in got], WANT_X[nm], "; " + de.problems[0][1] if de.problems else ""),
                        where=m.rel(f.where))
        else:
            r2.discharged += 1

    # R-C17-1 weight homogeneity ----------------------------------------------
    r1 = rep.rule("R-C17-1", "weight homogeneity: when every weight is multiplied by c > 0 no reported statistic changes - the "
                  "weighted update/merge formulas type-check with weights of degree 1 (m1 degree 0, m2..m4 and wsum degree 1) "
                  "and every accessor of the weighted summary has degree 0 in the weights", floor=6)
    for f, pdeg in ((ws_add, {"x": F0, "w": Fraction(1)}), (ws_merge, {})):
        de = DegEval(m, f, FIELDS_W_WEIGHTED, pdeg).run()
        r1.instance("%s: %d sums typed in the weight scaling" % (f.name, de.checked))
        r1.obligations += de.checked + len(de.stores)
        bad = 0
        for node, msg in de.problems:
            rep.finding(r1, f.name, "inhomogeneous-sum", "%s: %s (scaling all weights by c would change the relative size of "
                        "these terms)" % (f.name, msg), where=m.rel(loc(node)))
            bad += 1
        for txt, fld, d, node in de.stores:
            if fld in FIELDS_W_WEIGHTED and d not in (None, ANY) and d != FIELDS_W_WEIGHTED[fld]:
                rep.finding(r1, f.name, "store-degree:" + fld, "%s stores an expression of weight degree %s into %s (degree %s)"
                            % (f.name, d, fld, FIELDS_W_WEIGHTED[fld]), where=m.rel(loc(node)))
                bad += 1
        r1.discharged += max(0, de.checked + len(de.stores) - bad)
    # accessors of the weighted summary: follow the delegation
    for nm in ("mean", "variance", "stddev", "skewness", "kurtosis"):
        wf = m.need("cmb_wtdsummary_" + nm)
        wx = FuncCtx(m, wf)
        # which function computes it?
        target = None
        for c in walk(wf.body):
            if c["kind"] == "CallExpr" and (callee_ref(c) or "").startswith(("cmb_datasummary_", "cmb_wtdsummary_")):
                target = m.need(callee_ref(c))
        impl = target or wf
        cd = {}
        if nm == "stddev":
            # stddev = sqrt(variance): degree of the variance implementation used
            vimpl = m.need("cmb_wtdsummary_variance")
            vt = None
            for c in walk(vimpl.body):
                if c["kind"] == "CallExpr" and (callee_ref(c) or "").startswith("cmb_datasummary_"):
                    vt = m.need(callee_ref(c))
            vde = DegEval(m, vt or vimpl, FIELDS_W_WEIGHTED, {}).run()
            vd = [d for d, n in vde.returns if d not in (None, ANY)]
            cd = {"cmb_datasummary_variance": vd[0] if vd else None, "cmb_wtdsummary_variance": vd[0] if vd else None}
        de = DegEval(m, impl, FIELDS_W_WEIGHTED, {}, cd).run()
        got = [d for d, n in de.returns if d not in (None, ANY)]
        r1.instance("cmb_wtdsummary_%s (computed by %s): weight degree %s" % (nm, impl.name, [str(g) for g in got]))
        rep.sample({"rule": "R-C17-1", "statistic": nm, "implementation": impl.name, "weight_degree": [str(g) for g in got]})
        r1.obligations += 1
        if got and all(g == 0 for g in got) and not de.problems:
            r1.discharged += 1
        else:
            rep.finding(r1, "cmb_wtdsummary_" + nm, "weight-degree", "the weighted %s (computed by %s) has degree %s in the "
                        "weights%s: multiplying every weight by a constant changes it" %
                        (nm, impl.name, [str(g) for g in got] or "?", ("; " + de.problems[0][1]) if de.problems else ""),
                        where=m.rel(impl.where))

    # R-C17-3 guarded divisions -------------------------------------------------
    r3 = rep.rule("R-C17-3", "every division by a quantity derived from the sample count or the weight sum is dominated by a "
                  "fact that makes it positive (pre-incremented count, zero-weight early return, explicit count guards, "
                  "empty-merge early return)", floor=7)
    wacc = tuple(m.need("cmb_wtdsummary_" + n_) for n_ in ("variance", "stddev", "skewness", "kurtosis"))
    from ..vals import any_assert_condition
    from ..astutil import float_value

    def count_floor(conds):
        """largest k such that the dominating conditions imply 'some sample count >= k' (per count expression)"""
        lb = {}
        for cd in conds:
            neg = cd.startswith("!")
            c0 = cd[1:] if neg else cd
            mm = re.fullmatch(r"\((.+(?:->|\.)count) (>|>=|==|!=|<|<=) (\d+)\)", c0)
            if not mm:
                continue
            e, op, k = mm.group(1), mm.group(2), int(mm.group(3))
            if neg:
                op = {">": "<=", ">=": "<", "==": "!=", "!=": "==", "<": ">=", "<=": ">"}[op]
            v = None
            if op == ">":
                v = k + 1
            elif op == ">=":
                v = k
            elif op == "!=" and k == 0:
                v = 1
            if v is not None:
                lb[e] = max(lb.get(e, 0), v)
        return lb

    def positive(cx, f, node, conds, lb, depth=0):
        """provably > 0 (weights of counted samples are positive: w >= 0 asserted and w == 0 returns early)"""
        n_ = cx.resolve(node) if depth < 10 else strip(node, casts=True)
        k = n_["kind"]
        v = float_value(n_) if k in ("IntegerLiteral", "FloatingLiteral") else None
        if v is not None:
            return v > 0
        c = cx.canon(n_)
        if k == "UnaryOperator" and n_.get("opcode") == "++" and re.search(r"(->|\.)count$", cx.canon(kids(n_)[0])):
            return True
        if k in ("MemberExpr", "DeclRefExpr"):
            if re.search(r"(->|\.)count$", c):
                return lb.get(c, 0) >= 1 or any(v_ >= 1 for e_, v_ in lb.items() if e_.split("->")[-1].split(".")[-1] == "count" and e_ == c)
            if re.search(r"(->|\.)wsum$", c):
                # the weight sum of a summary that is known to hold samples
                owner = re.sub(r"(->|\.)wsum$", "", c)
                return any(lb.get(e_, 0) >= 1 for e_ in lb if re.sub(r"(->|\.)(ds\.)?count$", "", e_) in (owner, "(struct cmb_datasummary *)" + owner))
            if k == "DeclRefExpr" and n_["ref"].get("kind") == "ParmVarDecl":
                return any(cd in ("(%s > 0)" % c, "(%s > 0.0)" % c, "!(%s == 0)" % c, "!(%s == 0.0)" % c, "(%s != 0)" % c,
                                  "(%s != 0.0)" % c, "!(%s <= 0)" % c, "!(%s <= 0.0)" % c) for cd in conds) and \
                    (any(any_assert_condition(s_) is not None and cx.canon(any_assert_condition(s_)) in ("(%s >= 0)" % c, "(%s >= 0.0)" % c)
                         for s_ in kids(f.body)) or any(cd in ("(%s > 0)" % c, "(%s > 0.0)" % c) for cd in conds))
            return False
        if k == "BinaryOperator":
            op = n_["opcode"]
            a_, b_ = kids(n_)[0], kids(n_)[1]
            if op == "*":
                return positive(cx, f, a_, conds, lb, depth + 1) and positive(cx, f, b_, conds, lb, depth + 1)
            if op == "+":
                pa, pb = positive(cx, f, a_, conds, lb, depth + 1), positive(cx, f, b_, conds, lb, depth + 1)
                return (pa and nonneg(cx, f, b_, conds, lb, depth + 1)) or (pb and nonneg(cx, f, a_, conds, lb, depth + 1))
            if op == "-":
                kk = float_value(strip(b_, casts=True))
                ca = cx.canon(a_)
                if kk is not None and re.search(r"(->|\.)count$", ca):
                    return lb.get(ca, 0) >= kk + 1
                return False
        return False

    def nonneg(cx, f, node, conds, lb, depth=0):
        n_ = cx.resolve(node) if depth < 10 else strip(node, casts=True)
        if positive(cx, f, n_, conds, lb, depth + 1):
            return True
        v = float_value(n_) if n_["kind"] in ("IntegerLiteral", "FloatingLiteral") else None
        if v is not None:
            return v >= 0
        c = cx.canon(n_)
        if re.search(r"(->|\.)(count|wsum)$", c):
            return True                    # counts are unsigned; a weight sum is a sum of asserted non-negative weights
        if n_["kind"] == "DeclRefExpr" and n_["ref"].get("kind") == "ParmVarDecl":
            return any(any_assert_condition(s_) is not None and cx.canon(any_assert_condition(s_)) in ("(%s >= 0)" % c, "(%s >= 0.0)" % c)
                       for s_ in kids(f.body))
        if n_["kind"] == "BinaryOperator" and n_["opcode"] in ("+", "*"):
            return nonneg(cx, f, kids(n_)[0], conds, lb, depth + 1) and nonneg(cx, f, kids(n_)[1], conds, lb, depth + 1)
        return False

    for f in (ds_add, ds_merge, ws_add, ws_merge) + tuple(acc.values()) + wacc:
        cx = FuncCtx(m, f)
        for x in walk(f.body):
            if x["kind"] != "BinaryOperator" or x.get("opcode") != "/":
                continue
            div = cx.canon(kids(x)[1])
            if not re.search(r"count|wsum", div):
                continue
            r3.instance("%s: / %s" % (f.name, div[:80]))
            conds = inv.dominating_conditions(cx, f, x)
            lb = count_floor(conds)
            # a merged summary that is not empty has a non-empty operand: count(a) + count(b) != 0
            for cd in conds:
                mm = re.fullmatch(r"!\(\((.+count) \+ (.+count)\) == 0\)|\(\((.+count) \+ (.+count)\) != 0\)", cd)
                if mm:
                    lb["(%s + %s)" % tuple(g_ for g_ in mm.groups() if g_)] = 1
            # a count that was raised by a statement that always runs before this division is at least 1 here
            for l_, r__, k__, n__ in inv.stores(f):
                lc_ = cx.canon(l_)
                if not re.search(r"(->|\.)count$", lc_) or strip(l_, casts=True)["kind"] != "MemberExpr":
                    continue
                raised = k__ == "++" or (k__ == "+=" and (float_value(strip(r__, casts=True)) or 0) >= 1) or \
                    (k__ == "=" and r__ is not None and re.fullmatch(r"\(%s \+ [1-9]\d*\)|\([1-9]\d* \+ %s\)" % (re.escape(lc_), re.escape(lc_)), cx.canon(r__)))
                if raised and not any(a_ is n__ for a_ in walk(x)) and inv.executes_before(f, n__, x):
                    lb[lc_] = max(lb.get(lc_, 0), 1)
            ok = positive(cx, f, kids(x)[1], conds, lb)
            if not ok:
                # the merged weight sum / count of a non-empty merge (the empty case returned early)
                merged_nonempty = any(v_ >= 1 for e_, v_ in lb.items() if " + " in e_) or any(
                    re.fullmatch(r"!\(.*count\)? == 0\)|\(.*count\)? != 0\)|\(.*count\)? > 0\)", cd) for cd in conds)
                if merged_nonempty and re.search(r"wsum|count", div) and not re.search(r"count - ", div):
                    ok = True
            if ok:
                r3.ok()
            else:
                rep.finding(r3, f.name, "division:unguarded", "%s divides by '%s', which can be zero (empty summary / zero "
                            "weight sum): the result is NaN or infinite and poisons every later update (known here: %s)" %
                            (f.name, div[:100], conds[:4]), where=m.rel(loc(x)))
                r3.fail()

    # R-C17-5 unsigned differences -------------------------------------------------
    r5 = rep.rule("R-C17-5", "sample counts are unsigned: a difference of two counts (or a count minus a constant) is taken "
                  "only under a guard that makes it non-negative, or after conversion to floating point; otherwise it wraps "
                  "to ~1.8e19 for some operand order", floor=1)
    for f in (ds_add, ds_merge, ws_add, ws_merge) + tuple(acc.values()) + wacc:
        cx = FuncCtx(m, f)
        for x in walk(f.body):
            if x["kind"] != "BinaryOperator" or x.get("opcode") != "-":
                continue
            t = (x.get("type") or "")
            if not ("uint64_t" in t or "unsigned" in t):
                continue
            a_, b_ = cx.canon(kids(x)[0]), cx.canon(kids(x)[1])
            if "count" not in a_ + b_:
                continue
            r5.instance("%s: unsigned (%s - %s)" % (f.name, a_, b_))
            conds = inv.dominating_conditions(cx, f, x)
            lb = count_floor(conds)
            if re.fullmatch(r"\d+", b_):
                ok = lb.get(a_, 0) >= int(b_)
            else:
                ok = any(cd in ("(%s >= %s)" % (a_, b_), "(%s > %s)" % (a_, b_), "!(%s < %s)" % (a_, b_), "!(%s <= %s)" % (a_, b_),
                                "(%s <= %s)" % (b_, a_), "(%s < %s)" % (b_, a_), "!(%s > %s)" % (b_, a_), "!(%s >= %s)" % (b_, a_))
                         for cd in conds)
            if ok:
                r5.ok()
            else:
                rep.finding(r5, f.name, "unsigned-difference", "%s computes the unsigned difference %s - %s without a guard: "
                            "when the first is smaller it wraps around, so the result depends on the order of the operands"
                            % (f.name, a_, b_), where=m.rel(loc(x)))
                r5.fail()

    # R-C17-4 ------------------------------------------------------------------
    r4 = rep.rule("R-C17-4", "merge computes into a local and writes the target only through one final struct copy (operands "
                  "may alias the target); count, min and max are merged with the right operations", floor=2)
    for f in (ds_merge, ws_merge):
        cx = FuncCtx(m, f)
        tgt = f.params[0]["name"]
        tstores = [(render(l), n_) for l, r, k, n_ in inv.stores(f) if render(l).startswith(("*" + tgt, tgt + "->"))]
        r4.instance("%s: stores to the target: %s" % (f.name, [t for t, n_ in tstores]))
        whole = [t for t, n_ in tstores if t == "*" + tgt]
        partial = [t for t, n_ in tstores if t != "*" + tgt]
        # member stores are as good as one whole-record store when every operand field has been read before the first of
        # them (document order in a loop-free body): the operands may be the target
        late_reads = True
        if partial and not any(x["kind"] in ("ForStmt", "WhileStmt", "DoStmt", "GotoStmt") and not is_assert_stmt(x)
                               for x in walk(f.body)):
            order = {id(x): i for i, x in enumerate(walk(f.body))}
            first = min(order[id(n_)] for t, n_ in tstores)
            ops = {f.params[1]["name"], f.params[2]["name"]}
            late_reads = any(x["kind"] == "MemberExpr" and order[id(x)] > first and
                             strip(kids(x)[0], casts=True)["kind"] == "DeclRefExpr" and
                             strip(kids(x)[0], casts=True)["ref"].get("name") in ops for x in walk(f.body))
            # ... and calls that receive an operand after that point could read it too
            late_reads = late_reads or any(
                x["kind"] == "CallExpr" and order[id(x)] > first and
                any(y["kind"] == "DeclRefExpr" and y.get("ref", {}).get("name") in ops for y in walk(x)) for x in walk(f.body))
        if (partial and late_reads) or not tstores:
            rep.finding(r4, f.name, "merge:alias", "merge writes target fields (%s) before all operand fields were read: wrong "
                        "result when the target is one of the operands" % partial, where=m.rel(f.where))
            r4.fail()
        else:
            # every whole-struct store is the last thing before a return
            r4.ok()
        # a whole-struct store must copy the whole summary type of this function: copying through the base type of a
        # weighted summary leaves the weight sum behind
        want_t = (f.params[0].get("type") or "").replace("*", "").replace("const ", "").strip()
        for l, r_, k_, n_ in inv.stores(f):
            ls = strip(l)
            if render(l) == "*" + tgt or (ls["kind"] == "UnaryOperator" and ls.get("opcode") == "*" and
                                          render(strip(kids(ls)[0], casts=True)) == tgt):
                lt = (ls.get("type") or "").replace("const ", "").strip()
                r4.instance("%s: whole store through type '%s'" % (f.name, lt))
                if lt != want_t:
                    rep.finding(r4, f.name, "merge:partial-copy", "%s copies into the target through '%s' although the target is a "
                                "'%s': the fields of the derived part (the weight sum) keep their old values, so the merged "
                                "summary's weighted moments are divided by a stale weight" % (f.name, lt, want_t), where=m.rel(loc(n_)))
                    r4.fail()
                else:
                    r4.ok()
        st = {re.sub(r"^\w+(\.|->)", "", cx.canon(l)): common.as_ternary(cx, f, r) for l, r, k, n_ in inv.stores(f)
              if r is not None and strip(l, casts=True)["kind"] == "MemberExpr"}
        p1, p2 = f.params[1]["name"], f.params[2]["name"]
        def fld(p, x):
            return "%s->%s" % (p, x)
        cnt = st.get("count") or st.get("ds.count")
        mn = st.get("min") or st.get("ds.min")
        mx = st.get("max") or st.get("ds.max")
        rep.sample({"rule": "R-C17-4", "function": f.name, "count": cnt, "min": mn, "max": mx})
        okc = cnt in ("(%s + %s)" % (fld(p1, "count"), fld(p2, "count")), "(%s + %s)" % (fld(p1, "ds.count"), fld(p2, "ds.count")))
        okmin = mn is not None and re.fullmatch(r"\(\((.+) < (.+)\) \? \1 : \2\)", mn) is not None
        okmax = mx is not None and re.fullmatch(r"\(\((.+) > (.+)\) \? \1 : \2\)", mx) is not None
        for okk, key, what in ((okc, "merge:count", "count = %s" % cnt), (okmin, "merge:min", "min = %s" % mn),
                               (okmax, "merge:max", "max = %s" % mx)):
            if okk:
                r4.ok()
            else:
                rep.finding(r4, f.name, key, "merge computes %s" % what, where=m.rel(f.where))
                r4.fail()
    # add: min/max updated with the sample, count incremented once
    for f, xn in ((ds_add, ds_add.params[1]["name"]), (ws_add, ws_add.params[1]["name"])):
        cx = FuncCtx(m, f)
        sts = [(cx.canon(l), cx.canon(r) if r is not None else k) for l, r, k, n_ in inv.stores(f)]
        mx = [v for l, v in sts if l.endswith("->max")]
        mn = [v for l, v in sts if l.endswith("->min")]
        def upd(field, op):
            rop = {">": "<", "<": ">"}[op]
            for l, r, k, n_ in inv.stores(f):
                lc = cx.canon(l)
                if not lc.endswith(("->" + field, "." + field)) or r is None:
                    continue
                v = cx.canon(r)
                if re.fullmatch(r"\(\(%s %s (.+)\) \? %s : \1\)" % (xn, op, xn), v) or \
                        re.fullmatch(r"\(\((.+) %s %s\) \? %s : \1\)" % (rop, xn, xn), v):
                    return True
                # the guarded form: if (x > max) max = x;
                if v == xn and any(cd in ("(%s %s %s)" % (xn, op, lc), "(%s %s %s)" % (lc, rop, xn))
                                   for cd in inv.dominating_conditions(cx, f, n_)):
                    return True
            return False
        okm = upd("max", ">") and upd("min", "<")
        r4.instance("%s: min/max update %s" % (f.name, okm))
        if not okm:
            rep.finding(r4, f.name, "add:minmax", "add does not update min/max with the new sample (%s / %s)" % (mn, mx),
                        where=m.rel(f.where))
            r4.fail()
        else:
            r4.ok()
    # zero-weight samples are ignored before anything is updated
    wx = FuncCtx(m, ws_add)
    wn = ws_add.params[2]["name"]
    nz = ("!(%s == 0)" % wn, "!(%s == 0.0)" % wn, "(%s != 0)" % wn, "(%s != 0.0)" % wn, "(%s > 0)" % wn, "(%s > 0.0)" % wn,
          "!(%s <= 0)" % wn, "!(%s <= 0.0)" % wn)
    unguarded = [render(l) for l, r, k, n_ in inv.stores(ws_add)
                 if not render(l).replace("*", "").isidentifier() and
                 not any(cd in nz for cd in inv.dominating_conditions(wx, ws_add, n_))]
    r4.instance("%s: stores reached with a zero weight: %s" % (ws_add.name, unguarded))
    if unguarded:
        rep.finding(r4, ws_add.name, "zero-weight", "zero-weight samples are not ignored before the summary is updated",
                    where=m.rel(ws_add.where))
        r4.fail()
    else:
        r4.ok()

    # R-C17-6 restart ------------------------------------------------------------
    r6 = rep.rule("R-C17-6", "every function that restarts a summary (sets the count to 0) also restarts, itself or through the "
                  "functions it calls, every other statistic of the type it is given: minimum to +max/infinity, maximum to "
                  "-max/-infinity, the four moments to 0, and for a weighted summary the weight sum to 0 - an empty summary "
                  "is an operand of merge, which reads all of them", floor=4)
    import sys as _sys

    def own_stores(f):
        """member stores of f through its first parameter (possibly cast): {field: [rhs node]}"""
        out = {}
        if not f.params:
            return out
        fx = FuncCtx(m, f)
        p0 = f.params[0]["name"]
        for l, r_, k_, n_ in inv.stores(f):
            l0 = strip(l, casts=True)
            if l0["kind"] == "MemberExpr" and k_ == "=" and r_ is not None:
                base = fx.canon(kids(l0)[0])
                if base == p0 or base.endswith(")" + p0) or re.sub(r"^\(.*?\)", "", base) == p0 or \
                        common.same_object(m, base, p0) or common.same_object(m, "&" + base, p0):
                    out.setdefault(l0.get("name"), []).append(r_)
            # the whole object assigned from a constant template: every member receives the template's initialiser
            if l0["kind"] == "UnaryOperator" and l0.get("opcode") == "*" and k_ == "=" and r_ is not None and \
                    fx.canon(kids(l0)[0]) == p0:
                r0 = strip(r_, casts=True)
                if r0["kind"] == "DeclRefExpr":
                    gk = m.global_key(f.unit, f, r0["ref"])
                    g = m.globals.get(gk) if gk else None
                    il = [c_ for c_ in kids(g.node) if c_["kind"] == "InitListExpr"] if g is not None and g.node is not None else []
                    sn = re.search(r"struct (\w+)", (g.type or "")) if g is not None else None
                    if il and sn and sn.group(1) in m.records:
                        for (fname_, ft_, fd_), val in zip(m.records[sn.group(1)], kids(il[0])):
                            if fname_:
                                out.setdefault(fname_, []).append(val)
        return out

    def closure_stores(f, seen=None):
        seen = seen if seen is not None else set()
        if f.name in seen:
            return {}
        seen.add(f.name)
        out = {k_: list(v_) for k_, v_ in own_stores(f).items()}
        fx = FuncCtx(m, f)
        p0 = f.params[0]["name"] if f.params else None
        for c in walk(f.body):
            if c["kind"] == "CallExpr" and len(kids(c)) > 1:
                cal = m.func_named(callee_ref(c) or "")
                a0 = fx.canon(kids(c)[1])
                if cal and cal[0].body is not None and (a0 == p0 or re.sub(r"^\(.*?\)", "", a0) == p0 or common.same_object(m, a0, p0)):
                    for k_, v_ in closure_stores(cal[0], seen).items():
                        out.setdefault(k_, []).extend(v_)
        return out

    def fval(n_):
        n_ = strip(n_, casts=True)
        if n_["kind"] == "UnaryOperator" and n_.get("opcode") == "-":
            v = fval(kids(n_)[0])
            return None if v is None else -v
        if n_["kind"] in ("IntegerLiteral", "FloatingLiteral"):
            return float_value(n_)
        if n_["kind"] == "CallExpr" and (callee_ref(n_) or "") in ("__builtin_inff", "__builtin_inf", "__builtin_huge_val", "__builtin_huge_valf"):
            return float("inf")
        return None
    DBLMAX = _sys.float_info.max
    WANT = {"count": lambda v: v == 0, "min": lambda v: v is not None and v >= DBLMAX, "max": lambda v: v is not None and v <= -DBLMAX,
            "m1": lambda v: v == 0, "m2": lambda v: v == 0, "m3": lambda v: v == 0, "m4": lambda v: v == 0, "wsum": lambda v: v == 0}
    for f in m.funcs.values():
        if not f.params or f.body is None:
            continue
        t0 = (f.params[0].get("type") or "")
        if "const" in t0 or not re.search(r"struct cmb_(datasummary|wtdsummary) \*", t0):
            continue
        cs = closure_stores(f)
        if not any(fval(v_) == 0 for v_ in cs.get("count", [])):
            continue
        # add/merge write the count too, but never the constant 0 unconditionally on a fresh object: restrict to functions
        # all of whose count stores are the constant 0
        if not all(fval(v_) == 0 for v_ in cs.get("count", [])):
            continue
        need = ["count", "min", "max", "m1", "m2", "m3", "m4"] + (["wsum"] if "wtdsummary" in t0 else [])
        r6.instance("%s(%s): restarts %s" % (f.name, t0, sorted(k_ for k_ in cs if k_ in WANT)))
        for fld in need:
            vals = [fval(v_) for v_ in cs.get(fld, [])]
            if not vals:
                rep.finding(r6, f.name, "restart:field-kept:" + fld, "%s restarts the count of a '%s' but neither it nor the functions it "
                            "calls restart '%s': the summary then looks empty while %s keeps its old value, which merge (and the "
                            "next first sample) read" % (f.name, t0.replace(" *", ""), fld, fld), where=m.rel(f.where))
                r6.fail()
            elif not all(WANT[fld](v) for v in vals):
                rep.finding(r6, f.name, "restart:value:" + fld, "%s restarts '%s' with %s: an empty summary must hold count 0, "
                            "zero moments and weight sum, and extremes that every finite sample replaces (min = DBL_MAX or "
                            "infinity, max = -DBL_MAX or -infinity)" % (f.name, fld, vals), where=m.rel(f.where))
                r6.fail()
            else:
                r6.ok()

    # R-C17-7 extremes on every counted path ------------------------------------------
    r7 = rep.rule("R-C17-7", "add: on every path that counts the sample, the minimum and the maximum are updated with it (a "
                  "comparison-and-replace, or set to the sample when it is the first): conditions under which the count is "
                  "raised imply the conditions under which the extremes are updated", floor=2)
    for f in (ds_add, ws_add):
        cx = FuncCtx(m, f)
        xn = f.params[1]["name"]
        counts = []
        for y in walk(f.body):
            if y["kind"] == "UnaryOperator" and y.get("opcode") == "++" and cx.canon(kids(y)[0]).endswith(("->count", ".count")):
                counts.append(y)
        for l, r_, k_, n_ in inv.stores(f):
            if cx.canon(l).endswith(("->count", ".count")) and k_ in ("=", "+=") and not any(n_ is c_ for c_ in counts):
                counts.append(n_)

        def updates(field, op):
            rop = {">": "<", "<": ">"}[op]
            out = []
            for l, r_, k_, n_ in inv.stores(f):
                lc = cx.canon(l)
                if not lc.endswith(("->" + field, "." + field)) or r_ is None:
                    continue
                v = cx.canon(r_)
                own = ("(%s %s %s)" % (xn, op, lc), "(%s %s %s)" % (lc, rop, xn))
                conds = [cd for cd in inv.dominating_conditions(cx, f, n_) if cd not in own]
                tern = re.fullmatch(r"\(\(%s %s (.+)\) \? %s : \1\)" % (xn, op, xn), v) or \
                    re.fullmatch(r"\(\((.+) %s %s\) \? %s : \1\)" % (rop, xn, xn), v)
                guarded = v == xn and len(conds) < len(inv.dominating_conditions(cx, f, n_))
                first = v == xn and any(re.fullmatch(r"\(.*(->|\.)count == 0\)|!\(.*(->|\.)count (!=|>) 0\)", cd) for cd in conds)
                if tern or guarded or first:
                    out.append((conds, n_))
            return out
        for c_ in counts:
            cc = inv.dominating_conditions(cx, f, c_)
            r7.instance("%s: count raised at line %s under %s" % (f.name, c_.get("line") or (loc(c_) or "").split(":")[-1], cc))
            for field, op in (("max", ">"), ("min", "<")):
                ok = any(all(cd in cc for cd in conds) for conds, n_ in updates(field, op))
                if ok:
                    r7.ok()
                else:
                    rep.finding(r7, f.name, "add:extreme-skipped:" + field, "%s counts the sample under %s, but no update of %s with "
                                "the sample happens under conditions that these imply: on that path the sample is counted while "
                                "the reported %s may not cover it (e.g. the first sample of an empty summary)"
                                % (f.name, cc or "no condition", field, "maximum" if field == "max" else "minimum"), where=m.rel(loc(c_)))
                    r7.fail()


    # R-C17-8 siblings agree ------------------------------------------------------------
    r8 = rep.rule("R-C17-8", "adding a sample is merging with the one-sample summary: read as exact formulas over the rationals "
                  "(engine LAU), the first four moment sums (and the weight sum) that add(S, x[, w]) leaves behind are "
                  "identical to those of merge(S, one) and merge(one, S) with one = {count 1, mean x, m2 = m3 = m4 = 0[, weight w]}, "
                  "for a non-empty S with symbolic sums and for a freshly initialised S (the first sample), and a positive weight; this is a necessary condition of 'any split and merge order gives the same statistics' "
                  "(a split that puts one sample on one side) and ties each term of the merge formulas to the update formula",
                  floor=2)
    from ..engines.laurent import LP, Formula
    N, W = LP.sym("N"), LP.sym("W")
    y, w = LP.sym("x"), LP.sym("w")
    base = {"m1": LP.sym("M1"), "m2": LP.sym("M2"), "m3": LP.sym("M3"), "m4": LP.sym("M4")}
    one = {"count": LP.const(1), "m1": y, "m2": LP(), "m3": LP(), "m4": LP()}
    pairs = ((ds_add, m.need("cmb_datasummary_merge"), False), (ws_add, m.need("cmb_wtdsummary_merge"), True))
    cases = [(fa, fm, weighted, empty) for fa, fm, weighted in pairs for empty in (False, True)]
    for fa, fm, weighted, empty in cases:
        # the first summary: non-empty with symbolic sums, or freshly initialised (the first sample of a summary)
        S = dict(base, count=N - LP.const(1)) if not empty else {"count": LP(), "m1": LP(), "m2": LP(), "m3": LP(), "m4": LP()}
        O = dict(one)
        if weighted:
            S["wsum"] = (W - w) if not empty else LP()
            O["wsum"] = w
        pa, pm = fa.params, fm.params
        A = Formula(m, fa, {pa[0]["name"]: dict(S)}, dict([(pa[1]["name"], y)] + ([(pa[2]["name"], w)] if weighted else [])))
        A.positive = M_pos = [N, N - LP.const(1), w, W, W - w, LP.const(1)]
        A.run()
        fields = ["m1", "m2", "m3", "m4"] + (["wsum"] if weighted else [])
        for order in ("S, one", "one, S"):
          M = Formula(m, fm, {pm[1]["name"]: dict(S if order == "S, one" else O),
                              pm[2]["name"]: dict(O if order == "S, one" else S), pm[0]["name"]: {}}, {})
          M.positive = M_pos
          M.run()
          for fl in fields:
              va = A.store.get((pa[0]["name"], fl))
              vm = M.store.get((pm[0]["name"], fl))
              if va is None or vm is None:
                  raise AnalysisBroken("R-C17-8: %s / %s leave no value for %s" % (fa.name, fm.name, fl))
              same = (va - vm) == LP()
              r8.instance("%s vs %s(%s)%s, %s: identical: %s (%d terms)" % (fa.name, fm.name, order, " with S empty" if empty else "", fl, same, len(va)))
              if same:
                  r8.ok()
              else:
                  diff = va - vm
                  rep.finding(r8, fm.name, "siblings:" + fl + (":mirrored" if order != "S, one" else "") + (":first-sample" if empty else ""), "%s and %s disagree on %s when one of the merged summaries holds a single "
                              "sample: add leaves %s, merge leaves %s (difference %s; N is the combined count%s, M1..M4 the "
                              "sums of the first summary, x the sample): one of the two formulas is wrong, and the statistics "
                              "then depend on how the samples were split" % (fa.name, fm.name, fl, va.show(4), vm.show(4),
                                                                              diff.show(4), ", W the combined weight" if weighted else ""),
                              where=m.rel(fm.where))
                  r8.fail()


def run(tier="quick"):
    models = common.load_models(tier)
    rep = Report(PID, tier, models[0])
    rep.assumptions = ["homogeneity is a necessary condition of exactness: it catches wrong powers and missing/extra weight "
                       "factors, not wrong numeric coefficients"]
    rep.not_decided = ["equality with the exact statistics beyond the one-sample specialisations of R-C17-8 (terms of the merge "
                       "that multiply two non-trivial summaries' higher sums with each other), rounding"]
    for m in models[:1]:
        rep.configs.append(m.config)
        common.run_rules(rep, m, rules)
    return rep.finish()
