"""C15 - Random streams depend on the seed alone and are the documented generator."""
import re

from ..astutil import kids, strip, walk, callee_ref, render, loc, int_value
from ..frontend import AnalysisBroken
from ..report import Report
from ..vals import FuncCtx, is_assert_stmt
from .. import inv
from . import common

PID = "C15"
PURE_MATH = {"sqrt", "log", "exp", "pow", "fabs", "ceil", "floor", "ldexp", "log1p", "expm1", "cbrt", "fmin", "fmax"}
RANDOM_FILES = ("src/cmb_random.c", "include/cmb_random.h")


def sampling_api(m):
    out = []
    for f in m.funcs.values():
        if m.rel(f.file) in RANDOM_FILES and not (f.static and not f.in_header):
            if f.name in ("cmb_random_initialize", "cmb_random_terminate", "cmb_random_curseed", "cmb_random_hwseed"):
                continue
            out.append(f)
    return out


def unconditional_writes(m, f, depth=0, seen=None):
    """Globals written by top-level (unconditional) statements of f, following unconditional calls."""
    seen = seen or set()
    if f.key in seen or depth > 4:
        return set()
    seen.add(f.key)
    out = set()
    for s in kids(f.body):
        if s["kind"] in ("IfStmt", "WhileStmt", "DoStmt", "SwitchStmt"):
            if is_assert_stmt(s):
                continue
            continue
        for x in walk(s):
            if x["kind"] in ("IfStmt", "ConditionalOperator"):
                break
        for lhs, rhs, kind, node in [(kids(x)[0], None, None, x) for x in walk(s)
                                     if (x["kind"] == "BinaryOperator" and x.get("opcode") == "=")
                                     or x["kind"] == "CompoundAssignOperator"]:
            root = strip(lhs, casts=True)
            while root["kind"] in ("MemberExpr", "ArraySubscriptExpr") and not root.get("isArrow") and kids(root):
                root = strip(kids(root)[0], casts=True)
            if root["kind"] == "DeclRefExpr" and root.get("ref", {}).get("kind") == "VarDecl":
                gk = m.global_key(f.unit, f, root["ref"])
                if gk:
                    out.add(gk)
        if s["kind"] == "ForStmt":
            continue
        for x in walk(s):
            if x["kind"] == "CallExpr" and callee_ref(x):
                g = m.funcs.get(m.resolve(f.unit, callee_ref(x)))
                if g is not None:
                    out |= unconditional_writes(m, g, depth + 1, seen)
    return out


def memo_state(m):
    """(sampling functions, static-storage state they touch) - the inputs of memo_coherence"""
    cut = {f.name for f in m.funcs.values() if f.name.startswith(("cmi_logger_", "cmb_logger_"))} | {"cmi_assert_failed"}
    direct, eff = inv.global_effects(m, cut=cut)
    api = sampling_api(m)
    S = set()
    for f in api:
        S |= eff.get(f.key, {}).get("reads", set())
        S |= eff.get(f.key, {}).get("writes", set())
    return api, {g for g in S if g in m.globals}


def memo_coherence(rep, r6, m, api, S):
    """Parameter memos of the samplers are keyed exactly and updated as a whole (shared: R-C15-6, R-C19-5)."""
    nmemo = 0
    # the samplers and the helpers of the random module that keep static cells of their own (a memo moved into a helper)
    memo_funcs = {f_.key: f_ for f_ in api}
    for g_ in m.globals.values():
        if g_.local_to is not None and g_.local_to in m.funcs:
            hf = m.funcs[g_.local_to]
            if (m.rel(hf.file) or "").startswith(("src/cmb_random", "include/cmb_random")):
                memo_funcs.setdefault(hf.key, hf)
    for f in sorted(memo_funcs.values(), key=lambda f_: f_.name):
        fcx = FuncCtx(m, f)
        local_statics = {g.node["id"]: g.name for g in m.globals.values() if g.local_to == f.key and g.node is not None}

        def cell(n_):
            """name of the static-storage cell an lvalue / rvalue denotes: a static local of this function, or a member of
            a file-scope (thread-local) object of the random module; None otherwise"""
            n0 = strip(n_, casts=True)
            path = []
            while n0["kind"] == "MemberExpr" and not n0.get("isArrow") and kids(n0):
                path.append(n0.get("name") or "?")
                n0 = strip(kids(n0)[0], casts=True)
            if n0["kind"] != "DeclRefExpr":
                return None
            if n0["ref"].get("id") in local_statics and not path:
                return local_statics[n0["ref"]["id"]]
            gk = m.global_key(f.unit, f, n0["ref"])
            if gk is not None and gk in S and m.globals[gk].local_to is None and \
                    (path or (m.rel(m.globals[gk].file) or "").startswith(("src/cmb_random", "include/cmb_random"))):
                return ".".join([m.globals[gk].name] + list(reversed(path)))
            return None
        params = {p_["name"] for p_ in f.params}

        def is_param(n_):
            c_ = fcx.canon(n_)
            return c_ in params

        def cells_written(node):
            out = []
            for y in walk(node):
                if y["kind"] in ("BinaryOperator", "CompoundAssignOperator") and y.get("opcode", "").endswith("=") and \
                        y.get("opcode") not in ("==", "!=", "<=", ">="):
                    c_ = cell(kids(y)[0])
                    if c_:
                        out.append(c_)
            return out
        if not local_statics and not any(cell(kids(y)[0]) for y in walk(f.body)
                                         if y["kind"] in ("BinaryOperator", "CompoundAssignOperator") and y.get("opcode") == "="):
            continue
        for x in walk(f.body):
            if x["kind"] != "IfStmt":
                continue
            c0 = strip(kids(x)[0], casts=True)
            neg = False
            while c0["kind"] == "UnaryOperator" and c0.get("opcode") == "!":
                c0, neg = strip(kids(c0)[0], casts=True), not neg
            exact = c0["kind"] == "BinaryOperator" and ((c0.get("opcode") == "!=" and not neg) or (c0.get("opcode") == "==" and neg))
            miss_block = kids(x)[1]
            if not exact and c0["kind"] == "BinaryOperator" and len(kids(x)) > 2 and \
                    ((c0.get("opcode") == "==" and not neg) or (c0.get("opcode") == "!=" and neg)) and \
                    not any(y["kind"] in ("BinaryOperator", "CompoundAssignOperator", "CallExpr", "ReturnStmt") for y in walk(kids(x)[1])):
                # `if (param == key) { nothing } else { recompute }`: the miss branch is the else
                exact = True
                miss_block = kids(x)[2]
            key = par = None
            if exact:
                sides = kids(c0)
                keyc = [cell(z) for z in sides if cell(z)]
                parc = [z for z in sides if is_param(z)]
                if len(keyc) != 1 or len(parc) != 1:
                    exact = False
                else:
                    key = keyc[0]
            if not exact:
                # some other test that relates a parameter to one static cell and guards the recomputation of other cells:
                # a memo whose key test is not equality
                ks = {cell(y) for y in walk(c0) if y["kind"] in ("DeclRefExpr", "MemberExpr") and cell(y)}
                ps = [y for y in walk(c0) if y["kind"] == "DeclRefExpr" and is_param(y)]
                wr = set(cells_written(kids(x)[1]))
                if len(ks) == 1 and ps and wr - ks:
                    nmemo += 1
                    kname = next(iter(ks))
                    r6.instance("%s: memo keyed by %s with the key test %s" % (f.name, kname, render(kids(x)[0])[:80]))
                    rep.finding(r6, f.name, "memo:key-inexact", "%s reuses the values cached for the parameter stored in '%s' whenever "
                                "'%s' holds - a test that is not 'the parameter equals the key': a call with a parameter that "
                                "differs from the cached one (by one unit in the last place, say) is answered with the other "
                                "parameter's constants, so its result depends on what earlier calls on the thread used"
                                % (f.name, kname, render(kids(x)[0])[:100]), where=m.rel(loc(x)))
                    r6.fail()
                continue
            block = miss_block
            stmts = kids(block) if block["kind"] == "CompoundStmt" else [block]
            nmemo += 1
            values = sorted({c_ for c_ in cells_written(block) if c_ != key})
            key_at = [i for i, s_ in enumerate(stmts) if key in cells_written(s_)]
            r6.instance("%s: memo keyed by %s caching %s (key updated: %s)" % (f.name, key, values, bool(key_at)))
            rep.sample({"rule": "R-C15-6", "function": f.name, "key": key, "values": values})
            bad = None
            if key_at:
                # the key is given the parameter it is compared with (not a quantity derived from it: the next call with the
                # same parameter would miss, and one with that derived value would hit on the wrong constants)
                par_c = fcx.canon(parc[0])
                for y in walk(block):
                    if y["kind"] == "BinaryOperator" and y.get("opcode") == "=" and cell(kids(y)[0]) == key:
                        if fcx.canon(kids(y)[1]) != par_c:
                            bad = ("the key '%s' is compared with '%s' but stored as '%s': the memo is then looked up under one "
                                   "value and filed under another" % (key, par_c, fcx.canon(kids(y)[1])))
                # every value is written by a top-level statement of the block (not only under a nested condition) ...
                for v_ in values:
                    if not any(v_ in cells_written(s_) and s_["kind"] != "IfStmt" for s_ in stmts):
                        bad = "the cached value '%s' is not updated on every path that updates the key '%s'" % (v_, key)
                # ... and nothing leaves the function inside the block
                for s_ in stmts:
                    for y in walk(s_):
                        if y["kind"] in ("ReturnStmt", "GotoStmt"):
                            bad = ("the function can return at line %s from inside the block that updates the key '%s': the key "
                                   "then says 'cached for this parameter' while the cached values belong to another one" %
                                   (y.get("line"), key))
            if bad:
                rep.finding(r6, f.name, "memo:incoherent", "%s: %s" % (f.name, bad), where=m.rel(loc(x)))
                r6.fail()
            else:
                r6.ok()
    if nmemo == 0:
        raise AnalysisBroken("R-C15-6: no parameter memo found in the sampling functions")


def rules(rep, m):
    cut = {f.name for f in m.funcs.values() if f.name.startswith(("cmi_logger_", "cmb_logger_"))} | {"cmi_assert_failed"}
    direct, eff = inv.global_effects(m, cut=cut)
    init = m.need("cmb_random_initialize")
    gen_reach = m.reaches({"cmb_random_sfc64"})
    api = sampling_api(m)
    if len(api) < 20:
        raise AnalysisBroken("only %d sampling functions found" % len(api))
    S = set()
    for f in api:
        S |= eff.get(f.key, {}).get("reads", set())
        S |= eff.get(f.key, {}).get("writes", set())
    # only variables of the random module and of what it reaches
    S = {g for g in S if g in m.globals}
    written_by = {}
    for k, e in direct.items():
        for g in e["writes"]:
            written_by.setdefault(g, set()).add(k)
    init_writes = unconditional_writes(m, init)

    r1 = rep.rule("R-C15-1", "every static-storage variable the samplers read is either unconditionally (re)written by the "
                  "seeding function, or a parameter memo (all values stored are computed from the enclosing function's "
                  "parameters, other memos and constants only - never from generator output or its own previous value), "
                  "or never written", floor=8)
    r2 = rep.rule("R-C15-2", "every static-storage variable the samplers write is thread-local", floor=5)
    classes = {}
    for g in sorted(S):
        gv = m.globals[g]
        writers = written_by.get(g, set())
        if not writers:
            classes[g] = "never written"
            r1.instance("%s: never written" % g)
            r1.ok()
            continue
        if not gv.tls:
            r2.instance("%s: NOT thread-local" % g)
            rep.finding(r2, gv.local_to or g, "not-thread-local:" + gv.name, "sampler state '%s' is written (by %s) but is not "
                        "thread-local: results depend on what other threads draw" % (gv.name, sorted(writers)),
                        where="%s:%s" % (m.rel(gv.file), gv.line))
            r2.fail()
        else:
            r2.instance("%s: thread-local" % g)
            r2.ok()
        if g in init_writes:
            classes[g] = "reset by seeding"
            r1.instance("%s: reset by cmb_random_initialize" % g)
            r1.ok()
            continue
        # parameter memo?
        memo, why = common.parameter_memo(m, g, writers)
        if memo:
            classes[g] = "parameter memo"
            r1.instance("%s: parameter memo" % g)
            r1.ok()
        else:
            classes[g] = "stale state"
            r1.instance("%s: NOT reset (%s)" % (g, why))
            rep.finding(r1, gv.local_to or g, "state-not-reset:" + gv.name, "'%s' is read by the samplers, written at run "
                        "time (%s) and not reset by cmb_random_initialize: what was drawn before seeding leaks into the "
                        "values drawn after it" % (gv.name, why), where="%s:%s" % (m.rel(gv.file), gv.line))
            r1.fail()
    rep.sample({"rule": "R-C15-1", "classification": classes})

    # R-C15-3 ------------------------------------------------------------
    r3 = rep.rule("R-C15-3", "bootstrap shape: the seeding function passes its seed to splitmix_initialize first, assigns the "
                  "four state words each from one splitmix64() call, then discards exactly 20 generator outputs", floor=1)
    cx = FuncCtx(m, init)
    seed = init.params[0]["name"]
    # where the mixer keeps its state: the one non-local object that splitmix64 stores to (a global, or a member of one)
    MIX = "splitmix_state"
    mixf = m.funcs.get(m.resolve(init.unit, "splitmix64"))
    if mixf is None:
        raise AnalysisBroken("R-C15-3: no function named splitmix64 (the seed mixer) in the seeding unit")
    mxx = FuncCtx(m, mixf)
    tg = []
    for l_, r_, k_, n_ in inv.stores(mixf):
        l0 = strip(l_, casts=True)
        b0 = l0
        while b0["kind"] == "MemberExpr" and not b0.get("isArrow"):
            b0 = strip(kids(b0)[0], casts=True)
        if b0["kind"] == "DeclRefExpr" and any(g_.split("@")[0] == b0["ref"]["name"] for g_ in m.globals):
            tg.append(mxx.canon(l_))
    if len(set(tg)) == 1:
        MIX = tg[0]
    MIXG = MIX.split(".")[0].split("->")[0]
    # engine XS: abstract execution of the seeding routine - loops unrolled, local arrays and pointers followed, the mixer
    # modelled as "the k-th output since it was seeded with s"
    from ..engines import xs as XS
    def make_hook():
        st_mix = {"seeded": None, "k": 0, "sfc": [], "order": []}

        def hook(ip, nm, args, node):
            if nm == "splitmix_initialize":
                st_mix["seeded"] = args[0] if args else None
                st_mix["k"] = 0
                ip.globals[MIX] = st_mix["seeded"]
                return None
            if nm == "splitmix64":
                seeded = ip.globals.get(MIX, st_mix["seeded"])
                if st_mix["seeded"] is None and isinstance(seeded, str) and seeded.startswith("param:"):
                    st_mix["seeded"] = seeded
                st_mix["k"] += 1
                return ("SM", st_mix["seeded"], st_mix["k"])
            if nm == "cmb_random_sfc64":
                st_mix["sfc"].append({w: ip.globals.get("prng_state." + w) for w in "abcd"})
                return ("SFC", len(st_mix["sfc"]))
            return "call:%s" % nm
        hook.st_mix = st_mix
        return hook
    try:
        ips = XS.run_all(cx, init, make_hook)
    except XS.Undecided as e:
        # a loop whose test reads the generator's own state has no fixed number of rounds: the number of discarded outputs
        # then depends on the seed, which is a violation of the documented bootstrap, not an undecided shape
        state_loops = [lp for lp in walk(init.body) if lp["kind"] in ("WhileStmt", "ForStmt", "DoStmt") and
                       not (lp["kind"] == "DoStmt" and int_value(kids(lp)[1]) == 0) and
                       "prng_state" in cx.canon(kids(lp)[0] if lp["kind"] == "WhileStmt" else kids(lp)[1] if lp["kind"] == "DoStmt" else kids(lp)[2])]
        if state_loops:
            lp = state_loops[0]
            ctext = cx.canon(kids(lp)[0] if lp["kind"] == "WhileStmt" else kids(lp)[1] if lp["kind"] == "DoStmt" else kids(lp)[2])
            r3.instance("warm-up loop test: %s" % ctext)
            rep.finding(r3, init.name, "warmup:state-dependent", "the warm-up loop runs while '%s', a test on the generator's own "
                        "state words: the number of discarded outputs is not the documented constant for every seed (a "
                        "counter word close to 2^64 wraps, the test is false at once and nothing is discarded), so the stream "
                        "for such a seed is not the documented one" % ctext[:120], where=m.rel(loc(lp)))
            r3.fail()
            ips = []
        else:
            raise AnalysisBroken("R-C15-3: the seeding routine cannot be executed abstractly (%s)" % e)
    want_seed = "param:" + seed
    wantw = {w: ("SM", want_seed, i_ + 1) for i_, w in enumerate("abcd")}
    seen3 = set()
    for ip in ips:
        st_mix = ip.hook.st_mix
        path = "; ".join("%s is %s" % (c_, d_) for c_, d_ in ip.taken) or "the only path"
        # a direct store to the mixer state counts as seeding it
        for ef in ip.effects:
            if ef[0] == "store" and ef[1] == MIX and st_mix["seeded"] is None:
                st_mix["seeded"] = ef[2]
        first = st_mix["sfc"][0] if st_mix["sfc"] else {w: ip.globals.get("prng_state." + w) for w in "abcd"}
        r3.instance("[%s] state words at the first generator step: %s; mixer seeded with %s; %d outputs discarded" %
                    (path, {w: str(v) for w, v in first.items()}, st_mix["seeded"], len(st_mix["sfc"])))
        rep.sample({"rule": "R-C15-3", "path": path, "state": {w: str(v) for w, v in first.items()}, "seeded": str(st_mix["seeded"]),
                    "discarded": len(st_mix["sfc"])})
        ok = True
        if st_mix["seeded"] != want_seed:
            if "seed" not in seen3:
                rep.finding(r3, init.name, "bootstrap:splitmix-seed", "splitmix is not initialised exactly once with the caller's seed "
                            "(seeded with %s; path: %s)" % (st_mix["seeded"], path), where=m.rel(init.where))
            seen3.add("seed")
            ok = False
        if any(first.get(w) != wantw[w] for w in "abcd"):
            if "state" not in seen3:
                rep.finding(r3, init.name, "bootstrap:state", "the four state words a, b, c, d are not the first four outputs of the "
                            "mixer after it was seeded with the caller's seed, in that order (%s; path: %s)"
                            % ({w: str(v) for w, v in first.items()}, path), where=m.rel(init.where))
            seen3.add("state")
            ok = False
        if len(st_mix["sfc"]) != 20:
            if "warm" not in seen3:
                rep.finding(r3, init.name, "bootstrap:warmup", "the seeding function discards %d generator outputs after setting the "
                            "state (documented: 20; path: %s)" % (len(st_mix["sfc"]), path), where=m.rel(init.where))
            seen3.add("warm")
            ok = False
        (r3.ok if ok else r3.fail)(3)
    # splitmix_initialize (if it exists as a function) stores its argument; splitmix64 is the only other writer of its state
    smf = m.funcs.get(m.resolve(init.unit, "splitmix_initialize"))
    if smf is not None:
        smx = FuncCtx(m, smf)
        st = [(smx.canon(l), smx.canon(r)) for l, r, k, n in inv.stores(smf)]
        if st != [(MIX, smf.params[0]["name"])]:
            rep.finding(r3, smf.name, "bootstrap:splitmix-init", "splitmix_initialize stores %s" % st, where=m.rel(smf.where))
            r3.fail()
        else:
            r3.ok()
    else:
        r3.ok()
    # the seed is remembered for the seed query
    cs = m.need("cmb_random_curseed")
    csx = FuncCtx(m, cs)
    rv = [csx.canon(kids(x)[0]) for x in walk(cs.body) if x["kind"] == "ReturnStmt"]
    ist = {cx.canon(l): cx.canon(r) for l, r, k, n in inv.stores(init)}
    # the remembered seed: a global object (or a member of one) that the seeding routine sets to its argument
    def global_lvalue(t):
        return bool(re.fullmatch(r"[A-Za-z_]\w*(\.[A-Za-z_]\w*)*", t or "")) and any(g_.split("@")[0] == t.split(".")[0] for g_ in m.globals)
    if len(rv) != 1 or not global_lvalue(rv[0]) or rv[0] == MIX or ist.get(rv[0]) != seed:
        rep.finding(r3, cs.name, "seed-query", "the seed query does not return the seed given to the last initialise",
                    where=m.rel(cs.where))
        r3.fail()
    else:
        r3.ok()
    # who writes the generator state: only the generator step, the seeding function and terminate
    r4 = rep.rule("R-C15-4", "the 256-bit generator state is written only by the generator step, the seeding function and "
                  "terminate; every sampler obtains randomness only through the generator step", floor=3)
    for g in ("prng_state@cmb_random.c", "%s@cmb_random.c" % MIXG):
        if g not in m.globals:
            raise AnalysisBroken("generator state %s not found" % g)
        for fk in sorted(written_by.get(g, ())):
            nm = m.funcs[fk].name
            r4.instance("%s written by %s" % (g, nm))
            allowed = {"cmb_random_sfc64", "cmb_random_initialize", "cmb_random_terminate"} if g.startswith("prng") else \
                {"splitmix_initialize", "splitmix64", "cmb_random_terminate", "cmb_random_initialize"}
            if nm not in allowed:
                rep.finding(r4, nm, "state-writer:" + g.split("@")[0], "%s writes the generator state" % nm,
                            where=m.rel(m.funcs[fk].where))
                r4.fail()
            else:
                r4.ok()
        readers = [k for k, e in direct.items() if g in e["reads"] and g.startswith("prng")]
        for fk in readers:
            nm = m.funcs[fk].name
            if nm not in ("cmb_random_sfc64", "cmb_random_initialize", "cmb_random_terminate"):
                rep.finding(r4, nm, "state-reader", "%s reads the generator state directly, bypassing the generator step" % nm,
                            where=m.rel(m.funcs[fk].where))
                r4.fail()


    # R-C15-5 ------------------------------------------------------------
    r5 = rep.rule("R-C15-5", "the generator step and the bootstrap mixer compute the published functions: sfc64 (tmp = a + b + "
                  "counter++; a = b ^ (b >> 11); b = c + (c << 3); c = rotl(c, 24) + tmp; output tmp) and splitmix64 (state += "
                  "0x9e3779b97f4a7c15; z = (z ^ (z >> 30)) * 0xbf58476d1ce4e5b9; z = (z ^ (z >> 27)) * 0x94d049bb133111eb; "
                  "output z ^ (z >> 31)), compared as normal forms of symbolic 64-bit expressions (linear parts modulo 2^64, "
                  "commutative operators sorted, rotations recognised) - not as text", floor=2)
    from ..engines import sym64 as S64

    def field_state(prefix):
        def name(n):
            n = strip(n, casts=True)
            if n["kind"] == "MemberExpr" and not n.get("isArrow"):
                b = strip(kids(n)[0], casts=True)
                if b["kind"] == "DeclRefExpr" and b["ref"]["name"] == prefix:
                    return n["name"]
            if n["kind"] == "DeclRefExpr" and n["ref"]["name"] == prefix:
                return prefix
            return None
        return name

    A, B, C, D = (S64.atom(x) for x in "abcd")
    tmp = S64.add(S64.add(A, B), D)
    ref_sfc = {"a": S64.bitop("^", B, S64.shr(B, 11)), "b": S64.add(C, S64.shl(C, 3)),
               "c": S64.add(S64.atom(("rotl", C, 24)), tmp), "d": S64.add(D, S64.const(1)), "return": tmp}
    MIXK = MIX.split(".")[-1]
    Z0 = S64.add(S64.atom(MIXK), S64.const(0x9e3779b97f4a7c15))
    z1 = S64.mul(S64.bitop("^", Z0, S64.shr(Z0, 30)), S64.const(0xbf58476d1ce4e5b9))
    z2 = S64.mul(S64.bitop("^", z1, S64.shr(z1, 27)), S64.const(0x94d049bb133111eb))
    ref_mix = {MIXK: Z0, "return": S64.bitop("^", z2, S64.shr(z2, 31))}
    for fname, prefix, ref in (("cmb_random_sfc64", "prng_state", ref_sfc), ("splitmix64", MIXG, ref_mix)):
        f = m.need(fname)
        try:
            sv = S64.Sym(f, field_state(prefix)).run()
        except S64.Undecided as e:
            raise AnalysisBroken("R-C15-5: %s cannot be evaluated symbolically (%s)" % (fname, e))
        got = {k_: v_ for k_, v_ in sv.env.items() if not k_.startswith("local:")}
        got["return"] = sv.ret
        r5.instance("%s: %s" % (fname, {k_: S64.show(v_)[:90] for k_, v_ in sorted(got.items())}))
        rep.sample({"rule": "R-C15-5", "function": fname, "normal_forms": {k_: S64.show(v_)[:160] for k_, v_ in sorted(got.items())}})
        for k_ in sorted(ref):
            if got.get(k_) != ref[k_]:
                rep.finding(r5, fname, "generator:" + k_, "%s computes %s = %s; the published algorithm has %s" %
                            (fname, "its output" if k_ == "return" else k_, S64.show(got.get(k_) or ())[:200], S64.show(ref[k_])[:200]),
                            where=m.rel(f.where))
                r5.fail()
            else:
                r5.ok()
        extra = set(got) - set(ref)
        if extra:
            rep.finding(r5, fname, "generator:extra-state", "%s also writes %s" % (fname, sorted(extra)), where=m.rel(f.where))
            r5.fail()


    # R-C15-6 ------------------------------------------------------------
    r6 = rep.rule("R-C15-6", "parameter memos are coherent: where a sampler caches values derived from a parameter under a key "
                  "(static key compared with the parameter), the key is only updated together with every cached value - no "
                  "way out of the function lies between the update of the key and the updates of the values, and a path "
                  "that updates the key updates all of them - so what a call returns never depends on which parameters "
                  "earlier calls on the same thread used", floor=2)
    memo_coherence(rep, r6, m, api, S)


def run(tier="quick"):
    models = common.load_models(tier)
    rep = Report(PID, tier, models[0])
    rep.assumptions = ["libm functions are pure", "the arithmetic constants of sfc64/splitmix64 are not checked (values, not shape)"]
    rep.not_decided = ["that the arithmetic is sfc64/splitmix64 (constants and shifts)"]
    for m in models:
        rep.configs.append(m.config)
        common.run_rules(rep, m, rules)
    return rep.finish()
