"""C05 - A resource has at most one holder at any time (mutual exclusion)."""
import re

from ..astutil import kids, strip, walk, callee_ref, render, loc, is_null_expr
from ..frontend import AnalysisBroken
from ..report import Report
from ..vals import FuncCtx, assert_condition, is_assert_stmt
from ..engines import region
from .. import inv
from . import common, regionrules, listrules

PID = "C05"


def rules(rep, m):
    res = region.analyse(m)
    # R-C05-1 ------------------------------------------------------------
    r1 = rep.rule("R-C05-1", "every store of a non-NULL holder happens in a configuration where, in the same "
                  "atomic (yield-free) region, the holder is known NULL; checks made before a yield do not count",
                  floor=2)
    sites = {}
    for root, fn, lc, cur, where in res["installs"]:
        if re.search(r"_(initialize|terminate|create|destroy)$", root):
            continue
        sites.setdefault((root, fn, where), set()).add(cur)
    for (root, fn, where), curs in sorted(sites.items()):
        r1.instance("%s (via %s) at %s: slot state %s" % (root, fn, where, "/".join(sorted(curs))))
        rep.sample({"rule": "R-C05-1", "root": root, "store_in": fn, "where": where,
                    "holder_state_before": sorted(curs)})
        if curs == {"N"}:
            r1.ok()
        else:
            r1.fail()
    regionrules.file_findings(rep, r1, res, "R-C05-1")
    r1.notes.append(regionrules.roots_summary(res))

    # R-C05-2 ------------------------------------------------------------
    r2 = rep.rule("R-C05-2", "installing a holder pushes a holdable tag for this resource on the process; clearing "
                  "the holder removes that tag (or happens in the registered drop callback, whose caller pops it)",
                  floor=3)
    unit = "src/cmb_resource.c"
    funcs = [f for f in m.funcs.values() if m.rel(f.file) in (unit, "include/cmb_resource.h")]
    init = m.need("cmb_resource_initialize")
    icx = FuncCtx(m, init)
    drop_fn = None
    for lhs, rhs, kind, node in inv.stores(init):
        if icx.canon(lhs).endswith("core.drop"):
            d = strip(rhs, casts=True)
            if d["kind"] == "DeclRefExpr":
                drop_fn = d["ref"]["name"]
    if drop_fn is None:
        raise AnalysisBroken("cmb_resource_initialize does not assign core.drop")
    for f in funcs:
        cx = FuncCtx(m, f)
        for lhs, rhs, kind, node in inv.stores(f):
            l = strip(lhs, casts=True)
            if not (l["kind"] == "MemberExpr" and l.get("name") == "holder"
                    and inv.member_record(l) == "cmb_resource"):
                continue
            if f.name in ("cmb_resource_initialize",):
                continue
            obj = cx.canon(kids(l)[0])
            if is_null_expr(rhs):
                r2.instance("%s clears %s->holder" % (f.name, obj))
                if f.name == drop_fn:
                    r2.ok()
                    continue
                if f.name == "cmb_resource_terminate":
                    # reviewed: the object ends here; terminate force-clears the holder the way the drop callback does (on
                    # the pinned tree by calling it) - the holder's tag is the dying process's or the user's business
                    r2.ok()
                    continue
                rm = [c for c in walk(f.body) if c["kind"] == "CallExpr"
                      and callee_ref(c) == "cmi_process_remove_holdable"]
                good = False
                for c in rm:
                    a0, a1 = cx.canon(kids(c)[1]), cx.canon(kids(c)[2])
                    if common.same_object(m, a1, obj) and (a0 == obj + "->holder" or a0 == "cmb_process_current()"
                                                           or a0.endswith("->holder")):
                        good = True
                if not good:
                    rep.finding(r2, f.name, "clear-without-untag", "%s clears the holder without removing the "
                                "resource from the previous holder's list of held resources" % f.name,
                                where=m.rel(loc(node)))
                    r2.fail()
                else:
                    r2.ok()
            else:
                r2.instance("%s installs %s->holder = %s" % (f.name, obj, cx.canon(rhs)))
                who = cx.canon(rhs)
                pushes = [c for c in walk(f.body) if c["kind"] == "CallExpr" and callee_ref(c) == "cmi_slist_push"]
                good = False
                for c in pushes:
                    if cx.canon(kids(c)[1]) == "&%s->resources" % who:
                        tag = cx.canon(kids(c)[2])
                        mm = re.fullmatch(r"&(.+)->listhead", tag)
                        if mm:
                            # the tag's res field is set to this resource
                            for l2, r2_, k2, n2 in inv.stores(f):
                                if cx.canon(l2) == mm.group(1) + "->res" and (cx.canon(r2_) == obj or
                                                                               common.same_object(m, cx.canon(r2_), obj)):
                                    good = True
                if not good:
                    rep.finding(r2, f.name, "install-without-tag", "%s installs a holder without recording the "
                                "resource on the process's list of held resources" % f.name, where=m.rel(loc(node)))
                    r2.fail()
                else:
                    r2.ok()
    # the process-side record: removing a holdable unlinks exactly the matching tag
    listrules.check_list_removal(rep, r2, m, "cmi_process_remove_holdable")
    # R-C05-3 ------------------------------------------------------------
    r3 = rep.rule("R-C05-3", "the in-use / available / held-by queries are functions of the holder field only, and "
                  "the registered drop callback clears the holder", floor=4)
    for qn, want in (("cmb_resource_in_use", None), ("cmb_resource_available", None),
                     ("cmb_resource_held_by_process", None)):
        f = m.need(qn)
        # reads inside assertions (the cookie test through &rp->core instead of a cast) do not enter the answer
        in_assert = {id(y) for s_ in walk(f.body) if assert_condition(s_) is not None or is_assert_stmt(s_) for y in walk(s_)}
        fields = {x["name"] for x in walk(f.body) if x["kind"] == "MemberExpr" and inv.member_record(x) == "cmb_resource"
                  and id(x) not in in_assert}
        r3.instance("%s reads %s" % (qn, sorted(fields)))
        if fields != {"holder"}:
            rep.finding(r3, qn, "query-fields", "%s reads %s, not the holder field alone" % (qn, sorted(fields)),
                        where=m.rel(f.where))
            r3.fail()
        else:
            r3.ok()
    # truth tables of the queries: in_use = holder != NULL, available = holder == NULL
    from ..engines.flow import Flow, Domain
    for qn, when_null in (("cmb_resource_in_use", "0"), ("cmb_resource_available", "1")):
        f = m.need(qn)
        outs = {}

        class Q(region.ResourceDomain):
            def at_return(self, flow, s, node, value):
                outs.setdefault(s.d.get(("nul", f.params[0]["name"] + "->holder"), "U"), set()).add(value)
        dom = Q(m, "cmb_resource", region.CLASSES["cmb_resource"], f, set(), {},
                {"findings": [], "installs": [], "samples": [], "events": [], "region_ends": []})
        Flow(m, f, dom).run()
        # a comparison of the holder with NULL returned as a number is its truth value in both cases
        hn = re.escape(f.params[0]["name"] + "->holder")
        for v_ in list(outs.get("U", ())):
            if re.fullmatch(r"\(%s == (NULL|0)\)|!\(%s != (NULL|0)\)|\(!%s\)|!%s" % (hn, hn, hn, hn), v_ or ""):
                outs["U"].discard(v_)
                outs.setdefault("N", set()).add("1")
                outs.setdefault("NN", set()).add("0")
            elif re.fullmatch(r"\(%s != (NULL|0)\)|!\(%s == (NULL|0)\)" % (hn, hn), v_ or ""):
                outs["U"].discard(v_)
                outs.setdefault("N", set()).add("0")
                outs.setdefault("NN", set()).add("1")
        if "U" in outs and not outs["U"]:
            del outs["U"]
        r3.instance("%s: returns %s" % (qn, {k: sorted(v) for k, v in outs.items()}))
        other = "1" if when_null == "0" else "0"
        if outs.get("N") != {when_null} or outs.get("NN") != {other} or "U" in outs:
            rep.finding(r3, qn, "query-value", "%s returns %s; expected %s when free and %s when held"
                        % (qn, {k: sorted(v) for k, v in outs.items()}, when_null, other), where=m.rel(f.where))
            r3.fail()
        else:
            r3.ok()
    df = m.need(m.resolve(init.unit, drop_fn))
    dcx = FuncCtx(m, df)
    clears = [1 for lhs, rhs, kind, node in inv.stores(df)
              if strip(lhs, casts=True).get("name") == "holder" and is_null_expr(rhs)]
    r3.instance("drop callback %s clears holder: %s" % (drop_fn, bool(clears)))
    if not clears:
        rep.finding(r3, drop_fn, "drop-clears", "the drop callback does not clear the holder", where=m.rel(df.where))
        r3.fail()
    else:
        r3.ok()
    # every holdable class registers a non-NULL drop callback
    hw = inv.field_writers(m, "cmi_holdable", "drop")
    for f, lhs, rhs, kind, node in hw:
        if f.name.endswith("_initialize") and f.name != "cmi_holdable_initialize":
            r3.instance("%s registers drop = %s" % (f.name, render(rhs)))
            if is_null_expr(rhs):
                rep.finding(r3, f.name, "drop-null", "%s registers no drop callback: ending a holder would not "
                            "free the resource" % f.name, where=m.rel(loc(node)))
                r3.fail()
            else:
                r3.ok()

    # R-C05-4 ------------------------------------------------------------
    r4 = rep.rule("R-C05-4", "a holder that is evicted cannot act as holder any more: in the region that takes the resource from "
                  "another process (its holdable tag is removed while it is not the caller), every pending wake-up of that "
                  "process is withdrawn before the region ends, and a wake-up carrying the preempted signal is scheduled for "
                  "it - otherwise a wake-up of its own that is due in the same instant resumes it with success and it goes "
                  "on to release a resource that meanwhile belongs to the preemptor", floor=1)
    pre = m.need("cmb_resource_preempt")
    pcx = FuncCtx(m, pre)
    evict = [c for c in walk(pre.body) if c["kind"] == "CallExpr" and callee_ref(c) == "cmi_process_remove_holdable"]
    # the process that loses its holding tag when the holder slot is taken over is the process that held the resource
    takeover = [n_ for l_, r_, k_, n_ in inv.stores(pre) if pcx.canon(l_).endswith("->holder") and is_null_expr(r_)]
    if takeover:
        holder_txt = pcx.canon([l_ for l_, r_, k_, n_ in inv.stores(pre) if n_ is takeover[0]][0])
        r4.instance("%s: takes over at %s; tags removed from %s" % (pre.name, m.rel(loc(takeover[0])),
                                                                    [pcx.canon(kids(c)[1]) for c in evict]))
        if not any(pcx.canon(kids(c)[1]) == holder_txt for c in evict):
            rep.finding(r4, pre.name, "evict:wrong-process", "%s clears the holder but removes the holding tag from %s, not from the "
                        "process that held the resource (%s): the evicted process keeps a stale 'I hold this' tag, and when it "
                        "ends its drop callback frees the resource under the new holder"
                        % (pre.name, [pcx.canon(kids(c)[1]) for c in evict] or "nobody", holder_txt), where=m.rel(loc(takeover[0])))
            r4.fail()
        else:
            r4.ok()
    # the withdrawal the eviction relies on really withdraws everything addressed to the process
    from . import c09 as _c09
    okf, txt = _c09.final_cancel_ok(m)
    r4.instance("cmi_process_cancel_awaiteds ends with a wildcard cancel of the process's pending events %s: %s" % (txt, okf))
    if not okf:
        rep.finding(r4, "cmi_process_cancel_awaiteds", "evict:withdrawal-incomplete", "the routine that withdraws an evicted "
                    "holder's pending wake-ups does not cancel every event whose subject is that process %s: a wake-up that is "
                    "already scheduled (the process was waiting for something that happened in this instant) survives the "
                    "eviction, the victim resumes with success and releases the resource under the new holder" % txt,
                    where=m.rel(m.need("cmi_process_cancel_awaiteds").where))
        r4.fail()
    else:
        r4.ok()
    for c in evict:
        vic = pcx.canon(kids(c)[1])
        if vic == "cmb_process_current()":
            continue
        r4.instance("%s: evicts %s at %s" % (pre.name, vic, m.rel(loc(c))))
        wd = common.synchronous_withdrawals(m, pre, pcx, vic)
        cc = inv.dominating_conditions(pcx, pre, c)
        okw = any(all(cd in cc for cd in inv.dominating_conditions(pcx, pre, w_)) for w_ in wd)
        # notified: an event scheduled for the victim with the preempted signal, or an interrupt with it
        notes = []
        for y in walk(pre.body):
            if y["kind"] != "CallExpr":
                continue
            a_ = [pcx.canon(z) for z in kids(y)[1:]]
            if callee_ref(y) == "cmb_event_schedule" and len(a_) >= 3 and a_[1] == vic and common.sigval(a_[2]) == common.signal_table(m)["CMB_PROCESS_PREEMPTED"]:
                notes.append(y)
            if callee_ref(y) == "cmb_process_interrupt" and len(a_) >= 2 and a_[0] == vic and common.sigval(a_[1]) == common.signal_table(m)["CMB_PROCESS_PREEMPTED"]:
                notes.append(y)
        okn = any(all(cd in cc for cd in inv.dominating_conditions(pcx, pre, y)) for y in notes)
        if not okw:
            rep.finding(r4, pre.name, "evict:wakeups-left", "%s takes the resource from %s without withdrawing that process's pending "
                        "wake-ups in the same region: a hold of the victim that ends in this very instant resumes it with success "
                        "before the preempted signal arrives, and its release then frees the resource under the new holder"
                        % (pre.name, vic), where=m.rel(loc(c)))
            r4.fail()
        else:
            r4.ok()
        if not okn:
            rep.finding(r4, pre.name, "evict:not-notified", "%s takes the resource from %s without scheduling a wake-up with the "
                        "preempted signal for it" % (pre.name, vic), where=m.rel(loc(c)))
            r4.fail()
        else:
            r4.ok()

    # R-C05-5 ------------------------------------------------------------
    r5 = rep.rule("R-C05-5", "a waiter that is resumed with another code than success does not take the resource: in acquire "
                  "every path after the guard wait that can be taken with such a code returns that code (shared with "
                  "R-C04-10) - a swallowed preemption notice leaves its victim acting as the holder of what it lost", floor=1)
    from . import c04
    c04.wait_result_rule(rep, r5, m, only={"cmb_resource_acquire", "cmb_resource_preempt"})



def run(tier="quick"):
    models = common.load_models(tier)
    rep = Report(PID, tier, models[0])
    rep.assumptions = ["user callbacks (demand predicates, event actions) do not yield inside library regions and do "
                       "not modify library objects", "may-yield = reaches cmi_coroutine_transfer in the resolved call graph"]
    rep.not_decided = ["behaviour of the guard's queue itself (C06/C02)"]
    for m in models:
        rep.configs.append(m.config)
        common.run_rules(rep, m, rules)
    return rep.finish()
