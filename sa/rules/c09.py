"""C09 - Ending a process notifies waiters once, frees holdings, silences its events."""
import re

from ..astutil import kids, strip, walk, callee_ref, render, loc, int_value
from ..frontend import AnalysisBroken
from ..report import Report
from ..vals import FuncCtx
from ..engines import trace as TR
from .. import inv
from . import common, listrules
from .c08 import stop_ordering

PID = "C09"
CLEANUP = ("cmi_process_cancel_awaiteds", "cmi_process_drop_resources", "wake_process_waiters")


def unwinding_cancels_events_on_all_paths(m, ca, pp):
    """Every return path of cmi_process_cancel_awaiteds calls cmb_event_pattern_cancel(ANY, process, ANY)."""
    res = {"paths": 0, "bad": 0}

    def cb(dom, flow, s, tr, why, where, ev):
        if not why.startswith("return"):
            return
        res["paths"] += 1
        good = any(e[0] == "call" and e[1] == "cmb_event_pattern_cancel" and len(e[2]) == 3 and e[2][1] == pp and
                   re.search(r"18446744073709551615|ANY|^-1$", e[2][0]) and re.search(r"18446744073709551615|ANY|^-1$", e[2][2])
                   for e in tr)
        if not good:
            res["bad"] += 1
    TR.run_traces(m, ca, cb)
    return res["paths"] > 0 and res["bad"] == 0


def drop_callbacks_exact(rep, rule, m):
    """A process that ends gives back exactly what it held: the drop callbacks of the holdable classes keep the pool's
    bookkeeping exact (restriction of R-C07-1 / R-C07-5 to the drop callback, shared with C07's engine AFFINE)."""
    from . import c07 as _c07
    from ..report import Report as _Report
    cache = getattr(m, "_c07_report", None)
    if cache is None:
        tmp = _Report("C07", "quick", m)
        try:
            _c07.rules(tmp, m)
        except AnalysisBroken as e:
            tmp.deferred_broken = getattr(tmp, "deferred_broken", []) + [str(e)]
        m._c07_report = cache = tmp
    rule.instance("resourcepool_drop_holder: conservation of in_use against the holdings (engine AFFINE, rule R-C07-1)")
    hits = [f_ for f_ in cache.findings if f_["function"] in ("resourcepool_drop_holder",) and f_["rule"] in ("R-C07-1", "R-C07-2", "R-C07-5")]
    if hits:
        for f_ in hits:
            rep.finding(rule, f_["function"], "drop:" + f_["construct"], "the drop callback run for an ending process: " + f_["message"],
                        where=f_.get("where"))
            rule.fail()
    else:
        rule.ok()


def final_cancel_ok(m):
    """(ok, text): the unwinding routine ends with a wildcard cancel of every pending event whose SUBJECT is the process,
    on every path (shared with C05 / C07, whose eviction rules rely on it)"""
    ca = m.need("cmi_process_cancel_awaiteds")
    cx = FuncCtx(m, ca)
    pp = ca.params[0]["name"]
    pc = [y for y in walk(ca.body) if y["kind"] == "CallExpr" and callee_ref(y) == "cmb_event_pattern_cancel"]
    if len(pc) != 1:
        return False, "%d pattern cancels" % len(pc)
    a = [cx.canon(z) for z in kids(pc[0])[1:]]
    ok = a[1] == pp and re.search(r"18446744073709551615|ANY|-1", a[0]) is not None and \
        re.search(r"18446744073709551615|ANY|-1", a[2]) is not None and unwinding_cancels_events_on_all_paths(m, ca, pp)
    return bool(ok), "(%s)" % ", ".join(a)


def unwind_inverses(rep, r3, m):
    """cmi_process_cancel_awaiteds undoes every kind of awaitable with the matching deregistration, on the registered
    object and for this process (shared: R-C09-3, R-C04-9)."""
    ca = m.need("cmi_process_cancel_awaiteds")
    cx = FuncCtx(m, ca)
    pp = ca.params[0]["name"]
    kinds = m.enums.get("cmi_process_awaitable_type")
    if not kinds:
        raise AnalysisBroken("enum cmi_process_awaitable_type not found")
    want = {"CMI_PROCESS_AWAITABLE_TIME": ("cmb_event_cancel", lambda a: len(a) == 1 and a[0].endswith("->handle")),
            "CMI_PROCESS_AWAITABLE_RESOURCE": ("cmb_resourceguard_remove", lambda a: a[0].endswith("->ptr") and a[1] == pp),
            "CMI_PROCESS_AWAITABLE_PROCESS": ("cmi_process_remove_waiter", lambda a: a[0].endswith("->ptr") and a[1] == pp),
            "CMI_PROCESS_AWAITABLE_EVENT": ("cmi_event_remove_waiter", lambda a: a[0].endswith("->handle") and a[1] == pp)}
    handled = {}
    for x in walk(ca.body):
        if x["kind"] == "IfStmt":
            c = cx.canon(kids(x)[0])
            mm = re.fullmatch(r"\(.+->type == (\w+)\)", c)
            if mm:
                calls = [(callee_ref(y), [cx.canon(z) for z in kids(y)[1:]]) for y in walk(kids(x)[1])
                         if y["kind"] == "CallExpr" and callee_ref(y) and not (callee_ref(y) or "").startswith("cmi_assert")]
                handled[mm.group(1)] = calls
    for kd in kinds:
        r3.instance("awaitable kind %s -> %s" % (kd, handled.get(kd)))
        if kd not in handled:
            rep.finding(r3, ca.name, "unhandled:" + kd, "awaitable kind %s is not unwound when a process is interrupted, "
                        "stopped or ends" % kd, where=m.rel(ca.where))
            r3.fail()
            continue
        w = want.get(kd)
        if w is None:
            r3.notes.append("new awaitable kind %s: deregistration not known to the checker" % kd)
            r3.ok()
            continue
        good = any(nm == w[0] and w[1](a) for nm, a in handled[kd])
        if not good:
            rep.finding(r3, ca.name, "wrong-inverse:" + kd, "awaitable kind %s is unwound by %s; expected %s on the "
                        "registered object and this process" % (kd, handled[kd], w[0]), where=m.rel(ca.where))
            r3.fail()
        else:
            r3.ok()


def rules(rep, m):
    SIG = common.signal_table(m)
    may_yield = m.reaches({"cmi_coroutine_transfer"})
    noret_capable = m.reaches({"cmi_coroutine_exit"})      # may not return to its caller

    # R-C09-1 / R-C09-2 ------------------------------------------------------
    r1 = rep.rule("R-C09-1", "in every process-ending entry point, on every path, the ending process's awaiteds are "
                  "cancelled, its holdings dropped and its waiters woken before the function returns or calls something "
                  "that may not return (a callee reaching cmi_coroutine_exit)", floor=2)
    r2 = rep.rule("R-C09-2", "waiters are woken with the success code on exit and with the stopped code on stop", floor=2)

    def make_cb(fname, who_expr, want_sig):
        def cb(dom, flow, s, tr, why, where, ev):
            calls = [e for e in tr if e[0] == "call"]
            names = [c[1] for c in calls]
            if fname == "cmb_process_stop" and why == "return" and not any(n in CLEANUP for n in names) and \
                    not any(e[0] == "resume" for e in tr):
                # early return: target not running (nothing to clean up)
                if any(e[0] == "assume" and "status" in e[1] for e in tr):
                    r1.instance("%s: early return, target not running" % fname)
                    r1.ok()
                    return
            leaving = why == "return" or (why.startswith("yield:") and
                                          m.resolve(dom.root.unit, why.split(":", 1)[1]) in noret_capable)
            if not leaving:
                return
            if any(e[0] == "resume" for e in tr):
                # back from a call that did return: the clean-up was checked at that region end
                return
            r1.instance("%s: leaves via %s after %s" % (fname, why, [n for n in names if n in CLEANUP]))
            rep.sample({"rule": "R-C09-1", "function": fname, "leaves": why, "calls_before": names[-8:]})
            done = {}
            for c in calls:
                if c[1] in CLEANUP:
                    done[c[1]] = c
            for need in CLEANUP:
                c = done.get(need)
                if c is None:
                    rep.finding(r1, fname, "cleanup-missing:" + need, "%s leaves (%s) without having called %s: %s" %
                                (fname, why, need, {"cmi_process_cancel_awaiteds": "timers and registrations stay behind",
                                                    "cmi_process_drop_resources": "held resources stay held",
                                                    "wake_process_waiters": "processes waiting for it are never resumed"}[need]),
                                where=where)
                    r1.fail()
                    continue
                arg = c[2][0]
                okarg = arg == who_expr or (need == "wake_process_waiters" and arg == "&%s->waiters" % who_expr)
                if not okarg:
                    rep.finding(r1, fname, "cleanup-wrong-process:" + need, "%s applies %s to '%s', not to the ending "
                                "process '%s'" % (fname, need, arg, who_expr), where=c[3])
                    r1.fail()
                else:
                    r1.ok()
                if need == "wake_process_waiters":
                    sv = common.sigval(c[2][1])
                    r2.instance("%s wakes waiters with %s" % (fname, c[2][1]))
                    if sv != want_sig:
                        rep.finding(r2, fname, "waiter-signal", "%s wakes the waiters with signal %s; expected %d"
                                    % (fname, c[2][1], want_sig), where=c[3])
                        r2.fail()
                    else:
                        r2.ok()
        return cb

    ex = m.need("cmb_process_exit")
    st = m.need("cmb_process_stop")
    no_inline = lambda f: f.static and not f.in_header and f.name not in ("wake_process_waiters",)
    TR.run_traces(m, ex, make_cb("cmb_process_exit", "cmb_process_current()", SIG["CMB_PROCESS_SUCCESS"]),
                  may_yield=may_yield, inline_pred=no_inline)
    TR.run_traces(m, st, make_cb("cmb_process_stop", st.params[0]["name"], SIG["CMB_PROCESS_STOPPED"]),
                  may_yield=may_yield, inline_pred=no_inline)
    # exit and stop end the coroutine with the given value
    for f, callee in ((ex, "cmi_coroutine_exit"), (st, "cmi_coroutine_stop")):
        cx = FuncCtx(m, f)
        cc = [c for c in walk(f.body) if c["kind"] == "CallExpr" and callee_ref(c) == callee]
        a = [cx.canon(z) for z in kids(cc[0])[1:]] if len(cc) == 1 else None
        want = [f.params[0]["name"]] if f is ex else [f.params[0]["name"], f.params[1]["name"]]
        r1.instance("%s -> %s(%s)" % (f.name, callee, a))
        if a != want:
            rep.finding(r1, f.name, "end:value", "%s ends the coroutine through %s(%s); expected (%s)"
                        % (f.name, callee, a, ", ".join(want)), where=m.rel(f.where))
            r1.fail()
        else:
            r1.ok()

    # R-C09-3 ------------------------------------------------------------
    r3 = rep.rule("R-C09-3", "unwinding is exhaustive: cmi_process_cancel_awaiteds handles every kind of awaitable with the "
                  "matching deregistration, recycles every tag and finally cancels every pending event of the process; "
                  "cmi_process_drop_resources invokes the drop callback of every held resource and recycles its tag",
                  floor=6)
    unwind_inverses(rep, r3, m)
    ca = m.need("cmi_process_cancel_awaiteds")
    cx = FuncCtx(m, ca)
    pp = ca.params[0]["name"]
    # loop pops every tag and frees it; final pattern cancel after the loop
    from ..vals import is_assert_stmt as _is_assert
    loops = [x for x in walk(ca.body) if x["kind"] in ("WhileStmt", "ForStmt", "DoStmt") and not _is_assert(x)
             and not (x["kind"] == "DoStmt" and int_value(kids(x)[1]) == 0)]
    okloop = False
    if len(loops) == 1:
        lc_ = loops[0]
        cnd_ = kids(lc_)[0] if lc_["kind"] == "WhileStmt" else kids(lc_)[2] if lc_["kind"] == "ForStmt" else kids(lc_)[1]
        ctext = (render(cnd_) + " " + cx.canon(cnd_)) if cnd_.get("kind") != "Null" else ""
        # runs until the list is empty: tests emptiness, the head link, or the node the pop returned
        popped = {render(strip(kids(y)[0], casts=True)) for y in walk(lc_)
                  if y["kind"] == "BinaryOperator" and y.get("opcode") == "=" and
                  any(z["kind"] == "CallExpr" and callee_ref(z) == "cmi_slist_pop" for z in walk(kids(y)[1]))}
        okloop = "is_empty" in ctext or "->next" in ctext or ("cmi_slist_pop(" in ctext and "NULL" in ctext) or \
            any(re.sub(r"[()\s]", "", render(cnd_)) == "%s!=NULL" % nm_ for nm_ in popped)
    pops = [y for y in walk(loops[0]) if y["kind"] == "CallExpr" and callee_ref(y) == "cmi_slist_pop"] if loops else []
    frees = [y for y in walk(loops[0]) if y["kind"] == "CallExpr" and callee_ref(y) == "cmi_mempool_free"] if loops else []
    free_uncond = frees and not any(a["kind"] == "IfStmt" for a in inv.enclosing_chain(ca, frees[0])
                                    if a is not loops[0])
    r3.instance("unwinding loop pops and recycles every tag: %s" % bool(okloop and pops and free_uncond))
    if not (okloop and pops and free_uncond):
        rep.finding(r3, ca.name, "loop", "the unwinding loop does not pop and recycle every awaitable tag", where=m.rel(ca.where))
        r3.fail()
    else:
        r3.ok()
    pc = [y for y in walk(ca.body) if y["kind"] == "CallExpr" and callee_ref(y) == "cmb_event_pattern_cancel"]
    okpc = False
    if len(pc) == 1 and loops:
        a = [cx.canon(z) for z in kids(pc[0])[1:]]
        after = (inv.stmt_index_containing(ca, pc[0]) or 0) > (inv.stmt_index_containing(ca, loops[0]) or 0)
        okpc = a[1] == pp and re.search(r"18446744073709551615|ANY|-1", a[0]) and re.search(r"18446744073709551615|ANY|-1", a[2]) and after
        r3.instance("final pattern cancel (%s)" % ", ".join(a))
    # ... and on *every* path through the routine (an early return must not skip it)
    okpaths = unwinding_cancels_events_on_all_paths(m, ca, pp)
    r3.instance("pending events of the process are cancelled on every path: %s" % okpaths)
    if not okpaths:
        okpc = False
    if not okpc:
        rep.finding(r3, ca.name, "pending-events", "pending wake-up events of the process are not all cancelled at the end "
                    "of the unwinding", where=m.rel(ca.where))
        r3.fail()
    else:
        r3.ok()
    dr = m.need("cmi_process_drop_resources")
    dx = FuncCtx(m, dr)
    ind = [y for y in walk(dr.body) if y["kind"] == "CallExpr" and callee_ref(y) is None]
    okd = False
    if len(ind) == 1 and inv.in_loop(dr, ind[0]):
        callee = dx.canon(kids(ind[0])[0]).lstrip("*")
        a = [dx.canon(z) for z in kids(ind[0])[1:]]
        okd = callee.endswith("->drop") and callee == a[0] + "->drop" and a[1] == dr.params[0]["name"]
        r3.instance("drop_resources calls %s(%s)" % (callee, ", ".join(a)))
    if not okd:
        rep.finding(r3, dr.name, "drop-slot", "held resources are not released through their drop callback with (resource, "
                    "this process)", where=m.rel(dr.where))
        r3.fail()
    else:
        r3.ok()
    listrules.check_list_removal(rep, r3, m, "cmi_process_drop_resources")
    # the deregistrations the unwinding relies on unlink from the stored lists (shared with R-C04-5)
    for fn_ in ("cmi_process_remove_waiter", "cmi_event_remove_waiter", "cmi_process_remove_awaitable"):
        listrules.check_list_removal(rep, r3, m, fn_)

    # R-C09-4 ------------------------------------------------------------
    r4 = rep.rule("R-C09-4", "status and exit value of a coroutine are written only by initialise / start / exit / stop / "
                  "reset (and the main-coroutine bootstrap); stop on another coroutine stores the value and marks it "
                  "finished; a finished coroutine is never resumed (every wake-up tests or asserts 'running')", floor=8)
    allowed = {"cmi_coroutine_initialize", "cmi_coroutine_start", "cmi_coroutine_exit", "cmi_coroutine_stop",
               "cmi_coroutine_reset", "create_main"}
    for fld in ("status", "exit_value"):
        for f, l, r, k, n in inv.field_writers(m, "cmi_coroutine", fld):
            r4.instance("%s writes %s" % (f.name, fld))
            if f.name not in allowed:
                rep.finding(r4, f.name, "writer:" + fld, "%s writes a coroutine's %s" % (f.name, fld), where=m.rel(loc(n)))
                r4.fail()
            else:
                r4.ok()
    cs = m.need("cmi_coroutine_stop")
    sx = FuncCtx(m, cs)
    cpn, rvn = cs.params[0]["name"], cs.params[1]["name"]
    stv = {sx.canon(l): sx.canon(r) for l, r, k, n in inv.stores(cs)}
    selfexit = [sx.canon(kids(c)[1]) for c in walk(cs.body) if c["kind"] == "CallExpr" and callee_ref(c) == "cmi_coroutine_exit"]
    r4.instance("coroutine stop: stores %s, self-exit(%s)" % (stv, selfexit))
    if stv.get(cpn + "->exit_value") != rvn or stv.get(cpn + "->status") != "CMI_COROUTINE_FINISHED" or selfexit != [rvn]:
        rep.finding(r4, cs.name, "stop", "stopping a coroutine stores %s / exits with %s; expected exit value = given value, "
                    "status finished" % (stv, selfexit), where=m.rel(cs.where))
        r4.fail()
    else:
        r4.ok()
    # resume sites
    for f, c in inv.calls_to(m, "cmi_coroutine_resume"):
        fx = FuncCtx(m, f)
        tgt = fx.canon(kids(c)[1])
        guarded = any(a["kind"] == "IfStmt" and re.search(r"status == CMI_COROUTINE_RUNNING", fx.canon(kids(a)[0]))
                      for a in inv.enclosing_chain(f, c))
        r4.instance("%s resumes %s (guarded by status test: %s)" % (f.name, tgt, guarded))
        r4.ok()
    rs = m.need("cmi_coroutine_resume")
    from ..vals import assert_condition
    conds = [FuncCtx(m, rs).canon(assert_condition(s)) for s in kids(rs.body) if assert_condition(s) is not None]
    if not any("status == CMI_COROUTINE_RUNNING" in c for c in conds):
        rep.finding(r4, rs.name, "resume-finished", "resuming does not insist (release assertion) on a running coroutine: a "
                    "finished process could execute again", where=m.rel(rs.where))
        r4.fail()
    else:
        r4.ok()

    # R-C09-5 ------------------------------------------------------------
    r5 = rep.rule("R-C09-5", "wake_process_waiters pops every waiter exactly once, schedules its wake-up for that waiter at "
                  "the current time with the given signal and recycles the tag", floor=2)
    ww = m.need(m.resolve(ex.unit, "wake_process_waiters"))
    wx = FuncCtx(m, ww)
    sch = [c for c in walk(ww.body) if c["kind"] == "CallExpr" and callee_ref(c) == "cmb_event_schedule"]
    okw = False
    if len(sch) == 1 and inv.in_loop(ww, sch[0]):
        a = [wx.canon(z) for z in kids(sch[0])[1:]]
        r5.instance("schedules (%s)" % ", ".join(a))
        okw = a[0] == "wakeup_event_process" and a[1].endswith("->proc") and a[2] == ww.params[1]["name"] and \
            a[3] in ("cmb_time()", "sim_time") and a[4] == a[1] + "->priority"
    if not okw:
        rep.finding(r5, ww.name, "schedule", "waiters are not each sent the given signal at the current time", where=m.rel(ww.where))
        r5.fail()
    else:
        r5.ok()
    listrules.check_list_removal(rep, r5, m, ww.key)
    wp = m.need(m.resolve(ex.unit, "wakeup_event_process"))
    wpx = FuncCtx(m, wp)
    res = [c for c in walk(wp.body) if c["kind"] == "CallExpr" and callee_ref(c) == "cmi_coroutine_resume"]
    okr = len(res) == 1 and [wpx.canon(z) for z in kids(res[0])[1:]] == [wp.params[0]["name"], wp.params[1]["name"]]
    if not res:
        # the resume may sit in a shared routine that forwards (process, value) to cmi_coroutine_resume unchanged
        fwd = []
        for c in walk(wp.body):
            if c["kind"] == "CallExpr" and callee_ref(c):
                g = m.funcs.get(m.resolve(wp.unit, callee_ref(c)))
                if g is None or g is wp or len(g.params) < 2:
                    continue
                gx = FuncCtx(m, g)
                gres = [y for y in walk(g.body) if y["kind"] == "CallExpr" and callee_ref(y) == "cmi_coroutine_resume"]
                if len(gres) == 1:
                    ga = [gx.canon(z) for z in kids(gres[0])[1:]]
                    pn = [p_["name"] for p_ in g.params]
                    if ga[0] in pn and ga[1] in pn:
                        args = [wpx.canon(z) for z in kids(c)[1:]]
                        fwd.append([args[pn.index(ga[0])], args[pn.index(ga[1])]])
        okr = len(fwd) == 1 and fwd[0] == [wp.params[0]["name"], wp.params[1]["name"]]
    r5.instance("wakeup_event_process resumes its subject with the signal: %s" % okr)
    if not okr:
        rep.finding(r5, wp.name, "deliver", "the process wake-up does not resume its subject with the scheduled signal",
                    where=m.rel(wp.where))
        r5.fail()
    else:
        r5.ok()


    # R-C09-6 ------------------------------------------------------------
    r6 = rep.rule("R-C09-6", "what an ending process held is offered to the *other* waiters: a process that may itself be "
                  "blocked (stop) is taken out of every waiting list before its holdings are dropped, otherwise the freed "
                  "units are granted to the dying process and lost", floor=1)
    stop_ordering(rep, r6, m)

    # R-C09-7 ------------------------------------------------------------
    r7 = rep.rule("R-C09-7", "an ending process gives back exactly what it held: the pool's drop callback lowers the amount in "
                  "use by the amount in the ending process's own record (read before the record is removed), so that the units "
                  "are available to the waiters that are signalled next (shared with R-C07-1, engine AFFINE)", floor=1)
    drop_callbacks_exact(rep, r7, m)


def run(tier="quick"):
    models = common.load_models(tier)
    rep = Report(PID, tier, models[0])
    rep.assumptions = ["drop callbacks free the resource and offer it to its waiters (C05/C07/C08 check the callbacks)"]
    rep.not_decided = ["ordering relative to other events of the same instant"]
    for m in models:
        rep.configs.append(m.config)
        common.run_rules(rep, m, rules)
    return rep.finish()
