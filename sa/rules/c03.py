"""C03 - Context switches preserve each process's execution state and deliver messages."""
import re

from ..astutil import kids, strip, walk, callee_ref, render, loc, int_value, is_null_expr
from ..frontend import AnalysisBroken
from ..report import Report
from ..vals import FuncCtx, is_assert_stmt
from ..engines import asm as ASM
from .. import inv
from . import common

PID = "C03"
ASM_UNIT = "cmi_coroutine_context.asm"


def c_frame_image(m, f):
    """Interpret cmi_coroutine_context_init as a sequence of byte stores relative to the aligned stack base.
    Locals are tracked by value: pointers as offsets from the base (the first `unsigned char *` local that is given a
    value), scalars as integers / canonical strings, conditionally assigned scalars as variants.
    Returns (bytes: offset -> {variant: (value, byte index, size)}, sp_offset, base expression, stores)."""
    cx = FuncCtx(m, f)
    env = {}
    state = {"base": None, "sp_off": None, "started": False}
    bytemap = {}
    stores = []

    def ev(n):
        """('ptr', off) | ('val', int or str) | ('var', {variant: int or str})"""
        n0 = n
        n = strip(n, casts=True)
        k = n["kind"]
        if k == "IntegerLiteral":
            return ("val", int(n["value"]))
        if k == "DeclRefExpr" and n["ref"]["id"] in env:
            return env[n["ref"]["id"]]
        if k == "BinaryOperator" and n.get("opcode") in ("+", "-", "<<", "|", "*"):
            a_, b_ = ev(kids(n)[0]), ev(kids(n)[1])
            op = n["opcode"]
            if a_[0] == "ptr" and b_[0] == "val" and isinstance(b_[1], int) and op in ("+", "-"):
                return ("ptr", a_[1] + (b_[1] if op == "+" else -b_[1]))
            if a_[0] == "val" and b_[0] == "val" and isinstance(a_[1], int) and isinstance(b_[1], int):
                return ("val", {"+": a_[1] + b_[1], "-": a_[1] - b_[1], "<<": a_[1] << b_[1], "|": a_[1] | b_[1], "*": a_[1] * b_[1]}[op])
            if a_[0] == "ptr":
                raise AnalysisBroken("context_init: stack pointer moved by a non-constant")
        v = int_value(n)
        if v is not None:
            return ("val", v)
        return ("val", cx.canon(n0))

    def put(off, size, val, variant, where):
        stores.append((off, size, val, variant, where))
        for i in range(size):
            bytemap.setdefault(off + i, {})[variant] = (val, i, size)
            if variant is None:
                bytemap[off + i] = {None: (val, i, size)}

    def do_store(lhs, rhs, variant=None):
        l = strip(lhs, casts=True)
        if not (l["kind"] == "UnaryOperator" and l.get("opcode") == "*"):
            return False
        ptr = kids(l)[0]
        cast = ptr
        while cast["kind"] in ("ParenExpr", "ImplicitCastExpr"):
            cast = kids(cast)[0]
        if cast["kind"] != "CStyleCastExpr":
            return False
        t = cast.get("type") or ""
        size = {"uint64_t *": 8, "uint32_t *": 4, "uint16_t *": 2, "uint8_t *": 1}.get(t)
        pv = ev(kids(cast)[0])
        if pv[0] != "ptr":
            return False
        if size is None:
            raise AnalysisBroken("context_init: store through unsupported pointer type %s" % t)
        rv = ev(rhs)
        if rv[0] == "var":
            for vk, vv in rv[1].items():
                put(pv[1], size, vv, vk, loc(lhs))
        elif rv[0] == "val":
            put(pv[1], size, rv[1], variant, loc(lhs))
        else:
            put(pv[1], size, "frame%+d" % rv[1], variant, loc(lhs))
        return True

    def simple(s, variant=None):
        """one statement without control flow; returns False if it is not understood as frame construction"""
        k = s["kind"]
        if k == "DeclStmt":
            for d in kids(s):
                if d["kind"] != "VarDecl":
                    continue
                if not state["started"]:
                    if "unsigned char *" in (d.get("type") or "") and kids(d):
                        state["started"] = True
                        state["base"] = cx.canon(kids(d)[0])
                        env[d["id"]] = ("ptr", 0)
                    continue
                env[d["id"]] = ev(kids(d)[0]) if kids(d) else ("val", "?")
            return True
        if not state["started"]:
            return True
        if k == "CompoundAssignOperator" and s.get("opcode") in ("+=", "-="):
            l = strip(kids(s)[0], casts=True)
            if l["kind"] == "DeclRefExpr" and l["ref"]["id"] in env and env[l["ref"]["id"]][0] == "ptr":
                n_ = ev(kids(s)[1])
                if n_[0] != "val" or not isinstance(n_[1], int):
                    raise AnalysisBroken("context_init: stack pointer moved by a non-constant")
                env[l["ref"]["id"]] = ("ptr", env[l["ref"]["id"]][1] + (n_[1] if s["opcode"] == "+=" else -n_[1]))
                return True
            return True
        if k == "BinaryOperator" and s.get("opcode") == "=":
            if do_store(kids(s)[0], kids(s)[1], variant):
                return True
            l = strip(kids(s)[0], casts=True)
            if l["kind"] == "DeclRefExpr":
                env[l["ref"]["id"]] = ev(kids(s)[1])
                return True
            lc = cx.canon(kids(s)[0])
            if lc.endswith("->stack_pointer"):
                r = ev(kids(s)[1])
                if r[0] == "ptr":
                    state["sp_off"] = r[1]
            return True
        return True

    for s in kids(f.body):
        k = s["kind"]
        if k == "IfStmt" and state["started"]:
            cond = cx.canon(kids(s)[0])
            before = dict(env)
            results = []
            for bi, br in enumerate(kids(s)[1:3]):
                env.clear()
                env.update(before)
                for x in kids(br) if br["kind"] == "CompoundStmt" else [br]:
                    simple(x, variant=(cond, bi == 0))
                results.append(dict(env))
            if len(results) == 1:
                results.append(dict(before))
            env.clear()
            env.update(before)
            for vid in set(results[0]) | set(results[1]):
                a_, b_ = results[0].get(vid), results[1].get(vid)
                if a_ == b_:
                    env[vid] = a_
                elif a_ is not None and b_ is not None and a_[0] == "val" and b_[0] == "val":
                    env[vid] = ("var", {(cond, True): a_[1], (cond, False): b_[1]})
                else:
                    raise AnalysisBroken("context_init: a frame pointer is moved conditionally")
            continue
        if is_assert_stmt(s) or k in ("WhileStmt", "IfStmt"):
            continue
        simple(s)
    if not state["started"] or state["sp_off"] is None:
        raise AnalysisBroken("context_init: cannot find the frame construction (stack cursor / stack_pointer store)")
    return bytemap, state["sp_off"], state["base"], stores


def slot_value(bytemap, off, size):
    """Value of `size` bytes at `off`: an int when all bytes come from integer stores, else the single
    symbolic value when it is one aligned store, else None.  Variants (if/else) are returned as a dict."""
    variants = set()
    for i in range(size):
        b = bytemap.get(off + i)
        if b is None:
            return None
        variants |= set(b.keys())
    out = {}
    for var in variants:
        acc = 0
        sym = None
        ok = True
        for i in range(size):
            b = bytemap[off + i]
            e = b.get(var, b.get(None))
            if e is None:
                ok = False
                break
            val, idx, sz = e
            if isinstance(val, int):
                acc |= ((val >> (8 * idx)) & 0xFF) << (8 * i)
            else:
                if idx != i or sz != size:
                    ok = False
                    break
                sym = val
        if not ok:
            return None
        out[var] = sym if sym is not None else acc
    if set(out.keys()) == {None}:
        return out[None]
    return out


def rules(rep, m):
    asm = None
    for a, info in m.asm.items():
        if a.endswith(ASM_UNIT):
            asm = info
    if asm is None:
        raise AnalysisBroken("assembly unit %s not in the build" % ASM_UNIT)
    fns = ASM.parse_disasm(asm["disasm"])
    for need in ("cmi_coroutine_context_switch", "cmi_coroutine_trampoline"):
        if need not in fns:
            raise AnalysisBroken("symbol %s missing from the assembled object" % need)
    sw = ASM.Switch(fns["cmi_coroutine_context_switch"]).run()
    r1 = rep.rule("R-C03-1", "save/restore symmetry: after the stack switch every pop / ldmxcsr / popf reads the frame slot "
                  "that the matching push / stmxcsr / pushf wrote for the same register, the saved frame is not modified "
                  "between save and switch, and the net stack effect is zero", floor=7)
    for k, v in sw.layout:
        r1.instance("frame +%d: %s" % (k, ASM._show(v)))
    rep.sample({"rule": "R-C03-1", "frame_layout": [[k, ASM._show(v)] for k, v in sw.layout],
                "instructions": [raw.split("\t")[-1] for a, mn, ops, raw in fns["cmi_coroutine_context_switch"]]})
    r2 = rep.rule("R-C03-2", "ABI coverage: all SysV callee-saved registers (rbx, rbp, r12-r15), MXCSR and the flags register are "
                  "saved, none is written before its save or after its restore", floor=7)
    r3 = rep.rule("R-C03-3", "message: rax receives the third argument (rdx) after the restore, and rdx is not written "
                  "before that", floor=1)
    for r in ASM.CALLEE_SAVED + ("mxcsr",):
        r2.instance(r)
    r3.instance("rax <- rdx")
    n1 = n2 = n3 = 0
    for key, msg in sw.findings:
        if key.startswith(("restore:mismatch", "restore:missing", "restore:stack", "save:altered", "save:rdi", "switch:")):
            rep.finding(r1, "cmi_coroutine_context_switch", key, msg, where="src/port/x86-64/linux/" + ASM_UNIT)
            n1 += 1
        elif key.startswith(("abi:", "save:clobbered", "restore:clobbered")):
            rep.finding(r2, "cmi_coroutine_context_switch", key, msg, where="src/port/x86-64/linux/" + ASM_UNIT)
            n2 += 1
        else:
            rep.finding(r3, "cmi_coroutine_context_switch", key, msg, where="src/port/x86-64/linux/" + ASM_UNIT)
            n3 += 1
    # the flags register is part of what the switch carries over (the frame the property's mechanism names): a process that
    # set a persistent flag (direction, alignment check) gets it back, and it does not leak into whoever runs next
    saved_names = {ASM._show(v) for k, v in sw.layout}
    if "rflags" not in saved_names:
        rep.finding(r2, "cmi_coroutine_context_switch", "abi:not-saved:rflags", "the flags register is neither saved on the outgoing "
                    "stack nor restored from the incoming one: persistent flags a process sets (DF, AC, ...) leak into the "
                    "dispatcher and every process resumed afterwards, and the process loses them", where="src/port/x86-64/linux/" + ASM_UNIT)
        n2 += 1
    r1.obligations += len(sw.layout) + 2
    r1.discharged += max(0, len(sw.layout) + 2 - n1)
    r2.obligations += 7
    r2.discharged += max(0, 7 - n2)
    r3.obligations += 1
    r3.discharged += 1 if n3 == 0 else 0

    # R-C03-5 trampoline ---------------------------------------------------
    tr = ASM.Trampoline(fns["cmi_coroutine_trampoline"]).run()
    r5 = rep.rule("R-C03-5", "trampoline: calls the function in r12 with (r13, r14) as arguments on a 16-byte aligned "
                  "stack, then jumps to r15 with the returned value as argument and rsp = 8 (mod 16)", floor=1)
    r5.instance("call %s(%s, %s) at rsp%%16=%s; jmp %s(%s) at rsp%%16=%s"
                % (tr.called, tr.args_at_call and tr.args_at_call[0], tr.args_at_call and tr.args_at_call[1],
                   tr.call_align, tr.jumped, getattr(tr, "arg_at_jmp", None), tr.jmp_align))
    rep.sample({"rule": "R-C03-5", "call": tr.called, "args": tr.args_at_call, "jmp": tr.jumped})
    checks = [(tr.called == "r12", "call:target", "the coroutine function is not called through r12 (%s)" % tr.called),
              (tr.args_at_call == ("r13", "r14"), "call:args", "the coroutine function receives (%s), not (r13, r14)" % (tr.args_at_call,)),
              (tr.call_align == 0, "call:align", "the stack is not 16-byte aligned at the call (rsp %% 16 = %s)" % tr.call_align),
              (tr.jumped == "r15", "exit:target", "the exit function is not reached through r15 (%s)" % tr.jumped),
              (getattr(tr, "arg_at_jmp", None) == "retval", "exit:arg", "the exit function does not receive the coroutine "
               "function's return value (rdi = %s)" % getattr(tr, "arg_at_jmp", None)),
              (tr.jmp_align == 8, "exit:align", "the exit function is entered with rsp %% 16 = %s, not 8" % tr.jmp_align)]
    for okk, key, msg in checks:
        if okk:
            r5.ok()
        else:
            rep.finding(r5, "cmi_coroutine_trampoline", key, msg, where="src/port/x86-64/linux/" + ASM_UNIT)
            r5.fail()

    # R-C03-4 / R-C03-7 initial frame -----------------------------------------
    ci = m.need("cmi_coroutine_context_init")
    bytemap, sp_off, base, stores = c_frame_image(m, ci)
    r4 = rep.rule("R-C03-4", "the initial frame written in C has exactly the layout the assembly restores: each restored "
                  "register's slot holds the value its role requires (r12 function, r13 coroutine, r14 context, r15 exit "
                  "function with the default, return address = trampoline), the stack pointer is set to the lowest slot "
                  "and the base is 16-byte aligned", floor=8)
    r7 = rep.rule("R-C03-7", "the MXCSR image in the initial frame is loadable (no reserved bit set) and the flags image is "
                  "a constant; byte-accurate, because the 8-byte MXCSR store overlaps the flags slot", floor=2)
    frame_bytes = sw.frame_size + 8
    r4.instance("frame size: asm %d bytes, C %d bytes" % (frame_bytes, -sp_off))
    if -sp_off != frame_bytes:
        rep.finding(r4, ci.name, "frame:size", "the C frame is %d bytes below the base but the assembly consumes %d bytes"
                    % (-sp_off, frame_bytes), where=m.rel(ci.where))
        r4.fail()
    else:
        r4.ok()
    cp = ci.params[0]["name"]
    role = {"r12": [cp + "->cr_function"], "r13": [cp], "r14": [cp + "->context"]}
    image = {}
    for k, v in sw.layout:
        if v == "mxcsr":
            val = slot_value(bytemap, sp_off + k, 4)
            image["mxcsr"] = val
            r7.instance("MXCSR image = %s" % (hex(val) if isinstance(val, int) else val))
            if not isinstance(val, int):
                rep.finding(r7, ci.name, "mxcsr:not-constant", "the MXCSR image is not a constant (%s)" % (val,), where=m.rel(ci.where))
                r7.fail()
            elif val & 0xFFFF0000:
                rep.finding(r7, ci.name, "mxcsr:reserved", "the MXCSR image %#x has reserved bits set: ldmxcsr faults on the "
                            "first switch into a new coroutine" % val, where=m.rel(ci.where))
                r7.fail()
            else:
                r7.ok()
            continue
        if v == "rflags":
            val = slot_value(bytemap, sp_off + k, 8)
            image["rflags"] = val
            r7.instance("flags image = %s" % (hex(val) if isinstance(val, int) else val))
            if not isinstance(val, int) or (val & ~0x0ED7) != 0 and val != 0x2:
                rep.finding(r7, ci.name, "flags:image", "the flags image is %s (direction/trap/interrupt or reserved bits "
                            "set, or not a constant)" % (val,), where=m.rel(ci.where))
                r7.fail()
            else:
                r7.ok()
            continue
        if isinstance(v, tuple) and v[0] == "reg":
            val = slot_value(bytemap, sp_off + k, 8)
            image[v[1]] = val
            r4.instance("%s <- %s" % (v[1], val))
            if val is None:
                rep.finding(r4, ci.name, "slot:%s" % v[1], "the slot restored into %s (frame +%d) is not written by one "
                            "8-byte store" % (v[1], k), where=m.rel(ci.where))
                r4.fail()
                continue
            if v[1] in role:
                if val not in role[v[1]]:
                    rep.finding(r4, ci.name, "slot:%s" % v[1], "%s is preloaded with '%s'; the trampoline needs %s there"
                                % (v[1], val, role[v[1]][0]), where=m.rel(ci.where))
                    r4.fail()
                else:
                    r4.ok()
            elif v[1] == "r15":
                good = isinstance(val, dict) and len(val) == 2
                if good:
                    for (cond, taken), vv in val.items():
                        isnull = re.fullmatch(r"\(%s->cr_exit == NULL\)" % cp, cond) is not None
                        if isnull:
                            want = "cmi_coroutine_exit" if taken else cp + "->cr_exit"
                        elif re.fullmatch(r"\(%s->cr_exit != NULL\)" % cp, cond):
                            want = cp + "->cr_exit" if taken else "cmi_coroutine_exit"
                        else:
                            want = None
                        if vv != want:
                            good = False
                else:
                    good = val == cp + "->cr_exit"
                if not good:
                    rep.finding(r4, ci.name, "slot:r15", "r15 is preloaded with %s; expected the coroutine's exit function, "
                                "cmi_coroutine_exit when none was given" % (val,), where=m.rel(ci.where))
                    r4.fail()
                else:
                    r4.ok()
            else:
                r4.ok()
    ret = slot_value(bytemap, sp_off + sw.frame_size, 8)
    r4.instance("return address <- %s" % ret)
    if ret != "cmi_coroutine_trampoline":
        rep.finding(r4, ci.name, "slot:ret", "the return-address slot holds '%s', not the trampoline" % ret, where=m.rel(ci.where))
        r4.fail()
    else:
        r4.ok()
    rep.sample({"rule": "R-C03-4", "c_frame_image": {k: (hex(v) if isinstance(v, int) else str(v)) for k, v in image.items()},
                "base": base, "sp_offset": sp_off})
    # base aligned: residue analysis modulo 16 of the pointers the frame is built from.  Recognised ways to establish
    # residue 0: a loop `while (p % 16 != 0) p--/p++`, p & ~15, p - p % 16, (p + 15) & ~15; constants shift the
    # residue; adding an unknown multiple of 8 loses it.
    cix = FuncCtx(m, ci)

    def residue(n, env):
        n = strip(n, casts=True)
        k = n["kind"]
        if k == "IntegerLiteral":
            return int(n["value"]) % 16
        if k in ("MemberExpr", "DeclRefExpr"):
            return env.get(cix.canon(n) if k == "MemberExpr" else "local:" + n["ref"]["id"])
        if k == "UnaryExprOrTypeTraitExpr":
            return None
        if k == "BinaryOperator":
            op = n["opcode"]
            a, b = kids(n)[0], kids(n)[1]
            if op == "&":
                for x_, y_ in ((a, b), (b, a)):
                    y0 = strip(y_, casts=True)
                    # ~15 or -16 (possibly cast)
                    if y0["kind"] == "UnaryOperator" and y0.get("opcode") in ("~", "-"):
                        v_ = int_value(strip(kids(y0)[0], casts=True))
                        if (y0["opcode"] == "~" and v_ is not None and (v_ + 1) % 16 == 0) or \
                                (y0["opcode"] == "-" and v_ is not None and v_ % 16 == 0 and v_ > 0):
                            return 0
                return None
            ra, rb = residue(a, env), residue(b, env)
            if op == "-":
                b0 = strip(b, casts=True)
                if b0["kind"] == "BinaryOperator" and b0.get("opcode") == "%" and int_value(strip(kids(b0)[1], casts=True)) == 16 \
                        and cix.canon(kids(b0)[0]) == cix.canon(a):
                    return 0
                return None if ra is None or rb is None else (ra - rb) % 16
            if op == "+":
                return None if ra is None or rb is None else (ra + rb) % 16
            if op == "*":
                va, vb = int_value(strip(a, casts=True)), int_value(strip(b, casts=True))
                if (va is not None and va % 16 == 0) or (vb is not None and vb % 16 == 0):
                    return 0
                return None if ra is None or rb is None else (ra * rb) % 16
        return None

    env = {}
    stk_init = None
    found_cursor = False
    for s_ in kids(ci.body):
        if s_["kind"] == "WhileStmt":
            c = strip(kids(s_)[0], casts=True)
            if c["kind"] == "BinaryOperator" and c.get("opcode") == "!=" and int_value(strip(kids(c)[1], casts=True)) == 0:
                mod = strip(kids(c)[0], casts=True)
                if mod["kind"] == "BinaryOperator" and mod.get("opcode") == "%" and int_value(strip(kids(mod)[1], casts=True)) == 16:
                    tgt = cix.canon(kids(mod)[0])
                    steps = [y for y in walk(kids(s_)[1]) if y["kind"] == "UnaryOperator" and y.get("opcode") in ("--", "++")
                             and cix.canon(kids(y)[0]) == tgt]
                    if steps:
                        env[tgt] = 0
                        continue
            for l, r_, k_, n_ in [(kids(y)[0], None, None, y) for y in walk(s_) if y["kind"] in ("BinaryOperator", "CompoundAssignOperator", "UnaryOperator")
                                  and y.get("opcode") in ("=", "+=", "-=", "++", "--")]:
                env.pop(cix.canon(l), None)
        elif s_["kind"] == "BinaryOperator" and s_.get("opcode") == "=":
            l = strip(kids(s_)[0], casts=True)
            if l["kind"] == "MemberExpr":
                env[cix.canon(l)] = residue(kids(s_)[1], env)
            elif l["kind"] == "DeclRefExpr":
                env["local:" + l["ref"]["id"]] = residue(kids(s_)[1], env)
        elif s_["kind"] == "CompoundAssignOperator" and s_.get("opcode") in ("+=", "-="):
            l = strip(kids(s_)[0], casts=True)
            key = cix.canon(l) if l["kind"] == "MemberExpr" else "local:" + l["ref"]["id"] if l["kind"] == "DeclRefExpr" else None
            r0_ = strip(kids(s_)[1], casts=True)
            if s_["opcode"] == "-=" and key and r0_["kind"] == "BinaryOperator" and r0_.get("opcode") == "%" and \
                    int_value(strip(kids(r0_)[1], casts=True)) == 16 and cix.canon(kids(r0_)[0]) == cix.canon(l):
                env[key] = 0            # p -= p % 16
                continue
            d_ = residue(kids(s_)[1], env)
            if key:
                env[key] = None if env.get(key) is None or d_ is None else (env[key] + (d_ if s_["opcode"] == "+=" else -d_)) % 16
        elif s_["kind"] == "DeclStmt":
            for d in kids(s_):
                if d["kind"] == "VarDecl" and kids(d):
                    env["local:" + d["id"]] = residue(kids(d)[0], env)
                    if "unsigned char *" in (d.get("type") or ""):
                        stk_init = env["local:" + d["id"]]
                        found_cursor = True
            if found_cursor:
                break
    r4.instance("residue modulo 16 of the frame base when the cursor is set: %s (known residues: %s)" %
                (stk_init, {k_: v_ for k_, v_ in env.items() if not k_.startswith("local:")}))
    if stk_init != 0 or base != cp + "->stack_base":
        rep.finding(r4, ci.name, "base:align", "the frame is not built from a stack base that is provably aligned to 16 bytes "
                    "(base expression '%s', residue modulo 16: %s)" % (base, "unknown" if stk_init is None else stk_init),
                    where=m.rel(ci.where))
        r4.fail()
    else:
        r4.ok()

    # R-C03-6 bookkeeping ------------------------------------------------------
    r6 = rep.rule("R-C03-6", "bookkeeping around the switch: the switch is called only by transfer with (&from->stack_pointer, "
                  "&to->stack_pointer, msg) after to->caller = from and current = to; yield goes to the caller; exit stores "
                  "the value, marks finished and goes to the parent; start (re)initialises the frame and sets parent = "
                  "caller = current, status running, unconditionally; the stack pointer field has no other writers", floor=8)
    callers = {f.name for f, c in inv.calls_to(m, "cmi_coroutine_context_switch")}
    r6.instance("context switch called by %s" % sorted(callers))
    if callers != {"cmi_coroutine_transfer"}:
        rep.finding(r6, "cmi_coroutine_context_switch", "callers", "called from %s" % sorted(callers), where="src/cmi_coroutine.c")
        r6.fail()
    else:
        r6.ok()
    tf = m.need("cmi_coroutine_transfer")
    tx = FuncCtx(m, tf)
    to, msg = tf.params[0]["name"], tf.params[1]["name"]
    sc = [c for c in walk(tf.body) if c["kind"] == "CallExpr" and callee_ref(c) == "cmi_coroutine_context_switch"]
    if len(sc) != 1:
        raise AnalysisBroken("transfer: expected one switch call")
    a = [tx.canon(z) for z in kids(sc[0])[1:]]
    si = inv.stmt_index_containing(tf, sc[0])
    pre = {}
    for l, r, k, n in inv.stores(tf):
        i = inv.stmt_index_containing(tf, n)
        if i is not None and i < si and not any(x["kind"] in ("IfStmt", "WhileStmt") for x in inv.enclosing_chain(tf, n)):
            pre[tx.canon(l)] = tx.canon(r)
    r6.instance("transfer: switch(%s); before: %s" % (", ".join(a), pre))
    okt = a == ["&coroutine_current->stack_pointer", "&%s->stack_pointer" % to, msg] and \
        pre.get(to + "->caller") == "coroutine_current" and pre.get("coroutine_current") == to
    if not okt:
        rep.finding(r6, tf.name, "transfer", "transfer switches with (%s) after %s; expected (&from->stack_pointer, "
                    "&to->stack_pointer, msg) after to->caller = from and current = to" % (", ".join(a), pre), where=m.rel(tf.where))
        r6.fail()
    else:
        r6.ok()
    rets = [tx.canon(kids(x)[0]) for x in walk(tf.body) if x["kind"] == "ReturnStmt"]
    if rets != ["cmi_coroutine_context_switch(%s)" % ", ".join(a)]:
        rep.finding(r6, tf.name, "transfer:return", "transfer returns %s, not the value delivered by the switch" % rets,
                    where=m.rel(tf.where))
        r6.fail()
    else:
        r6.ok()
    for f, n, is_w, kind in inv.global_refs(m, "coroutine_current"):
        if is_w:
            r6.instance("%s writes coroutine_current" % f.name)
            if f.name not in ("cmi_coroutine_transfer", "create_main"):
                rep.finding(r6, f.name, "current:writer", "%s writes the current-coroutine pointer" % f.name, where=m.rel(loc(n)))
                r6.fail()
            else:
                r6.ok()
    for f, l, r, k, n in inv.field_writers(m, "cmi_coroutine", "stack_pointer"):
        r6.instance("%s writes stack_pointer" % f.name)
        if f.name not in ("cmi_coroutine_context_init", "cmi_coroutine_initialize", "create_main"):
            rep.finding(r6, f.name, "stack_pointer:writer", "%s writes a coroutine's saved stack pointer" % f.name, where=m.rel(loc(n)))
            r6.fail()
        else:
            r6.ok()
    # yield / resume / exit
    y = m.need("cmi_coroutine_yield")
    yx = FuncCtx(m, y)
    yc = [c for c in walk(y.body) if c["kind"] == "CallExpr" and callee_ref(c) == "cmi_coroutine_transfer"]
    ya = [yx.canon(z) for z in kids(yc[0])[1:]] if len(yc) == 1 else None
    r6.instance("yield -> transfer(%s)" % ya)
    if ya != ["coroutine_current->caller", y.params[0]["name"]] or \
            [yx.canon(kids(x)[0]) for x in walk(y.body) if x["kind"] == "ReturnStmt"] != ["cmi_coroutine_transfer(%s)" % ", ".join(ya or [])]:
        rep.finding(r6, y.name, "yield", "yield transfers to (%s); expected (current->caller, msg) and returns its result" % ya,
                    where=m.rel(y.where))
        r6.fail()
    else:
        r6.ok()
    rs = m.need("cmi_coroutine_resume")
    rx = FuncCtx(m, rs)
    rc = [c for c in walk(rs.body) if c["kind"] == "CallExpr" and callee_ref(c) == "cmi_coroutine_transfer"]
    ra = [rx.canon(z) for z in kids(rc[0])[1:]] if len(rc) == 1 else None
    if ra != [p["name"] for p in rs.params] or \
            [rx.canon(kids(x)[0]) for x in walk(rs.body) if x["kind"] == "ReturnStmt"] != ["cmi_coroutine_transfer(%s)" % ", ".join(ra or [])]:
        rep.finding(r6, rs.name, "resume", "resume transfers to (%s)" % ra, where=m.rel(rs.where))
        r6.fail()
    else:
        r6.ok()
    ex = m.need("cmi_coroutine_exit")
    exx = FuncCtx(m, ex)
    est = {exx.canon(l): exx.canon(r) for l, r, k, n in inv.stores(ex)
           if not any(x["kind"] in ("IfStmt", "WhileStmt") for x in inv.enclosing_chain(ex, n))}
    ec = [c for c in walk(ex.body) if c["kind"] == "CallExpr" and callee_ref(c) == "cmi_coroutine_transfer"]
    ea = [exx.canon(z) for z in kids(ec[0])[1:]] if len(ec) == 1 else None
    rv = ex.params[0]["name"]
    r6.instance("exit: stores %s; transfer(%s)" % (est, ea))
    if est.get("coroutine_current->exit_value") != rv or est.get("coroutine_current->status") != "CMI_COROUTINE_FINISHED" \
            or ea != ["coroutine_current->parent", rv]:
        rep.finding(r6, ex.name, "exit", "exit stores %s and transfers to (%s); expected exit_value = value, status finished, "
                    "transfer(parent, value)" % (est, ea), where=m.rel(ex.where))
        r6.fail()
    else:
        r6.ok()
    st = m.need("cmi_coroutine_start")
    sx = FuncCtx(m, st)
    cpn = st.params[0]["name"]
    tci = [c for c in walk(st.body) if c["kind"] == "CallExpr" and callee_ref(c) == "cmi_coroutine_transfer"]
    ini = [c for c in walk(st.body) if c["kind"] == "CallExpr" and callee_ref(c) == "cmi_coroutine_context_init"]
    if len(tci) != 1:
        raise AnalysisBroken("start: expected one transfer")
    ti = inv.stmt_index_containing(st, tci[0])
    top = {}
    for s_ in kids(st.body)[:ti]:
        if s_["kind"] == "BinaryOperator" and s_.get("opcode") == "=":
            top[sx.canon(kids(s_)[0])] = sx.canon(kids(s_)[1])
    r6.instance("start: unconditional stores before the first transfer: %s" % top)
    rep.sample({"rule": "R-C03-6", "start_stores": top})
    want = {cpn + "->parent": "coroutine_current", cpn + "->caller": "coroutine_current",
            cpn + "->status": "CMI_COROUTINE_RUNNING", cpn + "->exit_value": "NULL"}
    for k_, v_ in want.items():
        if top.get(k_) != v_:
            rep.finding(r6, st.name, "start:" + k_.split("->")[1], "start does not unconditionally set %s = %s before "
                        "transferring (found %s): a restarted coroutine would return to / yield to a stale coroutine"
                        % (k_, v_, top.get(k_)), where=m.rel(st.where))
            r6.fail()
        else:
            r6.ok()
    okini = len(ini) == 1 and sx.canon(kids(ini[0])[1]) == cpn and (inv.stmt_index_containing(st, ini[0]) or 99) < ti \
        and not any(x["kind"] == "IfStmt" for x in inv.enclosing_chain(st, ini[0]))
    if not okini:
        rep.finding(r6, st.name, "start:frame", "start does not rebuild the initial frame before transferring",
                    where=m.rel(st.where))
        r6.fail()
    else:
        r6.ok()
    if [sx.canon(z) for z in kids(tci[0])[1:]] != [p["name"] for p in st.params]:
        rep.finding(r6, st.name, "start:transfer", "start transfers with the wrong arguments", where=m.rel(st.where))
        r6.fail()
    else:
        r6.ok()
    # process level wiring
    pi = m.need("cmb_process_initialize")
    px = FuncCtx(m, pi)
    ic = [c for c in walk(pi.body) if c["kind"] == "CallExpr" and callee_ref(c) == "cmi_coroutine_initialize"]
    if len(ic) != 1:
        raise AnalysisBroken("cmb_process_initialize: expected one coroutine initialize call")
    a = [px.canon(z) for z in kids(ic[0])[1:]]
    r6.instance("process initialize -> coroutine initialize(%s)" % ", ".join(a))
    if a[0] != pi.params[0]["name"] or a[1] != pi.params[2]["name"] or a[2] != pi.params[3]["name"] or a[3] != "cmb_process_exit":
        rep.finding(r6, pi.name, "process:wiring", "a process's coroutine is initialised with (%s); expected (process, function, "
                    "context, cmb_process_exit, ..)" % ", ".join(a), where=m.rel(pi.where))
        r6.fail()
    else:
        r6.ok()
    co = m.need("cmi_coroutine_initialize")
    cox = FuncCtx(m, co)
    cst = {cox.canon(l): cox.canon(r) for l, r, k, n in inv.stores(co)}
    cn = co.params[0]["name"]
    wantc = {cn + "->cr_function": co.params[1]["name"], cn + "->context": co.params[2]["name"],
             cn + "->cr_exit": co.params[3]["name"]}
    for k_, v_ in wantc.items():
        if cst.get(k_) != v_:
            rep.finding(r6, co.name, "init:" + k_.split("->")[1], "coroutine initialize stores %s = %s" % (k_, cst.get(k_)),
                        where=m.rel(co.where))
            r6.fail()
        else:
            r6.ok()


def run(tier="quick"):
    models = common.load_models(tier)
    rep = Report(PID, tier, models[0])
    rep.exhaustive = True
    rep.assumptions = ["SysV x86-64 psABI: callee-saved = rbx, rbp, r12-r15; MXCSR control bits callee-saved",
                       "nasm + objdump faithfully assemble / disassemble the unit (the object code is what is analysed)",
                       "only the Linux/x86-64 port is analysed"]
    rep.not_decided = ["x87 control word (not in the statement)", "arbitrary start/stop/restart sequences beyond the listed orderings"]
    for m in models[:1]:
        rep.configs.append(m.config)
        common.run_rules(rep, m, rules)
    return rep.finish()
