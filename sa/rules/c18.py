"""C18 - Sorting, medians, quartiles, histograms, correlograms respect their definitions.

Mostly value-level (ascending order, median property, autocorrelation invariance): not decided.  Claimed are
the structural clauses: sorting only exchanges elements (same multiset), time-series samples stay whole, a
histogram accounts for every sample exactly once, copies copy what they allocate."""
import re

from ..astutil import kids, strip, walk, callee_ref, render, loc, int_value, float_value
from ..frontend import AnalysisBroken
from ..report import Report
from ..vals import FuncCtx, is_assert_stmt
from .. import inv
from . import common

PID = "C18"
SORT_FUNCS = ("cmb_dataset_sort", "dataset_heapify", "cmb_timeseries_sort_x", "cmb_timeseries_sort_t", "timeseries_heapify")


def swap_calls(m, f):
    """[(stmt index path, node, arrayA, idxA1, idxA2)] for cmi_dataset_swap(&A[i], &A[j]) calls."""
    out = []
    cx = FuncCtx(m, f)
    for c in walk(f.body):
        if c["kind"] == "CallExpr" and callee_ref(c) == "cmi_dataset_swap":
            a = [render(z) for z in kids(c)[1:]]
            mm1 = re.fullmatch(r"&(.+)\[(.+)\]", a[0])
            mm2 = re.fullmatch(r"&(.+)\[(.+)\]", a[1])
            out.append((c, mm1.groups() if mm1 else None, mm2.groups() if mm2 else None, a))
    return out


def inline_swaps(f):
    """Three-assignment exchange idiom t = A[i]; A[i] = A[j]; A[j] = t in one block: [(block, i0, A, i, j)]"""
    found = []
    for blk in walk(f.body):
        if blk["kind"] != "CompoundStmt":
            continue
        st = kids(blk)
        for i in range(len(st) - 2):
            a, b, c = st[i], st[i + 1], st[i + 2]
            ta = None
            if a["kind"] == "DeclStmt" and kids(a) and kids(kids(a)[0]):
                ta = (kids(a)[0]["name"], render(kids(kids(a)[0])[0]))
            elif a["kind"] == "BinaryOperator" and a.get("opcode") == "=":
                ta = (render(kids(a)[0]), render(kids(a)[1]))
            if not ta:
                continue
            if not (b["kind"] == "BinaryOperator" and b.get("opcode") == "=" and c["kind"] == "BinaryOperator" and c.get("opcode") == "="):
                continue
            bl, br = render(kids(b)[0]), render(kids(b)[1])
            cl, cr = render(kids(c)[0]), render(kids(c)[1])
            if bl == ta[1] and cl == br and cr == ta[0]:
                found.append((blk, i, bl, br, (a, b, c)))
    return found


from ..engines.induct import Poly, Facts


def ev_len(cx_, node, sym, parity):
    """value of an unsigned expression over `sym` = 2k + parity, as Poly in k; None if not understood"""
    n_ = cx_.resolve(node) if cx_ is not None else strip(node, casts=True)
    n_ = strip(n_, casts=True)
    k_ = n_["kind"]
    if k_ == "IntegerLiteral":
        return Poly.const(int(n_["value"]))
    if k_ in ("DeclRefExpr", "MemberExpr"):
        if sym(n_):
            return Poly.sym("k").scale(2) + Poly.const(parity)
        return None
    if k_ == "BinaryOperator":
        a_, b_ = ev_len(cx_, kids(n_)[0], sym, parity), ev_len(cx_, kids(n_)[1], sym, parity)
        if a_ is None or b_ is None:
            return None
        op = n_["opcode"]
        if op == "+":
            return a_ + b_
        if op == "-":
            return a_ - b_
        if (op == "/" and b_.is_const() and b_.get((), 0) == 2) or (op == ">>" and b_.is_const() and b_.get((), 0) == 1):
            # floor((2k + p + 2c)/2): coefficients of k even, constant floored
            if all(v_.denominator == 1 and int(v_) % 2 == 0 for kk, v_ in a_.items() if kk != ()):
                c0 = a_.get((), 0)
                out = Poly()
                for kk, v_ in a_.items():
                    if kk != ():
                        out[kk] = v_ / 2
                return out + Poly.const(int(c0) // 2)
            return None
    return None



def is_assert_stmt_anc(f, node):
    """node lies inside an assertion statement of f"""
    return any(is_assert_stmt(a) for a in inv.enclosing_chain(f, node))


def _norm(t):
    """drop unsigned suffixes, blanks and parentheses"""
    return re.sub(r"[\s()]", "", re.sub(r"(?<=\d)[uU][lL]*\b", "", t))


def loop_shape(cx, f, lp):
    """A counting loop (for or while) as (variable declaration, condition 'v>=0', step 'v--', body statements without the
    step).  The step of a while loop must be its last statement - stepping before the work shifts every index."""
    # the count-down idiom for unsigned cursors: for (v = start; v-- > 0; ) body  -  the body sees start-1 ... 0
    if lp["kind"] in ("ForStmt", "WhileStmt"):
        cnd = strip(kids(lp)[2] if lp["kind"] == "ForStmt" else kids(lp)[0], casts=True)
        inc_ = kids(lp)[3] if lp["kind"] == "ForStmt" else None
        if cnd.get("kind") == "BinaryOperator" and cnd.get("opcode") in (">", "!=") and int_value(strip(kids(cnd)[1], casts=True)) == 0 \
                and (inc_ is None or inc_["kind"] == "Null"):
            u = strip(kids(cnd)[0], casts=True)
            if u["kind"] == "UnaryOperator" and u.get("opcode") == "--" and u.get("isPostfix") and \
                    strip(kids(u)[0], casts=True)["kind"] == "DeclRefExpr":
                nm = strip(kids(u)[0], casts=True)["ref"]["name"]
                body = kids(lp)[-1]
                writes = [1 for l, r_, k_, n_ in inv.stores(f) if render(strip(l, casts=True)) == nm and any(y is n_ for y in walk(body))]
                writes += [1 for y in walk(body) if y["kind"] == "UnaryOperator" and y.get("opcode") in ("++", "--") and
                           render(strip(kids(y)[0], casts=True)) == nm]
                decl = None
                for x in walk(f.body):
                    if x["kind"] == "VarDecl" and x.get("name") == nm and kids(x):
                        decl = x
                if decl is not None and not writes:
                    stmts = kids(body) if body["kind"] == "CompoundStmt" else [body]
                    return {"decl": decl, "var": nm, "cond": "%s>=0" % nm, "inc": nm + "--", "body": stmts, "start_adjust": -1,
                            "test_before_step": True}
    ivars, guard = inv.induction_vars(cx, f, lp)
    if guard is None:
        return None
    nm, op, bound = guard
    d = ivars[nm][1]
    decl = None
    for x in walk(f.body):
        if x["kind"] == "VarDecl" and x.get("name") == nm and kids(x):
            decl = x
    if decl is None:
        return None
    body = kids(lp)[-1]
    stmts = kids(body) if body["kind"] == "CompoundStmt" else [body]

    def is_step(st_):
        c = strip(st_, casts=True)
        if c["kind"] == "UnaryOperator" and c.get("opcode") in ("++", "--"):
            return render(strip(kids(c)[0], casts=True)) == nm
        if c["kind"] in ("CompoundAssignOperator", "BinaryOperator") and c.get("opcode") in ("+=", "-=", "="):
            return render(strip(kids(c)[0], casts=True)) == nm
        return False
    if lp["kind"] == "WhileStmt":
        if not stmts or not is_step(stmts[-1]):
            return None
        stmts = stmts[:-1]
    if any(is_step(st_) for st_ in stmts):
        return None
    return {"decl": decl, "var": nm, "cond": "%s%s%s" % (nm, op, _norm(bound)),
            "inc": "%s%s" % (nm, "--" if d == -1 else "++" if d == 1 else "+=%d" % d), "body": stmts}


# ---------------------------------------------------------------------------------------------------------
class _BadPosition(Exception):
    pass


class _SiftEval:
    """Evaluate one round of a sift-down body over an abstraction: positions R (root), L, T (left / right child),
    which children exist, and the weak order of the three key values.  Index values are affine forms a*root + b of the
    root of 'generation' 0 (at the top of the round) or 1 (after the root moved down): (1,0) is R, (2,1) L, (2,2) T."""

    class Stop(Exception):
        pass

    TOK = {(1, 0): "R", (2, 1): "L", (2, 2): "T"}

    def __init__(self, f, key, n, root, env0, flag=None):
        self.f, self.key, self.n = f, key, n
        self.root, self.env0, self.flag = root, dict(env0), flag

    def run(self, body, where, rank):
        self.where, self.rank = where, rank
        self.exists = {k_: v_ == "in" for k_, v_ in where.items()}
        self.env = dict(self.env0)
        self.declared = set()
        self.swaps = []
        self.stopped = False
        self.new_root = None
        self.oob = None
        try:
            self.stmt(body)
        except _SiftEval.Stop:
            self.stopped = True
        return self

    def aff(self, n):
        """(gen, a, b) | ('c', 0, value) | None"""
        n = strip(n, casts=True)
        k = n["kind"]
        if k == "IntegerLiteral":
            return ("c", 0, int(n["value"]))
        if k == "DeclRefExpr":
            return self.env.get(n["ref"]["name"])
        if k == "BinaryOperator" and n.get("opcode") in ("+", "-", "*", "<<"):
            x, y = self.aff(kids(n)[0]), self.aff(kids(n)[1])
            if x is None or y is None:
                return None
            op = n["opcode"]
            if op in ("+", "-"):
                sg = 1 if op == "+" else -1
                if x[0] != "c" and y[0] != "c":
                    return None
                g = x[0] if x[0] != "c" else y[0]
                if op == "-" and x[0] == "c" and y[0] != "c":
                    return None
                return (g, x[1] + sg * y[1], x[2] + sg * y[2])
            if op == "*":
                if x[0] == "c":
                    x, y = y, x
                if y[0] != "c":
                    return None
                return (x[0], x[1] * y[2], x[2] * y[2])
            if op == "<<" and y[0] == "c":
                return (x[0], x[1] << y[2], x[2] << y[2])
        return None

    def pos(self, n):
        v = self.aff(n)
        if v is None:
            raise AnalysisBroken("sift evaluation: index expression %s not understood" % render(n))
        if v[0] != 0:
            raise AnalysisBroken("sift evaluation: index %s is used after the root moved" % render(n))
        t = self.TOK.get((v[1], v[2]))
        if t is None:
            raise _BadPosition("%s is %d*root%+d: neither the root nor one of its children 2*root+1 / 2*root+2"
                               % (render(strip(n, casts=True)), v[1], v[2]))
        return t

    def cond(self, n):
        n = strip(n, casts=True)
        k = n["kind"]
        if k == "UnaryOperator" and n.get("opcode") == "!":
            return not self.cond(kids(n)[0])
        if k == "BinaryOperator":
            op = n["opcode"]
            if op == "&&":
                return self.cond(kids(n)[0]) and self.cond(kids(n)[1])
            if op == "||":
                return self.cond(kids(n)[0]) or self.cond(kids(n)[1])
            a, b = strip(kids(n)[0], casts=True), strip(kids(n)[1], casts=True)
            if op in ("<", ">", "<=", ">=", "==", "!="):
                if a["kind"] == "ArraySubscriptExpr" and b["kind"] == "ArraySubscriptExpr":
                    if render(kids(a)[0]) != self.key or render(kids(b)[0]) != self.key:
                        raise AnalysisBroken("sift evaluation: compares %s, not elements of the key array" % render(n))
                    pa, pb = self.pos(kids(a)[1]), self.pos(kids(b)[1])
                    for p_ in (pa, pb):
                        if not self.exists[p_]:
                            self.oob = "reads %s[%s] although that child lies beyond the heap" % (self.key, p_)
                    ra, rb = self.rank[pa], self.rank[pb]
                    return {"<": ra < rb, ">": ra > rb, "<=": ra <= rb, ">=": ra >= rb, "==": ra == rb, "!=": ra != rb}[op]
                # index comparisons
                if a["kind"] == "DeclRefExpr" and a["ref"]["name"] == self.n:
                    a, b, op = b, a, {"<": ">", ">": "<", "<=": ">=", ">=": "<="}.get(op, op)
                if b["kind"] == "DeclRefExpr" and b["ref"]["name"] == self.n and op in ("<", "<=", ">", ">="):
                    st_ = self.where[self.pos(a)]        # 'in' (< n), 'edge' (== n), 'out' (> n)
                    return {"<": st_ == "in", "<=": st_ in ("in", "edge"), ">": st_ == "out", ">=": st_ in ("edge", "out")}[op]
                if op in ("==", "!="):
                    pa, pb = self.pos(a), self.pos(b)
                    return (pa == pb) if op == "==" else (pa != pb)
        raise AnalysisBroken("sift evaluation: condition %s not understood" % render(n))

    def stmt(self, n):
        k = n["kind"]
        if k == "CompoundStmt":
            for c in kids(n):
                self.stmt(c)
        elif k == "DeclStmt":
            for d in kids(n):
                if d["kind"] == "VarDecl":
                    self.declared.add(d["name"])
                    if kids(d):
                        self.env[d["name"]] = self.aff(kids(d)[0])
        elif k == "IfStmt":
            ch = kids(n)
            if self.cond(ch[0]):
                self.stmt(ch[1])
            elif len(ch) > 2:
                self.stmt(ch[2])
        elif k == "BreakStmt":
            raise _SiftEval.Stop()
        elif k == "ReturnStmt" and not kids(n):
            raise _SiftEval.Stop()
        elif k == "BinaryOperator" and n.get("opcode") == "=":
            l = strip(kids(n)[0])
            if l["kind"] != "DeclRefExpr":
                raise AnalysisBroken("sift evaluation: store to %s" % render(l))
            nm = l["ref"]["name"]
            r_ = strip(kids(n)[1], casts=True)
            if nm == self.flag:
                v = int_value(r_)
                if v is None:
                    raise AnalysisBroken("sift evaluation: loop flag set to %s" % render(r_))
                self.stopped = self.stopped or v == 0
            elif nm == self.root:
                self.new_root = self.pos(r_)
                self.env[nm] = (1, 1, 0)
            else:
                self.env[nm] = self.aff(r_)
        elif k == "CallExpr" and callee_ref(n) == "cmi_dataset_swap":
            a = [strip(z, casts=True) for z in kids(n)[1:]]
            ps = []
            arr = None
            for z in a:
                if z["kind"] == "UnaryOperator" and z.get("opcode") == "&":
                    e = strip(kids(z)[0], casts=True)
                    if e["kind"] == "ArraySubscriptExpr":
                        arr = render(kids(e)[0])
                        ps.append(self.pos(kids(e)[1]))
            self.swaps.append((arr, tuple(ps)))
        elif is_assert_stmt(n) or k in ("NullStmt",):
            return
        else:
            raise AnalysisBroken("sift evaluation: unsupported statement %s at line %s" % (k, n.get("line")))

    def stale(self):
        """after the root moved: the index variables that are carried into the next round (set before the loop, not
        declared in the body) and are not the same function of the new root as they were of the old"""
        out = []
        for nm, v0 in self.env0.items():
            if nm in self.declared or v0 is None or v0[0] != 0:
                continue
            v1 = self.env.get(nm)
            if v1 is None or v1[0] != 1 or (v1[1], v1[2]) != (v0[1], v0[2]):
                out.append(nm)
        return out


def check_sift(rep, rule, m, f):
    """Exhaustive check of one sift-down round: over which children exist and all weak orders of (root, left, right)."""
    import itertools
    names = [p_["name"] for p_ in f.params]
    n, key, root = names[0], names[1], names[-1]
    loops = [x for x in kids(f.body) if x["kind"] in ("ForStmt", "WhileStmt")]
    if len(loops) != 1:
        raise AnalysisBroken("%s: expected one sift loop" % f.name)
    lp = loops[0]
    body = kids(lp)[-1]
    flag = None
    if lp["kind"] == "WhileStmt":
        c0 = strip(kids(lp)[0], casts=True)
        if c0["kind"] == "DeclRefExpr" and c0["ref"].get("kind") != "ParmVarDecl":
            flag = c0["ref"]["name"]
        elif int_value(c0) is None:
            raise AnalysisBroken("%s: the sift loop's condition %s is not understood" % (f.name, render(c0)))
    elif any(c_["kind"] != "Null" for c_ in kids(lp)[:4] if c_ is not None and c_.get("kind")):
        if any(kids(lp)[i]["kind"] != "Null" for i in (0, 2, 3)):
            raise AnalysisBroken("%s: the sift loop has a header that is not understood" % f.name)
    # index variables set before the loop, as functions of the root
    pre = _SiftEval(f, key, n, root, {root: (0, 1, 0)})
    pre.env = dict(pre.env0)
    pre.declared = set()
    for x in kids(f.body):
        if x is lp:
            break
        if x["kind"] == "DeclStmt":
            pre.stmt(x)
    env0 = {k_: v_ for k_, v_ in pre.env.items() if v_ is not None and v_[0] == 0}
    ev = _SiftEval(f, key, n, root, env0, flag)
    cases = 0
    bad = {}
    for ex_ in (("out", "out"), ("edge", "out"), ("in", "edge"), ("in", "in")):
        where = {"R": "in", "L": ex_[0], "T": ex_[1]}
        exists = {k_: v_ == "in" for k_, v_ in where.items()}
        for ranks in itertools.product(range(3), repeat=3):
            rank = dict(zip("RLT", ranks))
            cases += 1
            live = [p_ for p_ in "RLT" if exists[p_]]
            top = max(rank[p_] for p_ in live)
            desc = "children %s, keys %s" % ("+".join(p_ for p_ in "LT" if exists[p_]) or "none",
                                            " ".join("%s=%d" % (p_, rank[p_]) for p_ in live))
            try:
                r_ = ev.run(body, where, rank)
            except _BadPosition as e:
                bad.setdefault("sift:children", ("does not work on the children 2*root+1 and 2*root+2: %s" % e, desc))
                continue
            if r_.oob:
                bad.setdefault("sift:out-of-range", (r_.oob, desc))
                continue
            if r_.stopped and not r_.swaps:
                if rank["R"] != top:
                    bad.setdefault("sift:stops-early", ("stops although a child is larger than the root", desc))
                continue
            keysw = [sw for sw in r_.swaps if sw[0] == key]
            if len(keysw) != 1 or set(keysw[0][1]) != {"R", r_.new_root} or r_.new_root not in live or r_.new_root == "R":
                bad.setdefault("sift:exchange", ("does not exchange the root with one existing child and continue there "
                                                 "(exchanges %s, continues at %s)" % (r_.swaps, r_.new_root), desc))
                continue
            if rank[r_.new_root] != top:
                bad.setdefault("sift:not-largest", ("moves the root down to a child that is not the largest of root and children: "
                                                    "the max-heap condition (hence ascending order) is lost", desc))
                continue
            if any(sw[1] != keysw[0][1] and set(sw[1]) != set(keysw[0][1]) for sw in r_.swaps):
                bad.setdefault("sift:companions", ("companion arrays are exchanged at other positions than the key", desc))
                continue
            if r_.stopped:
                bad.setdefault("sift:no-continue", ("exchanges but does not continue below", desc))
                continue
            if r_.stale():
                bad.setdefault("sift:children-stale", ("after moving down the children indices are not recomputed as 2*root+1 / "
                                                       "2*root+2 (%s keep their old value or get another one)" % sorted(r_.stale()), desc))
    rule.instance("%s: %d abstract cases (children present x weak orders of root/left/right)" % (f.name, cases))
    rep.sample({"rule": rule.id if hasattr(rule, "id") else "R-C18-5", "function": f.name, "cases": cases, "failures": len(bad)})
    for kind, (why, desc) in bad.items():
        rep.finding(rule, f.name, kind, "%s: %s (case: %s)" % (f.name, why, desc), where=m.rel(f.where))
        rule.fail()
    for _ in range(cases - len(bad)):
        rule.ok()


def rules(rep, m):
    funcs = {}
    for n in SORT_FUNCS:
        c = m.func_named(n)
        if not c:
            raise AnalysisBroken("sort function %s not found" % n)
        funcs[n] = c[0]
    # R-C18-1 ------------------------------------------------------------
    r1 = rep.rule("R-C18-1", "in the sort routines array elements are written only by exchanges of two elements of the same "
                  "array (the swap helper, itself a true three-step exchange, or the inline three-assignment idiom): the result "
                  "is a permutation, hence the same multiset of samples", floor=8)
    sw = m.need("cmi_dataset_swap")
    sts = [(render(l), render(r)) for l, r, k, n_ in inv.stores(sw)]
    tmpd = [(x["name"], render(kids(x)[0])) for x in walk(sw.body) if x["kind"] == "VarDecl" and kids(x)]
    a, b = sw.params[0]["name"], sw.params[1]["name"]
    r1.instance("swap helper: %s; %s" % (tmpd, sts))
    ok = len(tmpd) == 1 and tmpd[0][1] == "*" + a and sts == [("*" + a, "*" + b), ("*" + b, tmpd[0][0])]
    if not ok:
        ok = len(tmpd) == 1 and tmpd[0][1] == "*" + b and sts == [("*" + b, "*" + a), ("*" + a, tmpd[0][0])]
    if not ok:
        rep.finding(r1, sw.name, "swap:not-exchange", "the swap helper is not a three-step exchange (%s; %s): a sample is "
                    "duplicated or lost" % (tmpd, sts), where=m.rel(sw.where))
        r1.fail()
    else:
        r1.ok()
    for n, f in funcs.items():
        sc = swap_calls(m, f)
        isw = inline_swaps(f)
        covered = set()
        for blk, i, x, y, nodes in isw:
            for nd in nodes[1:]:
                covered.add(id(nd))
        for c, g1, g2, args in sc:
            r1.instance("%s: swap(%s, %s)" % (n, args[0], args[1]))
            if not g1 or not g2 or g1[0] != g2[0]:
                rep.finding(r1, n, "swap:arrays", "%s exchanges %s with %s: not two elements of one array" % (n, args[0], args[1]),
                            where=m.rel(loc(c)))
                r1.fail()
            else:
                r1.ok()
        for l, r, k, node in inv.stores(f):
            ls = strip(l, casts=True)
            if ls["kind"] == "ArraySubscriptExpr" or (ls["kind"] == "UnaryOperator" and ls.get("opcode") == "*"):
                if id(node) in covered:
                    continue
                rep.finding(r1, n, "element-write", "%s writes the array element %s directly (not an exchange): the sorted "
                            "data are no longer a permutation of the input" % (n, render(l)), where=m.rel(loc(node)))
                r1.fail()
        if not sc and not isw:
            rep.finding(r1, n, "no-exchange", "%s contains no exchange at all" % n, where=m.rel(f.where))
            r1.fail()

    # R-C18-2 ------------------------------------------------------------
    r2 = rep.rule("R-C18-2", "time series: every exchange on one of the three parallel arrays is accompanied, in the same "
                  "block, by exchanges of the other two with the same index pair, and the heapify helper is always given "
                  "the three distinct arrays: each sample keeps its own time and weight", floor=4)
    for n in ("cmb_timeseries_sort_x", "cmb_timeseries_sort_t", "timeseries_heapify"):
        f = funcs[n]
        cx2 = FuncCtx(m, f)
        for blk in walk(f.body):
            if blk["kind"] != "CompoundStmt":
                continue
            group = []
            for s_ in kids(blk):
                c = strip(s_, casts=True)
                if c["kind"] == "CallExpr" and callee_ref(c) == "cmi_dataset_swap":
                    a_ = [render(z) for z in kids(c)[1:]]
                    m1, m2 = re.fullmatch(r"&\(?(.+?)\)?\[(.+)\]\)?", a_[0]), re.fullmatch(r"&\(?(.+?)\)?\[(.+)\]\)?", a_[1])
                    if m1 and m2:
                        group.append((m1.group(1), m1.group(2), m2.group(2), c))
            if not group:
                continue
            arrays = {g[0] for g in group}
            pairs = {(g[1], g[2]) for g in group}
            r2.instance("%s: exchange group on %s with index pair(s) %s" % (n, sorted(arrays), sorted(pairs)))
            rep.sample({"rule": "R-C18-2", "function": n, "arrays": sorted(arrays), "pairs": sorted(pairs)})
            if len(arrays) != 3 or len(group) != 3 or len(pairs) != 1:
                rep.finding(r2, n, "sample-torn", "%s exchanges %s with index pairs %s in one block: the three parallel arrays "
                            "must move together (one exchange each, same two indices), otherwise a sample ends up with "
                            "another sample's time or weight" % (n, sorted(arrays), sorted(pairs)), where=m.rel(loc(group[0][3])))
                r2.fail()
            else:
                r2.ok()
        for c in walk(f.body):
            if c["kind"] == "CallExpr" and callee_ref(c) == "timeseries_heapify":
                a_ = [cx2.canon(z) for z in kids(c)[2:5]]
                base = {re.sub(r"^.*->", "", x) for x in a_}
                if n == "timeseries_heapify":
                    # the recursion hands on its own three parameters
                    base = {{f.params[1]["name"]: "xa", f.params[2]["name"]: "ta", f.params[3]["name"]: "wa"}.get(x, x) for x in a_}
                r2.instance("%s: heapify(%s)" % (n, ", ".join(a_)))
                if base != {"xa", "ta", "wa"}:
                    rep.finding(r2, n, "heapify-arrays", "%s sifts (%s): not the three distinct sample arrays" % (n, ", ".join(a_)),
                                where=m.rel(loc(c)))
                    r2.fail()
                else:
                    r2.ok()
    # the key array matches the sort's name
    for n, key in (("cmb_timeseries_sort_x", "xa"), ("cmb_timeseries_sort_t", "ta")):
        f = funcs[n]
        cx2 = FuncCtx(m, f)
        keys = {re.sub(r"^.*->", "", cx2.canon(kids(c)[2])) for c in walk(f.body)
                if c["kind"] == "CallExpr" and callee_ref(c) == "timeseries_heapify"}
        if keys != {key}:
            rep.finding(r2, n, "sort-key", "%s sorts by %s, not by %s" % (n, sorted(keys), key), where=m.rel(f.where))
            r2.fail()
        else:
            r2.ok()

    # R-C18-3 ------------------------------------------------------------
    r3 = rep.rule("R-C18-3", "histogram filling assigns a bin on every path of an exhaustive if / else-if / else, adds exactly "
                  "one contribution per iteration (1 per sample, the duration per time-series sample) and runs over [0, n) "
                  "for datasets and [0, n - 1) for time series (the last sample has no duration yet)", floor=2)
    for fname, wexpr in (("cmi_dataset_histogram_fill", "1"), ("timeseries_histogram_fill", "wa[ui]")):
        f = m.func_named(fname)[0]
        cx = FuncCtx(m, f)
        loops = [x for x in walk(f.body) if x["kind"] in ("ForStmt", "WhileStmt")]
        if len(loops) != 1:
            raise AnalysisBroken("%s: expected one loop" % fname)
        lp = loops[0]
        nname, xname = f.params[1]["name"], f.params[2]["name"]
        ivars, guard = inv.induction_vars(cx, f, lp)
        trip = inv.trip_count(ivars, guard)
        want_trip = nname if fname.startswith("cmi") else "(%s - 1)" % nname
        body = kids(lp)[-1]

        def deref(n, depth=0):
            """follow single-definition locals (also the copies NORM makes for inlined helpers) to the expression meant"""
            n = strip(n, casts=True)
            if depth > 12:
                return n
            if n["kind"] == "DeclRefExpr" and n["ref"].get("kind") != "ParmVarDecl":
                d = cx.single_def(n["ref"]["id"])
                if d is not None:
                    return deref(d, depth + 1)
            if n["kind"] == "UnaryOperator" and n.get("opcode") == "*":
                inner = deref(kids(n)[0], depth + 1)
                if inner["kind"] == "UnaryOperator" and inner.get("opcode") == "&":
                    return deref(kids(inner)[0], depth + 1)
            return n

        def cursor(n):
            """(array, 'index'|'pointer') if n reads the element the loop is at: A[i] with i running 0,1,2... or *p with
            p running A, A+1, ..."""
            n = deref(n)
            if n["kind"] == "ArraySubscriptExpr":
                i = strip(kids(n)[1], casts=True)
                if i["kind"] == "DeclRefExpr" and ivars.get(i["ref"]["name"]) == ("0", 1):
                    return (cx.canon(kids(n)[0]), "index")
            if n["kind"] == "UnaryOperator" and n.get("opcode") == "*":
                q = strip(kids(n)[0], casts=True)
                if q["kind"] == "DeclRefExpr" and q["ref"]["name"] in ivars and ivars[q["ref"]["name"]][1] == 1:
                    return (ivars[q["ref"]["name"]][0], "pointer")
            return None

        # the sample that is binned: the value compared with the lower limit
        samples = []
        for y in walk(body):
            if y["kind"] == "BinaryOperator" and y.get("opcode") in ("<", ">", "<=", ">=") and \
                    any(cx.canon(z).endswith("->low_lim") for z in kids(y)):
                for z in kids(y):
                    if not cx.canon(z).endswith("->low_lim"):
                        samples.append(cursor(z))
        r3.instance("%s: loop runs %s times over %s" % (fname, trip, samples))
        if trip is None or not samples:
            raise AnalysisBroken("%s: the fill loop is not a counting loop over the samples (induction variables %s, guard %s)"
                                 % (fname, ivars, guard))
        if trip != want_trip or any(c_ is None or c_[0] != xname for c_ in samples):
            rep.finding(r3, fname, "range", "the fill loop runs %s times over %s; expected %s times over %s[0], %s[1], ..."
                        % (trip, samples, want_trip, xname, xname), where=m.rel(loc(lp)))
            r3.fail()
        else:
            r3.ok()
        adds = []
        for y in walk(body):
            if y["kind"] == "CompoundAssignOperator" and y.get("opcode") == "+=":
                tgt = deref(kids(y)[0])
                if tgt["kind"] == "ArraySubscriptExpr" and cx.canon(kids(tgt)[0]).endswith("->hbins"):
                    adds.append((tgt, kids(y)[1], y))
        top = [y for y in kids(body)]
        okadd = len(adds) == 1 and any(strip(t, casts=True) is adds[0][2] for t in top)
        if okadd:
            v = deref(adds[0][1])
            if fname.startswith("cmi"):
                okadd = float_value(v) == 1.0
            else:
                okadd = cursor(v) in ((f.params[3]["name"], "index"), (f.params[3]["name"], "pointer")) and \
                    {c_[1] for c_ in samples} == {cursor(v)[1]}
        shown = [(render(a_[0]), render(deref(a_[1]))) for a_ in adds]
        r3.instance("%s: contributions %s" % (fname, shown))
        if not okadd:
            rep.finding(r3, fname, "contribution", "each iteration must add exactly one contribution (%s) to exactly one bin, "
                        "unconditionally; found %s" % (wexpr, shown), where=m.rel(loc(lp)))
            r3.fail()
        else:
            r3.ok()
        # bin assigned on every path
        binvar = None
        if adds:
            bi = strip(kids(adds[0][0])[1], casts=True)
            for _ in range(8):
                if bi["kind"] == "DeclRefExpr" and bi["ref"].get("kind") != "ParmVarDecl" and cx.single_def(bi["ref"]["id"]) is not None \
                        and strip(cx.single_def(bi["ref"]["id"]), casts=True)["kind"] == "DeclRefExpr":
                    bi = strip(cx.single_def(bi["ref"]["id"]), casts=True)
                else:
                    break
            binvar = bi["ref"]["id"] if bi["kind"] == "DeclRefExpr" else None
        chain = [t for t in top if t["kind"] == "IfStmt"]
        def assigns(n):
            return any(y["kind"] == "BinaryOperator" and y.get("opcode") == "=" and
                       strip(kids(y)[0], casts=True)["kind"] == "DeclRefExpr" and strip(kids(y)[0], casts=True)["ref"]["id"] == binvar
                       for y in walk(n))
        def exhaustive(ifn):
            ch = kids(ifn)
            if len(ch) < 3:
                return False
            if not assigns(ch[1]):
                return False
            e = ch[2]
            while e["kind"] == "CompoundStmt" and len(kids(e)) == 1:
                e = kids(e)[0]
            if e["kind"] == "IfStmt":
                return exhaustive(e)
            return assigns(e)
        okbin = binvar is not None and any(exhaustive(c_) for c_ in chain)
        if not okbin:
            rep.finding(r3, fname, "bin-assignment", "the bin index is not assigned on every path of an exhaustive if/else chain",
                        where=m.rel(loc(lp)))
            r3.fail()
        else:
            r3.ok()
    # the time-series histogram passes (count, xa, wa) of the same series
    hp = m.need("cmb_timeseries_histogram_print")
    hx = FuncCtx(m, hp)
    fc = [c for c in walk(hp.body) if c["kind"] == "CallExpr" and callee_ref(c) == "timeseries_histogram_fill"]
    a = [hx.canon(z) for z in kids(fc[0])[2:]] if len(fc) == 1 else None
    p0 = hp.params[0]["name"]
    if a != ["%s->count" % p0, "%s->xa" % p0, "%s->wa" % p0]:
        rep.finding(r3, hp.name, "fill-args", "the time-series histogram is filled from %s" % a, where=m.rel(hp.where))
        r3.fail()
    else:
        r3.ok()

    # R-C18-4 ------------------------------------------------------------
    r4 = rep.rule("R-C18-4", "copies are exact: each array is allocated with the capacity that is carried over and copied "
                  "with all samples in use (count or the whole capacity); count, capacity, minimum and maximum are carried over", floor=3)
    for fname in ("cmb_dataset_copy", "cmb_timeseries_copy"):
        f = m.need(fname)
        cx = FuncCtx(m, f)
        allocs = {}
        for l, r, k, n_ in inv.stores(f):
            rr = strip(r, casts=True) if r is not None else None
            if rr is not None and rr["kind"] == "CallExpr" and callee_ref(rr) in ("cmi_calloc", "cmi_malloc"):
                allocs[cx.canon(l)] = cx.canon(kids(rr)[1])
        copies = {}
        for c in walk(f.body):
            if c["kind"] == "CallExpr" and callee_ref(c) == "cmi_memcpy":
                a_ = [render(z) for z in kids(c)[1:]]
                copies[a_[0]] = (a_[1], cx.canon(kids(c)[3]))
        # a duplicating helper: X = dup(S, N) where dup allocates N elements, copies N elements from S and returns the block
        for l, r, k, n_ in inv.stores(f):
            rr = strip(r, casts=True) if r is not None else None
            if rr is None or rr["kind"] != "CallExpr" or not callee_ref(rr):
                continue
            hf = m.funcs.get(m.resolve(f.unit, callee_ref(rr)))
            if hf is None or hf.body is None or len(hf.params) != len(kids(rr)) - 1:
                continue
            hx = FuncCtx(m, hf)
            hal = [(hx.canon(l2), hx.canon(kids(strip(r2, casts=True))[1])) for l2, r2, k2, n2 in
                   [(d_, kids(d_)[0], "=", d_) for d_ in walk(hf.body) if d_["kind"] == "VarDecl" and kids(d_)]
                   if strip(r2, casts=True)["kind"] == "CallExpr" and callee_ref(strip(r2, casts=True)) in ("cmi_calloc", "cmi_malloc")]
            hal = [(d_["name"], hx.canon(kids(strip(kids(d_)[0], casts=True))[1])) for d_ in walk(hf.body)
                   if d_["kind"] == "VarDecl" and kids(d_) and strip(kids(d_)[0], casts=True)["kind"] == "CallExpr"
                   and callee_ref(strip(kids(d_)[0], casts=True)) in ("cmi_calloc", "cmi_malloc")]
            hcp = [(render(strip(kids(c2)[1], casts=True)), hx.canon(kids(c2)[2]), hx.canon(kids(c2)[3])) for c2 in walk(hf.body)
                   if c2["kind"] == "CallExpr" and callee_ref(c2) == "cmi_memcpy"]
            hret = [render(strip(kids(y)[0], casts=True)) for y in walk(hf.body) if y["kind"] == "ReturnStmt" and kids(y)]
            pnames = [p_["name"] for p_ in hf.params]
            if len(hal) == 1 and len(hcp) == 1 and hret == [hal[0][0]] and hcp[0][0] == hal[0][0] and hal[0][1] in pnames \
                    and hcp[0][1] in pnames:
                amap = {pn: cx.canon(a_) for pn, a_ in zip(pnames, kids(rr)[1:])}
                amap_r = {pn: render(strip(a_, casts=True)) for pn, a_ in zip(pnames, kids(rr)[1:])}
                allocs[cx.canon(l)] = amap[hal[0][1]]
                cnt_txt = hcp[0][2]
                for pn in pnames:
                    cnt_txt = re.sub(r"(?<![\w>.])%s(?!\w)" % re.escape(pn), amap[pn], cnt_txt)
                copies[render(strip(l, casts=True))] = (amap_r[hcp[0][1]], cnt_txt)
        for arr, cnt in allocs.items():
            if not re.fullmatch(r"\*?\w+(->|\.)\w+", arr):
                # the array that receives the allocation is reached through a table or another indirection this rule does not
                # follow: undecided, not a violation
                raise AnalysisBroken("%s: the array allocated at '%s' is not a named member of the target" % (fname, arr[:80]))
            short = arr.split("->")[-1]
            cp = [v for k_, v in copies.items() if k_.endswith("->" + short)]
            r4.instance("%s: %s allocated with %s, copied %s" % (fname, arr, cnt, cp))
            # allocated with the capacity that is carried over (cursize), copied with at least the samples in use
            # (count) and at most what was allocated
            good = len(cp) == 1 and cp[0][0].endswith("->" + short)
            why = "copies %s" % cp
            if good:
                mm = re.fullmatch(r"\((.+) \* sizeof\(.+\)\)", cp[0][1])
                copied = mm.group(1) if mm else None
                cap_ok = re.fullmatch(r"\S+->cursize", cnt) is not None
                cnt_ok = copied is not None and (copied == cnt or re.fullmatch(r"\S+->(count|cursize)", copied) is not None)
                good = cap_ok and cnt_ok
                if not cap_ok:
                    why = "allocates %s elements although the capacity carried over is cursize" % cnt
                elif not cnt_ok:
                    why = "copies %s elements: fewer than the count samples in use, or not a count at all" % copied
            if not good:
                rep.finding(r4, fname, "copy:" + short, "%s allocates %s with %s elements: %s" % (fname, arr, cnt, why),
                            where=m.rel(f.where))
                r4.fail()
            else:
                r4.ok()
    dc = m.need("cmb_dataset_copy")
    dx = FuncCtx(m, dc)
    st = {dx.canon(l): dx.canon(r) for l, r, k, n_ in inv.stores(dc) if r is not None}
    t_, s_ = dc.params[0]["name"], dc.params[1]["name"]
    for fld in ("count", "cursize", "min", "max"):
        if st.get("%s->%s" % (t_, fld)) != "%s->%s" % (s_, fld):
            rep.finding(r4, dc.name, "copy-field:" + fld, "the copy's %s is %s" % (fld, st.get("%s->%s" % (t_, fld))), where=m.rel(dc.where))
            r4.fail()
        else:
            r4.ok()


    # R-C18-5 ------------------------------------------------------------
    r5 = rep.rule("R-C18-5", "one round of sift-down moves the root to the largest of (root, existing children) or stops when "
                  "the root is a largest one, never reads a child beyond the heap, and recomputes the children: decided "
                  "exhaustively over which children exist and all orderings of the three keys (max-heap, hence ascending "
                  "order after extraction)", floor=2)
    for n in ("dataset_heapify", "timeseries_heapify"):
        check_sift(rep, r5, m, funcs[n])

    # R-C18-6 ------------------------------------------------------------
    r6 = rep.rule("R-C18-6", "heapsort skeleton of the three sort routines: the heap is built by sifting every internal node "
                  "from n/2 - 1 down to 0 over the whole array, then for end = n-1 down to 1 the maximum is exchanged to "
                  "'end' and the root is sifted within the first 'end' elements; the only way past the two loops is the "
                  "no-data test", floor=6)
    for n, hp in (("cmb_dataset_sort", "dataset_heapify"), ("cmb_timeseries_sort_x", "timeseries_heapify"),
                  ("cmb_timeseries_sort_t", "timeseries_heapify")):
        f = funcs[n]
        cx = FuncCtx(m, f)
        loops = [x for x in walk(f.body) if x["kind"] in ("ForStmt", "WhileStmt")]
        hcalls = [c for c in walk(f.body) if c["kind"] == "CallExpr" and callee_ref(c) == hp]
        if len(loops) != 2 or len(hcalls) != 2:
            raise AnalysisBroken("%s: expected a build loop and an extraction loop with one sift call each" % n)
        build, extract = loops
        bshape, eshape = loop_shape(cx, f, build), loop_shape(cx, f, extract)
        if bshape is None or eshape is None:
            raise AnalysisBroken("%s: the build / extraction loops are not counting loops that step once at the end of each round" % n)
        cnt = None
        # element count: the variable/expr passed as heap size in the build loop
        bc = [c for c in hcalls if any(y is c for y in walk(build))]
        ec = [c for c in hcalls if any(y is c for y in walk(extract))]
        if len(bc) != 1 or len(ec) != 1:
            raise AnalysisBroken("%s: sift calls are not one per loop" % n)
        bc, ec = bc[0], ec[0]
        size_b = cx.canon(kids(bc)[1])
        r6.instance("%s: build sifts within %s, extraction within %s" % (n, size_b, cx.canon(kids(ec)[1])))
        if not size_b.endswith("->count"):
            rep.finding(r6, n, "build:size", "%s builds the heap over %s elements, not the sample count" % (n, size_b), where=m.rel(loc(bc)))
            r6.fail()
        else:
            r6.ok()
        # build loop: var from n/2 - 1 (or higher) while >= 0, decreasing; sift(root = var)
        bv = [bshape["decl"]]
        binit = _norm(re.sub(r"\(int64_t\)|\(long\)", "", cx.canon(kids(bv[0])[0]))) if bv and kids(bv[0]) else None
        sz = re.sub(r"[\s()]", "", size_b)
        bcond = bshape["cond"]
        binc = bshape["inc"]
        vname = bv[0]["name"] if bv else "?"
        signed = bv and "int64_t" in (bv[0].get("type") or "") and "uint" not in (bv[0].get("type") or "")
        # the first node sifted must be at least the last internal node n/2 - 1 and a valid index, for both parities
        is_cnt = lambda n_: n_["kind"] == "MemberExpr" and n_.get("name") == "count"
        start_ok, start_known, start_desc = True, True, []
        for parity in (0, 1):
            sp = ev_len(cx, kids(bv[0])[0], is_cnt, parity) if bv and kids(bv[0]) else None
            if sp is None:
                start_known = False
                break
            sp = sp + Poly.const(bshape.get("start_adjust", 0))
            kf = Facts().add_le0(Poly.sym("k").scale(-1), "k >= 0")
            kf = kf.add_le0(Poly.const(1) - (Poly.sym("k").scale(2) + Poly.const(parity)), "n >= 1")
            last_internal = Poly.sym("k") - Poly.const(1)          # floor(n/2) - 1 for n = 2k and n = 2k + 1
            okp = kf.proves_le0(last_internal - sp) and kf.proves_le0(sp - (Poly.sym("k").scale(2) + Poly.const(parity) - Poly.const(1)))
            start_desc.append("%s n: starts at %s, last internal node %s" % ("even" if parity == 0 else "odd", sp.show(), last_internal.show()))
            start_ok = start_ok and okp
        if not start_known:
            start_ok = binit in ("%s/2-1" % sz, "%s/2" % sz, "%s-1" % sz)
        cond_ok = bcond == "%s>=0" % vname and (signed or bshape.get("test_before_step"))
        if bshape.get("start_adjust") and binit is not None:
            binit = "%s%+d" % (binit, bshape["start_adjust"])
        inc_ok = binc in (vname + "--", "--" + vname)
        root_ok = cx.canon(kids(bc)[-1]) in (vname, "(uint64_t)%s" % vname) or render(strip(kids(bc)[-1], casts=True)) == vname
        rep.sample({"rule": "R-C18-6", "function": n, "build": [binit, bcond, binc], "size": size_b})
        if not (start_ok and cond_ok and inc_ok and root_ok):
            known_bad = (start_known and not start_ok) or (binit is not None and re.fullmatch(r"%s/\d+-\d+|%s/\d+" % (re.escape(sz), re.escape(sz)), binit) is not None and not start_ok) \
                or bcond in ("%s>0" % vname, "%s>=1" % vname) or not root_ok
            if not known_bad and not (start_ok and inc_ok):
                raise AnalysisBroken("%s: build loop '%s; %s; %s' not understood" % (n, binit, bcond, binc))
            rep.finding(r6, n, "build:range", "%s builds the heap with '%s = %s; %s; %s' sifting at '%s': every internal node "
                        "from n/2 - 1 down to and including 0 has to be sifted (%s)" % (n, vname, binit, bcond, binc, render(kids(bc)[-1]), "; ".join(start_desc)),
                        where=m.rel(loc(build)))
            r6.fail()
        else:
            r6.ok()
        # extraction loop: end from n-1 while > 0 decreasing; exchange [0] <-> [end] first, then sift(end, ..., 0)
        evs = [eshape["decl"]]
        ename = evs[0]["name"] if evs else "?"
        einit = _norm(cx.canon(kids(evs[0])[0])) if evs and kids(evs[0]) else None
        econd = eshape["cond"]
        einc = eshape["inc"]
        ok_range = einit == "%s-1" % sz and econd in ("%s>0" % ename, "%s>=1" % ename, "%s!=0" % ename) and einc in (ename + "--", "--" + ename)
        if not ok_range:
            rep.finding(r6, n, "extract:range", "%s extracts with '%s = %s; %s; %s': the maximum has to be moved to every position "
                        "from n - 1 down to 1" % (n, ename, einit, econd, einc), where=m.rel(loc(extract)))
            r6.fail()
        else:
            r6.ok()
        body = eshape["body"]
        order = []
        for st_ in body:
            c = strip(st_, casts=True)
            if c["kind"] == "CallExpr" and callee_ref(c) == "cmi_dataset_swap":
                a_ = [_norm(render(z)) for z in kids(c)[1:]]
                idx = sorted(re.sub(r"^.*\[(.*)\]$", r"\1", x) for x in a_)
                order.append(("swap", tuple(idx)))
            elif c["kind"] == "CallExpr" and callee_ref(c) == hp:
                order.append(("sift", (_norm(render(kids(c)[1])), _norm(render(kids(c)[-1])))))
        swaps_first = [o for o in order if o[0] == "swap"]
        good = bool(swaps_first) and all(o[1] == tuple(sorted(("0", ename))) for o in swaps_first) and \
            order and order[-1] == ("sift", (ename, "0")) and all(o[0] == "swap" for o in order[:-1])
        r6.instance("%s: extraction step %s" % (n, order))
        if not good:
            rep.finding(r6, n, "extract:step", "%s: extraction step is %s; expected exchange of [0] and [%s] followed by sifting the "
                        "root within the first %s elements" % (n, order, ename, ename), where=m.rel(loc(extract)))
            r6.fail()
        else:
            r6.ok()
        # every way out of the function that skips the loops is guarded by 'no data'
        for x in walk(f.body):
            if x["kind"] in ("ReturnStmt", "GotoStmt", "BreakStmt", "ContinueStmt"):
                chain = [a_ for a_ in inv.enclosing_chain(f, x) if a_["kind"] == "IfStmt"]
                conds = [cx.canon(kids(a_)[0]) for a_ in chain]
                trivial = any(re.fullmatch(r"\(\S+->(xa|ta) == NULL\)|\(\S+->count (<|<=|==) [012]\)", c_) and
                              not re.search(r"count < [3-9]|count <= [2-9]|count == [12]", c_) for c_ in conds)
                if x["kind"] == "ReturnStmt" and x is kids(f.body)[-1]:
                    continue
                keyarr = cx.canon(kids(bc)[2])
                if not trivial and "cmi_dataset_is_sorted(%s, %s)" % (size_b, keyarr) in conds:
                    # shortcut on data that are already in order: relies on the whole-array test
                    isf = m.need("cmi_dataset_is_sorted")
                    nn, aa = isf.params[0]["name"], isf.params[1]["name"]
                    fl = [y for y in walk(isf.body) if y["kind"] == "ForStmt"]
                    okis = False
                    if len(fl) == 1:
                        fk = kids(fl[0])
                        v_ = [y for y in walk(fk[0]) if y["kind"] == "VarDecl"]
                        if v_ and kids(v_[0]):
                            vn = v_[0]["name"]
                            tests = [_norm(render(kids(y)[0])) for y in walk(fk[4]) if y["kind"] == "IfStmt" and
                                     any(z["kind"] == "ReturnStmt" and _norm(render(kids(z)[0])) in ("false", "0") for z in walk(kids(y)[1]))]
                            okis = _norm(render(kids(v_[0])[0])) == "0" and _norm(render(fk[2])) == "%s<%s-1" % (vn, nn) and \
                                tests in (["%s[%s]>%s[%s+1]" % (aa, vn, aa, vn)], ["%s[%s+1]<%s[%s]" % (aa, vn, aa, vn)])
                    if not okis:
                        raise AnalysisBroken("%s takes a shortcut through cmi_dataset_is_sorted, whose loop is not understood" % n)
                    trivial = True
                if not trivial:
                    rep.finding(r6, n, "early-exit", "%s leaves at line %s under %s without running the heapsort: only the "
                                "no-data test may skip it (a shortcut has to establish that the whole array is in order)"
                                % (n, x.get("line"), conds or "no condition"), where=m.rel(loc(x)))
                    r6.fail()
                else:
                    r6.ok()
        # the two loops are only guarded by the no-data test
        for lp_ in (build, extract):
            chain = [a_ for a_ in inv.enclosing_chain(f, lp_) if a_["kind"] in ("ForStmt", "WhileStmt")]
            # (a shortcut 'already in order' is judged by the early-exit clause above)
            conds = [cd for cd in inv.dominating_conditions(cx, f, lp_) if not cd.startswith("!cmi_dataset_is_sorted(")] + \
                ["loop" for a_ in chain]
            # only "there are data" may guard a phase: an array pointer is set, or the count is at least 0, 1 or 2
            okg = all(re.fullmatch(r"\(\S+->(xa|ta) != NULL\)|!\(\S+->(xa|ta) == NULL\)|\(\S+->count (>|>=) [012]\)|"
                                   r"!\(\S+->count (<|<=|==) [012]\)|\(\S+->count != 0\)", c_) and
                      not re.fullmatch(r"\(\S+->count > 2\)|!\(\S+->count <= 2\)|!\(\S+->count == [12]\)", c_) for c_ in conds)
            if not okg:
                rep.finding(r6, n, "guarded-phase", "%s runs a heapsort phase only under %s" % (n, conds), where=m.rel(loc(lp_)))
                r6.fail()
            else:
                r6.ok()


    # R-C18-7 ------------------------------------------------------------
    r7 = rep.rule("R-C18-7", "autocorrelation: every coefficient stored is invariant under a shift of the data (translation "
                  "typing: built from differences of samples and their running mean only) and has degree 0 under scaling "
                  "(homogeneity typing), lag zero is the literal one, no test compares a data-dependent quantity with a "
                  "constant of another shift class or degree, and the partial autocorrelation touches the data only "
                  "through the autocorrelation", floor=3)
    from fractions import Fraction
    from ..engines.shift import ShiftEval, I as SH_I, E as SH_E, Z as SH_Z
    from ..engines.deg import DegEval, ANY
    acf = m.need("cmb_dataset_ACF")
    arr = acf.params[2]["name"]
    se = ShiftEval(m, acf, {"xa": SH_E, "count": SH_I, "min": SH_E, "max": SH_E, "cursize": SH_I}, {acf.params[1]["name"]: SH_I}).run()
    de = DegEval(m, acf, {"xa": Fraction(1), "count": Fraction(0), "min": Fraction(1), "max": Fraction(1)},
                 {acf.params[1]["name"]: Fraction(0)}).run()
    sst = [(t, c, n_) for t, b, c, n_ in se.stores if b == arr + "[]"]
    dst = [(t, d, n_) for t, b, d, n_ in de.stores if b == arr + "[]"]
    r7.instance("ACF: %d stores typed for shift %s" % (len(sst), [(t, str(c)) for t, c, n_ in sst]))
    r7.instance("ACF: %d stores typed for scale %s" % (len(dst), [(t, str(d)) for t, d, n_ in dst]))
    rep.sample({"rule": "R-C18-7", "shift_classes": [(t, str(c)) for t, c, n_ in sst], "scale_degrees": [(t, str(d)) for t, d, n_ in dst],
                "comparisons_typed": se.checked + de.checked})
    if not sst or not dst:
        raise AnalysisBroken("cmb_dataset_ACF stores no coefficients")
    for t, c, n_ in sst:
        if c not in (SH_I, SH_Z):
            rep.finding(r7, acf.name, "acf:shift", "%s is of shift class %s: it is not built from differences of samples and "
                        "their mean alone (e.g. sums of raw squares), so it changes - through cancellation - when a constant "
                        "that is large compared with the spread is added to the data%s"
                        % (t, c, ("; " + "; ".join(se.notes)) if se.notes else ""), where=m.rel(loc(n_)))
            r7.fail()
        else:
            r7.ok()
    for t, d, n_ in dst:
        if d not in (ANY, Fraction(0)):
            rep.finding(r7, acf.name, "acf:scale", "%s has degree %s in the data: it changes when the data are multiplied by a "
                        "positive factor" % (t, d), where=m.rel(loc(n_)))
            r7.fail()
        else:
            r7.ok()
    for node, msg in se.problems:
        rep.finding(r7, acf.name, "acf:shift-test", msg, where=m.rel(loc(node)))
        r7.fail()
    for node, msg in de.problems:
        rep.finding(r7, acf.name, "acf:scale-test", "%s: the outcome changes when the data are multiplied by a positive factor "
                    "(an absolute threshold on a quantity that scales with the data)" % msg, where=m.rel(loc(node)))
        r7.fail()
    for _ in range(se.checked + de.checked - len(se.problems) - len(de.problems)):
        r7.ok()
    zero = [(t, n_) for t, b, c, n_ in se.stores if b == arr + "[]" and re.fullmatch(r"%s\[0u?\]" % arr, t)]
    lag0 = [strip(kids(n_)[1], casts=True) for t, n_ in zero]
    if len(lag0) != 1 or float_value(lag0[0]) != 1.0:
        rep.finding(r7, acf.name, "acf:lag0", "the coefficient at lag zero is not the literal 1", where=m.rel(acf.where))
        r7.fail()
    else:
        r7.ok()
    pacf = m.need("cmb_dataset_PACF")
    raw = [x for x in walk(pacf.body) if x["kind"] == "MemberExpr" and x.get("name") in ("xa", "min", "max")
           and not is_assert_stmt_anc(pacf, x)]
    viaacf = [c for c in walk(pacf.body) if c["kind"] == "CallExpr" and callee_ref(c) == "cmb_dataset_ACF"]
    r7.instance("PACF: %d direct uses of the samples, %d call(s) of the ACF" % (len(raw), len(viaacf)))
    if raw or not viaacf:
        rep.finding(r7, pacf.name, "pacf:raw-data", "the partial autocorrelation reads the samples directly (%s)" %
                    [render(x) for x in raw][:3], where=m.rel(pacf.where))
        r7.fail()
    else:
        r7.ok()


    # R-C18-8 ------------------------------------------------------------
    r8 = rep.rule("R-C18-8", "order statistics found by a search have no placeholder result: a result variable that is only "
                  "assigned under a test inside a search loop starts from a sample of the data (so that 'nothing found' - one "
                  "sample, or the first sample holding more than the sought share of the weight - still yields a value "
                  "inside the data range), not from a literal", floor=4)
    for f in m.funcs.values():
        if (m.rel(f.file) or "") not in ("src/cmb_dataset.c", "src/cmb_timeseries.c"):
            continue
        cx = FuncCtx(m, f)
        for d in walk(f.body):
            if d["kind"] == "VarDecl" and re.fullmatch(r"double ?\[\d*\]", d.get("type") or "") and kids(d) and \
                    kids(d)[0]["kind"] == "InitListExpr":
                # a table of results, one per level searched
                ws = [(k_, n_) for l, r_, k_, n_ in inv.stores(f) if strip(l, casts=True)["kind"] == "ArraySubscriptExpr" and
                      strip(kids(strip(l, casts=True))[0], casts=True).get("ref", {}).get("id") == d["id"]]
                if ws and all(k_ == "=" and inv.in_loop(f, n_) and any(a["kind"] in ("IfStmt", "WhileStmt") for a in inv.enclosing_chain(f, n_))
                              for k_, n_ in ws):
                    for i_, e_ in enumerate(kids(kids(d)[0])):
                        ini = cx.resolve(e_)
                        r8.instance("%s: %s[%d] starts from %s" % (f.name, d["name"], i_, render(ini)))
                        if ini["kind"] in ("FloatingLiteral", "IntegerLiteral", "ImplicitValueInitExpr"):
                            rep.finding(r8, f.name, "placeholder:" + d["name"], "%s: '%s[%d]' starts from the literal %s and is only "
                                        "assigned when the search loop finds its interval; otherwise the literal is reported, a value "
                                        "outside the data range" % (f.name, d["name"], i_, render(ini)), where=m.rel(loc(d)))
                            r8.fail()
                        else:
                            r8.ok()
                continue
            if d["kind"] != "VarDecl" or (d.get("type") or "") != "double" or not kids(d):
                continue
            ws = [(k_, n_) for l, r_, k_, n_ in inv.stores(f) if strip(l, casts=True).get("ref", {}).get("id") == d["id"]]
            if not ws or any(k_ != "=" for k_, n_ in ws):
                continue
            guarded_in_loop = all(inv.in_loop(f, n_) and any(a["kind"] == "IfStmt" for a in inv.enclosing_chain(f, n_))
                                  for k_, n_ in ws)
            if not guarded_in_loop:
                continue
            used_later = any(y["kind"] == "DeclRefExpr" and y["ref"]["id"] == d["id"] and not inv.in_loop(f, y)
                             for y in walk(f.body))
            if not used_later:
                continue
            ini = strip(kids(d)[0], casts=True)
            r8.instance("%s: %s starts from %s" % (f.name, d["name"], render(ini)))
            if ini["kind"] in ("FloatingLiteral", "IntegerLiteral"):
                rep.finding(r8, f.name, "placeholder:" + d["name"], "%s: '%s' starts from the literal %s and is only assigned when "
                            "the search loop finds its interval; when it does not (a single sample, or the first sample already "
                            "holds more than the sought share of the total weight) the literal is reported, a value outside "
                            "the data range" % (f.name, d["name"], render(ini)), where=m.rel(loc(d)))
                r8.fail()
            else:
                r8.ok()

    # R-C18-9 ------------------------------------------------------------
    r9 = rep.rule("R-C18-9", "the array-median helper indexes inside [0, n-1] for every n >= 1 of either parity, and every call "
                  "passes a length that is provably >= 1 (lengths derived from the sample count by halving are evaluated per "
                  "parity; obligations decided by Fourier-Motzkin elimination)", floor=5)
    dm = m.need("data_array_median")
    dmx = FuncCtx(m, dm)
    nn, vv = dm.params[0]["name"], dm.params[1]["name"]

    # inside the helper
    for parity in (0, 1):
        base = Facts().add_le0(Poly.sym("k").scale(-1), "k >= 0")
        n_poly = Poly.sym("k").scale(2) + Poly.const(parity)
        base = base.add_le0(Poly.const(1) - n_poly, "n >= 1")
        for x in walk(dm.body):
            if x["kind"] != "ArraySubscriptExpr" or render(strip(kids(x)[0], casts=True)) != vv or is_assert_stmt_anc(dm, x):
                continue
            feasible = True
            for cd in inv.dominating_conditions(dmx, dm, x):
                neg = cd.startswith("!")
                c_ = _norm(cd[1:] if neg else cd)
                if c_ in ("%s%%2==0" % nn, "%s&1==0" % nn):
                    even = True
                elif c_ in ("%s%%2!=0" % nn, "%s%%2==1" % nn, "%s%%2" % nn, "%s&1!=0" % nn, "%s&1==1" % nn, "%s&1" % nn):
                    even = False
                else:
                    raise AnalysisBroken("data_array_median: branch condition %s not understood" % c_)
                if neg:
                    even = not even
                feasible = feasible and ((parity == 0) == even)
            if not feasible:
                continue
            idx = ev_len(dmx, kids(x)[1], lambda n_: n_["kind"] == "DeclRefExpr" and n_["ref"]["name"] == nn, parity)
            if idx is None:
                raise AnalysisBroken("data_array_median: index %s not understood" % render(kids(x)[1]))
            lo = base.proves_le0(idx.scale(-1))
            hi = base.proves_le0(idx + Poly.const(1) - n_poly)
            r9.instance("helper, n %s: %s[%s] = object %s" % ("even" if parity == 0 else "odd", vv, render(kids(x)[1]), idx.show()))
            if not (lo and hi):
                rep.finding(r9, dm.name, "median:index", "%s[%s] is outside [0, n-1] for some %s n >= 1" %
                            (vv, render(kids(x)[1]), "even" if parity == 0 else "odd"), where=m.rel(loc(x)))
                r9.fail()
            else:
                r9.ok()
    # call sites
    for f, c in inv.calls_to(m, "data_array_median"):
        cx = FuncCtx(m, f)
        is_count = lambda n_: n_["kind"] == "MemberExpr" and n_.get("name") == "count"
        chain = [a for a in inv.enclosing_chain(f, c) if a["kind"] == "IfStmt"]
        dcn = inv.dominating_cond_nodes(f, c)
        nodata_guard = any(cd in inv.dominating_conditions(cx, f, c) for cd in
                           [t_ % x_ for x_ in {re.sub(r"(->|\.)count$", "", cx.canon(kids(c)[1]))} | {f.params[0]["name"]} | {"dsp", "tsp"}
                            for t_ in ("(%s->xa != NULL)", "!(%s->xa == NULL)", "(%s.xa != NULL)", "!(%s.xa == NULL)")]) or \
            any(re.fullmatch(r"\(\S+(->|\.)xa != NULL\)|!\(\S+(->|\.)xa == NULL\)", cd) for cd in inv.dominating_conditions(cx, f, c))
        proved = True
        detail = []
        for parity in (0, 1):
            feasible = True
            facts = Facts().add_le0(Poly.sym("k").scale(-1), "k >= 0")
            if nodata_guard:
                facts = facts.add_le0(Poly.const(1) - (Poly.sym("k").scale(2) + Poly.const(parity)), "count >= 1 (there are data)")
            for cn0, truth in dcn:
                cn = cx.resolve(cn0)
                c_ = _norm(cx.canon(cn))
                if re.fullmatch(r"\S+(->|\.)count%2==0|\S+(->|\.)count&1==0", c_) or re.fullmatch(r"\w+%2==0|\w+&1==0", c_) and \
                        ev_len(cx, kids(strip(kids(cn)[0], casts=True))[0], is_count, parity) is not None:
                    feasible = feasible and ((parity == 0) == truth)
                    continue
                if re.fullmatch(r"\S+(->|\.)count(%2|&1)(!=0|==1)?", c_):
                    feasible = feasible and ((parity == 1) == truth)
                    continue
                # length guards such as (lhsz > 0) / (count > 1) / (lhsz == 0)
                if cn["kind"] == "BinaryOperator" and cn.get("opcode") in (">", ">=", "<", "<=", "==", "!="):
                    l_, r__ = ev_len(cx, kids(cn)[0], is_count, parity), ev_len(cx, kids(cn)[1], is_count, parity)
                    if l_ is not None and r__ is not None:
                        op = cn["opcode"]
                        if not truth:
                            op = {"<": ">=", "<=": ">", ">": "<=", ">=": "<", "==": "!=", "!=": "=="}[op]
                        d_ = l_ - r__
                        if op == ">":
                            facts = facts.add_le0(Poly.const(1) - d_, render(cn))
                        elif op == ">=":
                            facts = facts.add_le0(d_.scale(-1), render(cn))
                        elif op == "<":
                            facts = facts.add_le0(d_ + Poly.const(1), "not " + render(cn))
                        elif op == "<=":
                            facts = facts.add_le0(d_, "not " + render(cn))
                        elif op == "!=" and r__.is_const() and r__.get((), 0) == 0:
                            facts = facts.add_le0(Poly.const(1) - l_, render(cn))       # unsigned and not 0
                        elif op == "==":
                            facts = facts.add_le0(d_, render(cn)).add_le0(d_.scale(-1), render(cn))
            if not feasible or not facts.feasible():
                continue
            ln = ev_len(cx, kids(c)[1], is_count, parity)
            if ln is None:
                raise AnalysisBroken("%s: length argument %s of data_array_median not understood" % (f.name, render(kids(c)[1])))
            okp = facts.proves_le0(Poly.const(1) - ln)
            detail.append("%s count: length %s %s" % ("even" if parity == 0 else "odd", ln.show(), "ok" if okp else "can be 0"))
            proved = proved and okp
        r9.instance("%s: data_array_median(%s, ...): %s" % (f.name, render(kids(c)[1]), "; ".join(detail)))
        rep.sample({"rule": "R-C18-9", "function": f.name, "length": render(kids(c)[1]), "cases": detail})
        if not proved:
            rep.finding(r9, f.name, "median:empty-half:" + _norm(render(kids(c)[1])), "%s calls data_array_median(%s, ...) with a "
                        "length that can be 0 (%s): the helper then reads element n/2 - 1 = -1 (as unsigned: far outside the "
                        "array). Happens for a dataset with one sample." % (f.name, render(kids(c)[1]), "; ".join(detail)),
                        where=m.rel(loc(c)))
            r9.fail()
        else:
            r9.ok()

    # R-C18-10 -----------------------------------------------------------
    r10 = rep.rule("R-C18-10", "the histogram report scales its bars by the largest bin, which is zero when every bin is empty "
                   "(a time series whose samples all have zero duration): every division by that scale - in the printer or "
                   "in a helper it hands the scale to - is under a test that the divisor is positive, in the helper or around "
                   "every call of it; otherwise 0/0 = NaN becomes the bar length", floor=1)
    pr = m.need("cmi_dataset_histogram_print")

    def pos_tests(c):
        return ("(%s > 0)" % c, "(%s > 0.0)" % c, "!(%s <= 0)" % c, "!(%s <= 0.0)" % c, "(0 < %s)" % c, "(0.0 < %s)" % c)

    def nonzero_const(cx_, n_):
        n_ = cx_.resolve(n_)
        v = float_value(n_) if n_["kind"] in ("IntegerLiteral", "FloatingLiteral") else None
        return v is not None and v != 0

    def guarded(cx_, f_, node, expr, depth=0):
        """the value of `expr` is known positive where `node` executes"""
        conds = inv.dominating_conditions(cx_, f_, node)
        e0 = strip(expr, casts=True)
        names = {render(e0), cx_.canon(e0)}
        if any(t in conds for nm_ in names for t in pos_tests(nm_)):
            return True
        # a scale computed as (positive quantity) / (non-zero constant) or * constant
        d = cx_.resolve(e0)
        if d is not e0 and d["kind"] == "BinaryOperator" and d.get("opcode") in ("/", "*") and nonzero_const(cx_, kids(d)[1]) and depth < 4:
            return guarded(cx_, f_, node, kids(d)[0], depth + 1)
        return False

    seen = set()
    work = [pr]
    while work:
        f = work.pop()
        if f.name in seen:
            continue
        seen.add(f.name)
        cx = FuncCtx(m, f)
        for x in walk(f.body):
            if x["kind"] == "CallExpr":
                cal = m.func_named(callee_ref(x) or "")
                if cal and cal[0].static and cal[0].name not in seen and any("double" in (p_.get("type") or "") for p_ in cal[0].params):
                    work.append(cal[0])
            if x["kind"] != "BinaryOperator" or x.get("opcode") != "/":
                continue
            dv = kids(x)[1]
            if nonzero_const(cx, dv):
                continue
            r10.instance("%s: / %s" % (f.name, render(dv)))
            ok = guarded(cx, f, x, dv)
            d0 = strip(dv, casts=True)
            if not ok and d0["kind"] == "DeclRefExpr" and d0["ref"].get("kind") == "ParmVarDecl" and f is not pr:
                # guarded around every call
                idx = [i for i, p_ in enumerate(f.params) if p_["name"] == d0["ref"]["name"]]
                sites = inv.calls_to(m, f.name)
                ok = bool(sites) and bool(idx)
                for g, c_ in sites:
                    gx = FuncCtx(m, g)
                    if not guarded(gx, g, c_, kids(c_)[1 + idx[0]]):
                        ok = False
            if ok:
                r10.ok()
            else:
                rep.finding(r10, f.name, "bar:zero-scale", "%s divides by '%s' without a test that it is positive, here or around "
                            "the calls: with every bin empty (all durations zero) the largest bin and so the scale are 0, the "
                            "quotient is NaN, and its conversion to an integer makes the bar loop print without end"
                            % (f.name, render(dv)), where=m.rel(loc(x)))
                r10.fail()

    # R-C18-11 -----------------------------------------------------------
    r11 = rep.rule("R-C18-11", "the duration-weighted median is found by a search over the running weight sums: the total is the "
                   "sum of all weights, the median's threshold is exactly half of it (quartiles: a quarter / three quarters), "
                   "and the weights decide WHICH sample is reported but do not enter its value - a value that moves between "
                   "two samples in proportion to the weights lies strictly between them and then has more than half of the "
                   "weight on one side", floor=4)
    for fname, want_shares in (("cmb_timeseries_median", [0.5]), ("cmb_timeseries_fivenum_print", [0.25, 0.5, 0.75])):
        f = m.need(fname)
        cx = FuncCtx(m, f)
        # weight-derived variables (by name of the root variable)
        tainted = set()

        def mentions_weight(n_):
            for y in walk(n_):
                if y["kind"] == "MemberExpr" and y.get("name") == "wa":
                    return True
                if y["kind"] == "DeclRefExpr" and y["ref"]["id"] in tainted:
                    return True
            return False
        decls = {d["id"]: d for d in walk(f.body) if d["kind"] == "VarDecl"}

        def root_ref(n_):
            n_ = strip(n_, casts=True)
            while n_["kind"] in ("ArraySubscriptExpr", "MemberExpr", "UnaryOperator") or \
                    (n_["kind"] == "BinaryOperator" and n_.get("opcode") in ("+", "-")):
                n_ = strip(kids(n_)[0], casts=True)
            return n_ if n_["kind"] == "DeclRefExpr" else None
        changed = True
        while changed:
            changed = False
            for d in walk(f.body):
                if d["kind"] == "VarDecl" and kids(d) and d["id"] not in tainted and mentions_weight(kids(d)[0]):
                    tainted.add(d["id"])
                    changed = True
            # a pointer local that is written through taints the array it was pointed at
            for tid in list(tainted):
                d = decls.get(tid)
                if d is not None and "*" in (d.get("type") or "") and kids(d):
                    q = root_ref(kids(d)[0])
                    if q is not None and q["ref"]["id"] not in tainted and q["ref"].get("kind") != "ParmVarDecl":
                        tainted.add(q["ref"]["id"])
                        changed = True
            for l, r_, k_, n_ in inv.stores(f):
                if r_ is None or not mentions_weight(r_):
                    continue
                root = strip(l, casts=True)
                while root["kind"] in ("ArraySubscriptExpr", "MemberExpr", "UnaryOperator"):
                    root = strip(kids(root)[0], casts=True)
                if root["kind"] == "DeclRefExpr" and root["ref"]["id"] not in tainted:
                    tainted.add(root["ref"]["id"])
                    changed = True
        # the total: a scalar accumulated with += of wa[i] (or *p, p walking over wa) in a loop over all samples
        totals = {}
        for lp in [x for x in walk(f.body) if x["kind"] in ("ForStmt", "WhileStmt")]:
            ivars, guard = inv.induction_vars(cx, f, lp)
            trip = inv.trip_count(ivars, guard)
            for y in walk(kids(lp)[-1]):
                if y["kind"] == "CompoundAssignOperator" and y.get("opcode") == "+=":
                    tg, src = strip(kids(y)[0], casts=True), strip(kids(y)[1], casts=True)
                    if tg["kind"] != "DeclRefExpr":
                        continue
                    whole = None
                    if src["kind"] == "ArraySubscriptExpr" and cx.canon(kids(src)[0]).endswith(("->wa", ".wa")):
                        ix = strip(kids(src)[1], casts=True)
                        whole = trip is not None and ix["kind"] == "DeclRefExpr" and ivars.get(ix["ref"]["name"]) == ("0", 1)
                    elif src["kind"] == "UnaryOperator" and src.get("opcode") == "*":
                        q = strip(kids(src)[0], casts=True)
                        if q["kind"] == "UnaryOperator" and q.get("opcode") == "++" and q.get("isPostfix"):
                            q = strip(kids(q)[0], casts=True)          # *p++ reads the element p is at, then steps
                        if q["kind"] == "DeclRefExpr" and q["ref"]["name"] in ivars and ivars[q["ref"]["name"]][0].endswith(("->wa", ".wa")):
                            whole = trip is not None and ivars[q["ref"]["name"]][1] == 1
                    if whole is not None:
                        totals[tg["ref"]["name"]] = (trip, whole, y)
        for nm, (trip, whole, y) in totals.items():
            r11.instance("%s: total weight %s summed over %s round(s)" % (fname, nm, trip))
            if not whole or not ((trip or "").endswith("count") or (trip or "").startswith("cmb_timeseries_copy(")):
                rep.finding(r11, fname, "median:total", "%s sums the weights over %s round(s) from a cursor that is not 0,1,2,...: the "
                            "total must cover every sample of the sorted copy, whose zero-weight closing sample can be anywhere"
                            % (fname, trip), where=m.rel(loc(y)))
                r11.fail()
            else:
                r11.ok()
        if not totals:
            raise AnalysisBroken("%s: no accumulation of the weights found" % fname)

        # the searches: result = ... under (running[i] <= T && running[i+1] > T), possibly through boolean temporaries
        def cond_nodes(node, depth=0):
            out = []
            chain = inv.enclosing_chain(f, node) + [node]
            for i_, anc in enumerate(chain[:-1]):
                if anc["kind"] == "IfStmt" and chain[i_ + 1] is not kids(anc)[0]:
                    out.append(kids(anc)[0])
                if anc["kind"] == "WhileStmt" and chain[i_ + 1] is kids(anc)[1]:
                    out.append(kids(anc)[0])
                if anc["kind"] == "ForStmt" and chain[i_ + 1] is kids(anc)[4] and kids(anc)[2]["kind"] != "Null":
                    out.append(kids(anc)[2])
            res = []
            for c_ in out:
                res.append(c_)
                for y in walk(c_):
                    if y["kind"] == "DeclRefExpr" and "[" not in (y.get("type") or "") and depth < 4 and \
                            (y.get("type") or "") in ("bool", "_Bool", "int"):
                        for l, r_, k_, n_ in inv.stores(f):
                            l0 = strip(l, casts=True)
                            if l0["kind"] == "DeclRefExpr" and l0["ref"]["id"] == y["ref"]["id"] and r_ is not None:
                                res.append(r_)
                                res.extend(cond_nodes(n_, depth + 1))
            return res

        def parse_share(tc):
            mm = re.fullmatch(r"\((\d*\.?\d+) \* (\w+)\)|\((\w+) \* (\d*\.?\d+)\)|\((\w+) / (\d*\.?\d+)\)", tc)
            if not mm:
                raise AnalysisBroken("%s: threshold %s of the weighted search is not a share of the total" % (fname, tc))
            if mm.group(1):
                share, base = float(mm.group(1)), mm.group(2)
            elif mm.group(3):
                share, base = float(mm.group(4)), mm.group(3)
            else:
                share, base = 1.0 / float(mm.group(6)), mm.group(5)
            if base not in totals:
                raise AnalysisBroken("%s: threshold %s is not taken from the total weight" % (fname, tc))
            return share

        def thresholds(cn):
            """thresholds the running sums are compared with: ('scalar', canonical text) or ('array', decl id, index variable id)"""
            out = set()
            for y in walk(cn):
                if y["kind"] == "BinaryOperator" and y.get("opcode") in ("<", "<=", ">", ">="):
                    a_, b_ = strip(kids(y)[0], casts=True), strip(kids(y)[1], casts=True)
                    for u, v in ((a_, b_), (b_, a_)):
                        if not (u["kind"] in ("ArraySubscriptExpr", "UnaryOperator") and mentions_weight(u)):
                            continue
                        if v["kind"] == "DeclRefExpr" and v["ref"]["id"] in tainted:
                            out.add(("scalar", cx.canon(v)))
                        elif v["kind"] == "ArraySubscriptExpr" and mentions_weight(v):
                            ba, ix_ = strip(kids(v)[0], casts=True), strip(kids(v)[1], casts=True)
                            d_ = decls.get(ba["ref"]["id"]) if ba["kind"] == "DeclRefExpr" else None
                            if d_ is not None and kids(d_) and kids(d_)[0]["kind"] == "InitListExpr" and ix_["kind"] == "DeclRefExpr" \
                                    and not any(ba["ref"]["id"] == strip(kids(u_)[0], casts=True).get("ref", {}).get("id")
                                                for u_ in [u] if u["kind"] == "ArraySubscriptExpr"):
                                out.add(("array", d_["id"], ix_["ref"]["id"]))
            return out
        shares = []
        level_cursors = {}
        for l, r_, k_, n_ in inv.stores(f):
            l0 = strip(l, casts=True)
            if r_ is None or k_ != "=" or not inv.in_loop(f, n_) or (l0.get("type") or "") != "double":
                continue
            if l0["kind"] not in ("DeclRefExpr", "ArraySubscriptExpr"):
                continue
            ths = set()
            for cn in cond_nodes(n_):
                ths |= thresholds(cn)
            if not ths:
                continue
            if len(ths) != 1:
                raise AnalysisBroken("%s: %s is assigned under tests against several thresholds %s" % (fname, render(l0), sorted(ths)))
            th = next(iter(ths))
            if th[0] == "scalar":
                if l0["kind"] != "DeclRefExpr":
                    continue
                shares.append((parse_share(th[1]), render(l0), r_, n_))
            else:
                # a table of levels searched in turn: result[i] belongs to level[i]
                if l0["kind"] != "ArraySubscriptExpr" or strip(kids(l0)[1], casts=True).get("ref", {}).get("id") != th[2]:
                    raise AnalysisBroken("%s: the result of the search over a table of levels is not stored at the level's index" % fname)
                for i_, e_ in enumerate(kids(kids(decls[th[1]])[0])):
                    shares.append((parse_share(cx.canon(e_)), "%s[%d]" % (render(strip(kids(l0)[0], casts=True)), i_), r_, n_))
                level_cursors[th[2]] = n_
        # a sweep that looks for the levels in turn must offer the interval in which it found one level to the next level too
        for lid, node in level_cursors.items():
            chain = inv.enclosing_chain(f, node)
            hit = [a_ for a_ in chain if a_["kind"] in ("IfStmt", "WhileStmt") and
                   any(thresholds(kids(a_)[0]) for _ in (0,))]
            loops_ = [a_ for a_ in chain if a_["kind"] in ("ForStmt", "WhileStmt", "DoStmt")]
            steps = [y for a_ in hit for y in walk(a_) if y["kind"] == "UnaryOperator" and y.get("opcode") in ("++", "--") and
                     strip(kids(y)[0], casts=True).get("ref", {}).get("id") == lid]
            steps += [n2 for l2, r2, k2, n2 in inv.stores(f) if strip(l2, casts=True).get("ref", {}).get("id") == lid and
                      any(any(y is n2 for y in walk(a_)) for a_ in hit)]
            r11.instance("%s: levels are searched in turn (cursor advanced on a hit: %s)" % (fname, bool(steps)))
            if not steps:
                r11.ok()
                continue
            retest = any(a_["kind"] == "WhileStmt" for a_ in hit)
            if not retest and loops_:
                iv_, g_ = inv.induction_vars(cx, f, loops_[-1])
                # the interval cursor advances every round although the level cursor moved on: same interval not offered again
                if iv_:
                    rep.finding(r11, fname, "median:sweep-skips-level", "%s looks for the levels in turn and, having found one in an "
                                "interval, moves on to the next interval before testing the next level: when two levels fall into "
                                "the same interval (one sample holding more than a quarter of the total weight) the later ones are "
                                "never found and keep their starting value" % fname, where=m.rel(loc(node)))
                    r11.fail()
                    continue
            r11.ok()
        got = sorted({round(s_[0], 6) for s_ in shares})
        r11.instance("%s: shares searched %s" % (fname, got))
        if not got:
            raise AnalysisBroken("%s: the search over the running weight sums is not understood" % fname)
        if got != want_shares:
            rep.finding(r11, fname, "median:share", "%s searches the shares %s of the total weight; the median is the point at one half "
                        "(five-number summary: 0.25, 0.5, 0.75)" % (fname, got), where=m.rel(f.where))
            r11.fail()
        else:
            r11.ok()
        for share, var, val, node in shares:
            if abs(share - 0.5) > 1e-9:
                continue
            r11.instance("%s: median value %s = %s" % (fname, var, render(val)[:80]))
            def value_uses_weight(n_):
                # a weight-derived quantity used as a number; as the index that selects a sample it is what a median does
                n_ = strip(n_, casts=True)
                if n_["kind"] == "ArraySubscriptExpr":
                    return value_uses_weight(kids(n_)[0])
                if n_["kind"] == "MemberExpr" and n_.get("name") == "wa":
                    return True
                if n_["kind"] == "DeclRefExpr":
                    return n_["ref"]["id"] in tainted
                return any(value_uses_weight(c_) for c_ in kids(n_))
            if value_uses_weight(val):
                rep.finding(r11, fname, "median:weight-interpolated", "%s reports %s = %s: a point between two neighbouring samples "
                            "placed in proportion to the weights. Whenever half of the total weight falls strictly inside the second "
                            "sample's weight, that point lies strictly between the two samples and has more than half of the "
                            "weight strictly above it - not a median by the definition of the property (x = 1, 2 held for 1, 3 "
                            "time units: 1.33 reported, three quarters of the weight above it; the median is 2)"
                            % (fname, var, render(val)[:120]), where=m.rel(loc(node)))
                r11.fail()
            else:
                r11.ok()

    # R-C18-12 -----------------------------------------------------------
    r12 = rep.rule("R-C18-12", "the running extremes of a dataset are each updated with every sample, independently of one "
                   "another: the update of the minimum does not depend on the outcome of the maximum test (and vice versa) - "
                   "the first sample is both, as the extremes start at +/-DBL_MAX; five-number summaries and auto-scaled "
                   "histograms read these fields", floor=1)
    da = m.need("cmb_dataset_add")
    dcx = FuncCtx(m, da)
    xn = da.params[1]["name"]
    r12.instance("%s: extremes updated with '%s'" % (da.name, xn))

    def upd_conds(field, op):
        """conditions (besides its own comparison) under which some update of the field with the sample executes; None if
        there is no such update"""
        rop = {">": "<", "<": ">"}[op]
        best = None
        for l, r_, k_, n_ in inv.stores(da):
            lc = dcx.canon(l)
            if not lc.endswith("->" + field) or r_ is None:
                continue
            v = dcx.canon(r_)
            own = ("(%s %s %s)" % (xn, op, lc), "(%s %s %s)" % (lc, rop, xn))
            tern = re.fullmatch(r"\(\(%s %s (.+)\) \? %s : \1\)" % (xn, op, xn), v) or \
                re.fullmatch(r"\(\((.+) %s %s\) \? %s : \1\)" % (rop, xn, xn), v)
            conds = [cd for cd in inv.dominating_conditions(dcx, da, n_) if cd not in own]
            if tern or (v == xn and len(conds) < len(inv.dominating_conditions(dcx, da, n_))):
                if best is None or len(conds) < len(best):
                    best = conds
        return best
    for field, op, other in (("max", ">", "min"), ("min", "<", "max")):
        cds = upd_conds(field, op)
        if cds is None:
            rep.finding(r12, da.name, "extreme:not-updated:" + field, "%s does not update %s with the new sample" % (da.name, field),
                        where=m.rel(da.where))
            r12.fail()
        elif any(("->" + other) in cd for cd in cds):
            rep.finding(r12, da.name, "extreme:dependent:" + field, "%s updates %s only under %s: a sample that is a new %s is not "
                        "considered for the %s - the first sample of a dataset is both (the extremes start at -DBL_MAX / "
                        "DBL_MAX), so data that begin with their smallest (largest) value report a wrong extreme"
                        % (da.name, field, cds, other, field), where=m.rel(da.where))
            r12.fail()
        else:
            r12.ok()

    # R-C18-13 -----------------------------------------------------------
    r13 = rep.rule("R-C18-13", "the coefficient at lag 0 is 1 on every path: whatever way cmb_dataset_ACF / cmb_dataset_PACF is left "
                   "(constant data, any lag count), the last write that reaches element 0 of the result array stores 1 - a "
                   "whole-array wipe or an early exit in front of that store leaves 0 there", floor=2)
    from ..engines import trace as _TR13
    for fn_, arr_i in (("cmb_dataset_ACF", 2), ("cmb_dataset_PACF", 2)):
        f13 = m.need(fn_)
        cx13 = FuncCtx(m, f13)
        an = f13.params[arr_i]["name"]
        # variable-index stores into the array: harmless for element 0 if the index provably starts above 0 and counts up
        risky_lines = set()
        for l_, r_, k_, n_ in inv.stores(f13):
            l0 = strip(l_, casts=True)
            if l0["kind"] == "ArraySubscriptExpr" and cx13.canon(kids(l0)[0]) == an and int_value(strip(kids(l0)[1], casts=True)) is None:
                ix = strip(kids(l0)[1], casts=True)
                safe = False
                if ix["kind"] == "DeclRefExpr":
                    for lp in inv.enclosing_chain(f13, n_):
                        if lp["kind"] in ("ForStmt", "WhileStmt", "DoStmt"):
                            iv_, g_ = inv.induction_vars(cx13, f13, lp)
                            ent = iv_.get(ix["ref"]["name"])
                            if ent is None:
                                continue
                            # the entry value of *this* variable (by declaration, not by name)
                            e0 = ent[0]
                            for vd_ in walk(f13.body):
                                if vd_["kind"] == "VarDecl" and vd_.get("id") == ix["ref"]["id"] and kids(vd_) and \
                                        int_value(strip(kids(vd_)[0], casts=True)) is not None and \
                                        not any(w_ is not lp and any(z is vd_ for z in walk(w_)) and any(z is lp for z in walk(w_)) is False
                                                for w_ in ()):
                                    asg = [y for y in inv.stores(f13) if strip(y[0], casts=True).get("ref", {}).get("id") == ix["ref"]["id"]
                                           and not any(z is y[3] for z in walk(lp))]
                                    if not asg:
                                        e0 = str(int_value(strip(kids(vd_)[0], casts=True)))
                            if ent[1] == 1 and re.fullmatch(r"[1-9]\d*", e0 or ""):
                                safe = True
                            # counting down to 1: for (i = n; i >= 1; i--) / (i > 0)
                            if ent[1] == -1 and g_ is not None and g_[0] == ix["ref"]["name"] and \
                                    ((g_[1] == ">=" and g_[2] == "1") or (g_[1] == ">" and g_[2] == "0")):
                                safe = True
                if not safe:
                    risky_lines.add(n_.get("line"))
        seen13 = set()
        state = {"n": 0}

        def reg13(dom, flow, st, tr, why, where, ev, an=an, fn_=fn_, risky_lines=risky_lines, seen13=seen13, state=state):
            if not why.startswith("return"):
                return
            val, at = None, None
            for e in tr:
                if e[0] == "store" and e[1] == "%s[0]" % an and e[2] == "=":
                    val, at = e[3], e[4]
                elif e[0] == "store" and e[1].startswith(an + "[") and str(e[4]).rsplit(":", 1)[-1] in {str(x) for x in risky_lines}:
                    val, at = "?", e[4]
                elif e[0] == "call" and e[1] in ("memset", "cmi_memset") and e[2] and e[2][0] == an:
                    val, at = e[2][1], e[3]
                elif e[0] == "call" and e[1] in ("memcpy", "cmi_memcpy", "memmove") and e[2] and e[2][0] == an:
                    val, at = "?", e[3]
            key = (val, at)
            if key in seen13:
                return
            seen13.add(key)
            state["n"] += 1
            okv = val in ("1", "1.0")
            r13.instance("%s: a path leaves %s[0] = %s (last written at %s)" % (fn_, an, val, at))
            if okv:
                r13.ok()
            else:
                rep.finding(r13, fn_, "lag0:not-one", "%s: on a path that returns at %s the last write to %s[0] stores %s (at %s), "
                            "not 1: the autocorrelation at lag 0 is 1 by definition, also for constant data"
                            % (fn_, where, an, "nothing" if val is None else val, at), where=at or where)
                r13.fail()
        _TR13.run_traces(m, f13, reg13)
        if state["n"] == 0:
            raise AnalysisBroken("R-C18-13: no return path of %s was seen" % fn_)



def run(tier="quick"):
    models = common.load_models(tier)
    rep = Report(PID, tier, models[0])
    rep.assumptions = ["only the structural clauses are decided (see level note)"]
    rep.not_decided = ["the median / quartile properties and five-number ordering (value-level)",
                       "termination and index arithmetic of the sift loops beyond one round"]
    for m in models[:1]:
        rep.configs.append(m.config)
        common.run_rules(rep, m, rules)
    return rep.finish()
