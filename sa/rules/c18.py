"""C18 - Sorting, medians, quartiles, histograms, correlograms respect their definitions.

Mostly value-level (ascending order, median property, autocorrelation invariance): not decided.  Claimed are
the structural clauses: sorting only exchanges elements (same multiset), time-series samples stay whole, a
histogram accounts for every sample exactly once, copies copy what they allocate."""
import re

from ..astutil import kids, strip, walk, callee_ref, render, loc, int_value
from ..frontend import AnalysisBroken
from ..report import Report
from ..vals import FuncCtx
from .. import inv
from . import common

PID = "C18"
SORT_FUNCS = ("cmb_dataset_sort", "dataset_heapify", "cmb_timeseries_sort_x", "cmb_timeseries_sort_t", "timeseries_heapify")


def swap_calls(m, f):
    """[(stmt index path, node, arrayA, idxA1, idxA2)] for cmi_dataset_swap(&A[i], &A[j]) calls."""
    out = []
    cx = FuncCtx(m, f)
    for c in walk(f.body):
        if c["kind"] == "CallExpr" and callee_ref(c) == "cmi_dataset_swap":
            a = [render(z) for z in kids(c)[1:]]
            mm1 = re.fullmatch(r"&(.+)\[(.+)\]", a[0])
            mm2 = re.fullmatch(r"&(.+)\[(.+)\]", a[1])
            out.append((c, mm1.groups() if mm1 else None, mm2.groups() if mm2 else None, a))
    return out


def inline_swaps(f):
    """Three-assignment exchange idiom t = A[i]; A[i] = A[j]; A[j] = t in one block: [(block, i0, A, i, j)]"""
    found = []
    for blk in walk(f.body):
        if blk["kind"] != "CompoundStmt":
            continue
        st = kids(blk)
        for i in range(len(st) - 2):
            a, b, c = st[i], st[i + 1], st[i + 2]
            ta = None
            if a["kind"] == "DeclStmt" and kids(a) and kids(kids(a)[0]):
                ta = (kids(a)[0]["name"], render(kids(kids(a)[0])[0]))
            elif a["kind"] == "BinaryOperator" and a.get("opcode") == "=":
                ta = (render(kids(a)[0]), render(kids(a)[1]))
            if not ta:
                continue
            if not (b["kind"] == "BinaryOperator" and b.get("opcode") == "=" and c["kind"] == "BinaryOperator" and c.get("opcode") == "="):
                continue
            bl, br = render(kids(b)[0]), render(kids(b)[1])
            cl, cr = render(kids(c)[0]), render(kids(c)[1])
            if bl == ta[1] and cl == br and cr == ta[0]:
                found.append((blk, i, bl, br, (a, b, c)))
    return found


def rules(rep, m):
    funcs = {}
    for n in SORT_FUNCS:
        c = m.func_named(n)
        if not c:
            raise AnalysisBroken("sort function %s not found" % n)
        funcs[n] = c[0]
    # R-C18-1 ------------------------------------------------------------
    r1 = rep.rule("R-C18-1", "in the sort routines array elements are written only by exchanges of two elements of the same "
                  "array (the swap helper, itself a true three-step exchange, or the inline three-assignment idiom): the result "
                  "is a permutation, hence the same multiset of samples", floor=8)
    sw = m.need("cmi_dataset_swap")
    sts = [(render(l), render(r)) for l, r, k, n_ in inv.stores(sw)]
    tmpd = [(x["name"], render(kids(x)[0])) for x in walk(sw.body) if x["kind"] == "VarDecl" and kids(x)]
    a, b = sw.params[0]["name"], sw.params[1]["name"]
    r1.instance("swap helper: %s; %s" % (tmpd, sts))
    ok = len(tmpd) == 1 and tmpd[0][1] == "*" + a and sts == [("*" + a, "*" + b), ("*" + b, tmpd[0][0])]
    if not ok:
        ok = len(tmpd) == 1 and tmpd[0][1] == "*" + b and sts == [("*" + b, "*" + a), ("*" + a, tmpd[0][0])]
    if not ok:
        rep.finding(r1, sw.name, "swap:not-exchange", "the swap helper is not a three-step exchange (%s; %s): a sample is "
                    "duplicated or lost" % (tmpd, sts), where=m.rel(sw.where))
        r1.fail()
    else:
        r1.ok()
    for n, f in funcs.items():
        sc = swap_calls(m, f)
        isw = inline_swaps(f)
        covered = set()
        for blk, i, x, y, nodes in isw:
            for nd in nodes[1:]:
                covered.add(id(nd))
        for c, g1, g2, args in sc:
            r1.instance("%s: swap(%s, %s)" % (n, args[0], args[1]))
            if not g1 or not g2 or g1[0] != g2[0]:
                rep.finding(r1, n, "swap:arrays", "%s exchanges %s with %s: not two elements of one array" % (n, args[0], args[1]),
                            where=m.rel(loc(c)))
                r1.fail()
            else:
                r1.ok()
        for l, r, k, node in inv.stores(f):
            ls = strip(l, casts=True)
            if ls["kind"] == "ArraySubscriptExpr" or (ls["kind"] == "UnaryOperator" and ls.get("opcode") == "*"):
                if id(node) in covered:
                    continue
                rep.finding(r1, n, "element-write", "%s writes the array element %s directly (not an exchange): the sorted "
                            "data are no longer a permutation of the input" % (n, render(l)), where=m.rel(loc(node)))
                r1.fail()
        if not sc and not isw:
            rep.finding(r1, n, "no-exchange", "%s contains no exchange at all" % n, where=m.rel(f.where))
            r1.fail()

    # R-C18-2 ------------------------------------------------------------
    r2 = rep.rule("R-C18-2", "time series: every exchange on one of the three parallel arrays is accompanied, in the same "
                  "block, by exchanges of the other two with the same index pair, and the heapify helper is always given "
                  "the three distinct arrays: each sample keeps its own time and weight", floor=4)
    for n in ("cmb_timeseries_sort_x", "cmb_timeseries_sort_t", "timeseries_heapify"):
        f = funcs[n]
        for blk in walk(f.body):
            if blk["kind"] != "CompoundStmt":
                continue
            group = []
            for s_ in kids(blk):
                c = strip(s_, casts=True)
                if c["kind"] == "CallExpr" and callee_ref(c) == "cmi_dataset_swap":
                    a_ = [render(z) for z in kids(c)[1:]]
                    m1, m2 = re.fullmatch(r"&\(?(.+?)\)?\[(.+)\]\)?", a_[0]), re.fullmatch(r"&\(?(.+?)\)?\[(.+)\]\)?", a_[1])
                    if m1 and m2:
                        group.append((m1.group(1), m1.group(2), m2.group(2), c))
            if not group:
                continue
            arrays = {g[0] for g in group}
            pairs = {(g[1], g[2]) for g in group}
            r2.instance("%s: exchange group on %s with index pair(s) %s" % (n, sorted(arrays), sorted(pairs)))
            rep.sample({"rule": "R-C18-2", "function": n, "arrays": sorted(arrays), "pairs": sorted(pairs)})
            if len(arrays) != 3 or len(group) != 3 or len(pairs) != 1:
                rep.finding(r2, n, "sample-torn", "%s exchanges %s with index pairs %s in one block: the three parallel arrays "
                            "must move together (one exchange each, same two indices), otherwise a sample ends up with "
                            "another sample's time or weight" % (n, sorted(arrays), sorted(pairs)), where=m.rel(loc(group[0][3])))
                r2.fail()
            else:
                r2.ok()
        for c in walk(f.body):
            if c["kind"] == "CallExpr" and callee_ref(c) == "timeseries_heapify":
                a_ = [render(z) for z in kids(c)[2:5]]
                base = {re.sub(r"^.*->", "", x) for x in a_}
                r2.instance("%s: heapify(%s)" % (n, ", ".join(a_)))
                if base != {"xa", "ta", "wa"}:
                    rep.finding(r2, n, "heapify-arrays", "%s sifts (%s): not the three distinct sample arrays" % (n, ", ".join(a_)),
                                where=m.rel(loc(c)))
                    r2.fail()
                else:
                    r2.ok()
    # the key array matches the sort's name
    for n, key in (("cmb_timeseries_sort_x", "xa"), ("cmb_timeseries_sort_t", "ta")):
        f = funcs[n]
        keys = {re.sub(r"^.*->", "", render(kids(c)[2])) for c in walk(f.body)
                if c["kind"] == "CallExpr" and callee_ref(c) == "timeseries_heapify"}
        if keys != {key}:
            rep.finding(r2, n, "sort-key", "%s sorts by %s, not by %s" % (n, sorted(keys), key), where=m.rel(f.where))
            r2.fail()
        else:
            r2.ok()

    # R-C18-3 ------------------------------------------------------------
    r3 = rep.rule("R-C18-3", "histogram filling assigns a bin on every path of an exhaustive if / else-if / else, adds exactly "
                  "one contribution per iteration (1 per sample, the duration per time-series sample) and runs over [0, n) "
                  "for datasets and [0, n - 1) for time series (the last sample has no duration yet)", floor=2)
    for fname, wexpr, bound in (("cmi_dataset_histogram_fill", "1", "(ui < n)"),
                                ("timeseries_histogram_fill", "wa[ui]", "(ui < (n - 1))")):
        f = m.func_named(fname)[0]
        cx = FuncCtx(m, f)
        loops = [x for x in walk(f.body) if x["kind"] == "ForStmt"]
        if len(loops) != 1:
            raise AnalysisBroken("%s: expected one loop" % fname)
        lp = loops[0]
        lv = None
        for x in walk(kids(lp)[0]):
            if x["kind"] == "VarDecl":
                lv = (x["name"], int_value(kids(x)[0]) if kids(x) else None)
        b = cx.canon(kids(lp)[2]).replace(lv[0] if lv else "ui", "ui").replace(f.params[1]["name"], "n")
        r3.instance("%s: loop from %s while %s" % (fname, lv, b))
        if not lv or lv[1] != 0 or b != bound:
            rep.finding(r3, fname, "range", "the fill loop runs from %s while %s; expected from 0 while %s" % (lv, b, bound),
                        where=m.rel(loc(lp)))
            r3.fail()
        else:
            r3.ok()
        body = kids(lp)[4]
        adds = [(render(kids(y)[0]), render(kids(y)[1]), y) for y in walk(body)
                if y["kind"] == "CompoundAssignOperator" and y.get("opcode") == "+=" and "hbins[" in render(kids(y)[0])]
        top = [y for y in kids(body)]
        okadd = len(adds) == 1 and any(strip(t, casts=True) is adds[0][2] for t in top)
        if okadd:
            val = adds[0][1].replace(lv[0], "ui")
            val = re.sub(r"^1(\.0)?$", "1", val)
            wn = wexpr if fname.startswith("cmi") else "%s[ui]" % f.params[3]["name"]
            okadd = val == wn
        r3.instance("%s: contributions %s" % (fname, [(a_[0], a_[1]) for a_ in adds]))
        if not okadd:
            rep.finding(r3, fname, "contribution", "each iteration must add exactly one contribution (%s) to exactly one bin, "
                        "unconditionally; found %s" % (wexpr, [(a_[0], a_[1]) for a_ in adds]), where=m.rel(loc(lp)))
            r3.fail()
        else:
            r3.ok()
        # bin assigned on every path
        binvar = re.search(r"hbins\[(\w+)\]", adds[0][0]).group(1) if adds else None
        chain = [t for t in top if t["kind"] == "IfStmt"]
        def assigns(n):
            return any(y["kind"] == "BinaryOperator" and y.get("opcode") == "=" and render(kids(y)[0]) == binvar for y in walk(n))
        def exhaustive(ifn):
            ch = kids(ifn)
            if len(ch) < 3:
                return False
            if not assigns(ch[1]):
                return False
            if ch[2]["kind"] == "IfStmt":
                return exhaustive(ch[2])
            return assigns(ch[2])
        okbin = binvar is not None and any(exhaustive(c_) for c_ in chain)
        if not okbin:
            rep.finding(r3, fname, "bin-assignment", "the bin index is not assigned on every path of an exhaustive if/else chain",
                        where=m.rel(loc(lp)))
            r3.fail()
        else:
            r3.ok()
    # the time-series histogram passes (count, xa, wa) of the same series
    hp = m.need("cmb_timeseries_histogram_print")
    hx = FuncCtx(m, hp)
    fc = [c for c in walk(hp.body) if c["kind"] == "CallExpr" and callee_ref(c) == "timeseries_histogram_fill"]
    a = [hx.canon(z) for z in kids(fc[0])[2:]] if len(fc) == 1 else None
    p0 = hp.params[0]["name"]
    if a != ["%s->count" % p0, "%s->xa" % p0, "%s->wa" % p0]:
        rep.finding(r3, hp.name, "fill-args", "the time-series histogram is filled from %s" % a, where=m.rel(hp.where))
        r3.fail()
    else:
        r3.ok()

    # R-C18-4 ------------------------------------------------------------
    r4 = rep.rule("R-C18-4", "copies are exact: each array is allocated with the source's capacity and copied with the same "
                  "element count; count, capacity, minimum and maximum are carried over", floor=3)
    for fname in ("cmb_dataset_copy", "cmb_timeseries_copy"):
        f = m.need(fname)
        cx = FuncCtx(m, f)
        allocs = {}
        for l, r, k, n_ in inv.stores(f):
            rr = strip(r, casts=True) if r is not None else None
            if rr is not None and rr["kind"] == "CallExpr" and callee_ref(rr) in ("cmi_calloc", "cmi_malloc"):
                allocs[cx.canon(l)] = cx.canon(kids(rr)[1])
        copies = {}
        for c in walk(f.body):
            if c["kind"] == "CallExpr" and callee_ref(c) == "cmi_memcpy":
                a_ = [render(z) for z in kids(c)[1:]]
                copies[a_[0]] = (a_[1], cx.canon(kids(c)[3]))
        for arr, cnt in allocs.items():
            short = arr.split("->")[-1]
            cp = [v for k_, v in copies.items() if k_.endswith("->" + short)]
            r4.instance("%s: %s allocated with %s, copied %s" % (fname, arr, cnt, cp))
            good = len(cp) == 1 and cp[0][0].endswith("->" + short) and re.fullmatch(r"\(%s \* sizeof\(.+\)\)" % re.escape(cnt), cp[0][1])
            if not good:
                rep.finding(r4, fname, "copy:" + short, "%s allocates %s with %s elements but copies %s" % (fname, arr, cnt, cp),
                            where=m.rel(f.where))
                r4.fail()
            else:
                r4.ok()
    dc = m.need("cmb_dataset_copy")
    dx = FuncCtx(m, dc)
    st = {dx.canon(l): dx.canon(r) for l, r, k, n_ in inv.stores(dc) if r is not None}
    t_, s_ = dc.params[0]["name"], dc.params[1]["name"]
    for fld in ("count", "cursize", "min", "max"):
        if st.get("%s->%s" % (t_, fld)) != "%s->%s" % (s_, fld):
            rep.finding(r4, dc.name, "copy-field:" + fld, "the copy's %s is %s" % (fld, st.get("%s->%s" % (t_, fld))), where=m.rel(dc.where))
            r4.fail()
        else:
            r4.ok()


def run(tier="quick"):
    models = common.load_models(tier)
    rep = Report(PID, tier, models[0])
    rep.assumptions = ["only the structural clauses are decided (see level note)"]
    rep.not_decided = ["ascending order of the result, the median / quartile properties, five-number ordering, autocorrelation "
                       "invariances (all value-level)"]
    for m in models[:1]:
        rep.configs.append(m.config)
        rules(rep, m)
    return rep.finish()
