"""C04 - Waits return at the right time for exactly one cause; no stale wake-ups."""
import re

from ..astutil import kids, strip, walk, callee_ref, render, loc, int_value
from ..frontend import AnalysisBroken
from ..report import Report
from ..vals import FuncCtx, assert_condition
from ..engines import trace as TR
from .. import inv
from . import common, listrules

PID = "C04"

# registration  ->  inverse(s): (callee names, predicate on (registration args, inverse args))
INVERSES = {
    "cmi_process_add_awaitable": (("cmi_process_remove_awaitable",),
                                  lambda r, i: i[0] == r[0] and i[1] == r[1] and (i[2] == r[2] or i[2] == "NULL")),
    "add_waiter_tag": (("cmi_process_remove_waiter",),
                       lambda r, i: r[0] == "&%s->waiters" % i[0] and i[1] == r[1]),
    "cmi_event_add_waiter": (("cmi_event_remove_waiter",), lambda r, i: i[0] == r[0] and i[1] == r[1]),
    "cmi_hashheap_enqueue": (("cmi_hashheap_cancel", "cmi_hashheap_remove"), lambda r, i: i[0] == r[0]),
    "cmb_process_timer_add": (("cmb_process_timer_cancel",), lambda r, i: i[0] == r[0]),
}


def withdraw_rule(rep, r1, m, SIG, only=None):
    """A wait that can be left for another reason while its own wake-up is already scheduled (a grant or a condition
    signal in the same instant) withdraws that wake-up whenever it returns with anything but the success code."""
    for fn, action in (("cmb_resourceguard_wait", "wakeup_event_resource"), ("cmb_condition_wait", "wakeup_event_condition")):
        if only is not None and fn not in only:
            continue
        f = m.need(fn)
        cx = FuncCtx(m, f)
        pcs = [c for c in walk(f.body) if c["kind"] == "CallExpr" and callee_ref(c) == "cmb_event_pattern_cancel"]
        good = False
        why = "no withdrawal found"
        for c in pcs:
            a = [cx.canon(z) for z in kids(c)[1:]]
            if not (a[0] == action and a[1] == "cmb_process_current()"):
                continue
            covers_all = True
            succ = SIG["CMB_PROCESS_SUCCESS"]
            for cd in inv.dominating_conditions(cx, f, c):
                ok_c = False
                mm = re.fullmatch(r"\((.+) != (\S+)\)", cd) or re.fullmatch(r"!\((.+) == (\S+)\)", cd)
                if mm and (common.sigval(mm.group(2)) == succ or common.sigval(mm.group(1)) == succ):
                    ok_c = True              # "resumed with something other than success"
                # conditions about queue membership (already granted / still queued) do not restrict the signal codes
                if re.search(r"cmi_hashheap_is_enqueued|cmi_hashheap_cancel|cmi_hashheap_remove|found", cd):
                    ok_c = True
                if not ok_c:
                    covers_all = False
                    why = "it is withdrawn only under '%s'" % cd
            if covers_all:
                good = True
        r1.instance("%s withdraws a pending %s on every non-success return: %s" % (fn, action, good))
        if not good:
            rep.finding(r1, fn, "no-undo:pending-" + ("grant" if "guard" in fn else "wakeup"),
                        "%s does not withdraw a %s wake-up that is still pending when it returns for another reason (%s): it "
                        "resumes the process later, out of an unrelated wait" % (fn, action, why), where=m.rel(f.where))
            r1.fail()
        else:
            r1.ok()


def timer_awaitable_clause(rep, r5, m):
    """The timer wake-up removes the tag of the timer that fired, by the handle of the current event (shared:
    R-C04-5, R-C10-12)."""
    hd = m.need("cmb_process_hold")
    wt = m.need(m.resolve(hd.unit, "wakeup_event_time"))
    wx = FuncCtx(m, wt)
    ra = [c for c in walk(wt.body) if c["kind"] == "CallExpr" and callee_ref(c) == "cmi_process_remove_awaitable"]
    okw = len(ra) == 1 and [wx.canon(z) for z in kids(ra[0])[1:]] == [wt.params[0]["name"], "CMI_PROCESS_AWAITABLE_TIME",
                                                                    "cmb_event_current()"] or \
        (len(ra) == 1 and [wx.canon(z) for z in kids(ra[0])[1:]][:2] == [wt.params[0]["name"], "CMI_PROCESS_AWAITABLE_TIME"]
         and "event_queue->heap[0].key" in wx.canon(kids(ra[0])[3]))
    r5.instance("timer wake-up removes the fired timer's awaitable: %s" % okw)
    if not okw:
        rep.finding(r5, wt.name, "timer:awaitable", "the timer wake-up does not remove the awaitable of the timer that fired "
                    "(by the current event handle)", where=m.rel(wt.where))
        r5.fail()
    else:
        r5.ok()


def wait_result_rule(rep, rule, m, only=None):
    """Every region that starts with the return of cmb_resourceguard_wait is classified by the codes its tests of the returned
    value admit; a region that can be entered with a code other than success must end by returning exactly that value - it
    neither carries on (taking the resource, waiting again) nor returns success.  Shared: R-C04-10, R-C05-5."""
    import operator
    OPS = {"!=": operator.ne, "==": operator.eq, "<": operator.lt, "<=": operator.le, ">": operator.gt, ">=": operator.ge}
    waiters = sorted({f.key for f, c in inv.calls_to(m, "cmb_resourceguard_wait")})
    n_regions = 0
    for k in waiters:
        f = m.funcs[k]
        if only is not None and f.name not in only:
            continue
        if not (m.rel(f.file) or "").startswith(("src/", "include/")):
            continue
        seen = set()

        def region(dom, flow, st, tr, why, where, ev, f=f, seen=seen):
            nonlocal n_regions
            if not tr or tr[0][0] != "resume" or tr[0][1] != "cmb_resourceguard_wait":
                return
            R = tr[0][5]
            tests = []
            for e in tr:
                if e[0] != "assume":
                    continue
                mm = re.fullmatch(r"\(%s (!=|==|<|<=|>|>=) (\S+)\)" % re.escape(R), e[1])
                flip = False
                if not mm:
                    mm2 = re.fullmatch(r"\((\S+) (!=|==|<|<=|>|>=) %s\)" % re.escape(R), e[1])
                    if mm2:
                        mm, flip = mm2, True
                if not mm:
                    continue
                op, tok = (mm.group(1), mm.group(2)) if not flip else (mm.group(2), mm.group(1))
                kv = 0 if tok == "NULL" else common.sigval(tok)
                if kv is None:
                    continue
                if flip:
                    op = {"<": ">", ">": "<", "<=": ">=", ">=": "<="}.get(op, op)
                tests.append((op, kv, bool(e[2])))
            cands = set(range(-8, 3)) | {17, 1 << 40, -(1 << 40)}
            for _, kv, _t in tests:
                cands |= {kv - 1, kv, kv + 1}
            allowed = {v for v in cands if all(OPS[op](v, kv) == t for op, kv, t in tests)}
            if allowed <= {0}:
                return
            n_regions += 1
            ends = ev if isinstance(ev, tuple) else None
            ok = ends is not None and ends[0] == "return" and ends[1] == R
            key = (why, where, ok)
            if key in seen:
                return
            seen.add(key)
            rule.instance("%s: resumed with a code other than success (%s): ends with %s" % (f.name, "tested" if tests else "untested",
                                                                                           (ends[:2] if ends else why)))
            if ok:
                rule.ok()
            else:
                what = "returns %s" % ends[1] if ends is not None and ends[0] == "return" else "carries on (%s)" % why
                rep.finding(rule, f.name, "wait:signal-swallowed", "%s: on a path that is taken when the wait at the guard returns a "
                            "code other than success (an interrupt, a preemption, a timeout, a cancellation), the function %s "
                            "instead of returning that code: the notification is lost, and the caller goes on as if it had been "
                            "served" % (f.name, what), where=where)
                rule.fail()
        TR.run_traces(m, f, region)
    if n_regions == 0:
        raise AnalysisBroken("wait_result_rule: no region starting with the return of a guard wait was found")


def rules(rep, m):
    SIG = common.signal_table(m)
    may_yield = m.reaches({"cmi_coroutine_transfer"})
    blocking = sorted({f.name for f, c in inv.calls_to(m, "cmi_coroutine_yield")
                       if (m.rel(f.file) or "").startswith("src/cmb_")})
    # R-C04-1 ------------------------------------------------------------
    r1 = rep.rule("R-C04-1", "every blocking primitive undoes, on every path where it was resumed with something other than "
                  "the success code, everything it registered before suspending (awaitable tag, waiter tag, waiting-list "
                  "entry, timer), unless the deliverer had already unwound it (the inverse reported 'not found')", floor=4)
    if len(blocking) < 4:
        raise AnalysisBroken("found only %d blocking primitives calling cmi_coroutine_yield directly" % len(blocking))

    def only_leaf(callee):
        # keep registrations visible as calls: do not inline the registering helpers
        return callee.static and not callee.in_header and callee.name not in ("add_waiter_tag",)

    for bn in blocking:
        f = m.need(bn)
        if bn == "cmb_process_yield":
            r1.instance("%s: registers nothing" % bn)
            r1.ok()
            continue
        regs_seen = {}
        paths = {"abn": 0}

        def cb(dom, flow, s, tr, why, where, ev, f=f, bn=bn, regs_seen=regs_seen, paths=paths):
            calls = [e for e in tr if e[0] == "call"]
            if why.startswith("yield:cmi_coroutine_yield"):
                regs = [c for c in calls if c[1] in INVERSES]
                regs_seen["pre"] = regs
                return
            if not tr or tr[0][0] != "resume" or not why.startswith("return"):
                return
            # what was the resume value tested against?
            succ = None
            for e in tr:
                if e[0] == "assume" and re.search(r"cmi_coroutine_yield\(NULL\) (!=|==) (NULL|0)\)$", e[1]):
                    succ = e[2] if "==" in e[1] else not e[2]
            pre = regs_seen.get("pre", [])
            if succ is True:
                return
            if succ is None and pre:
                # the function never looks at the resume value: every path is potentially abnormal
                pass
            paths["abn"] += 1
            for rg in pre:
                names, pred = INVERSES[rg[1]]
                invs = [c for c in calls if c[1] in names and
                        (pred(rg[2], c[2]) or (rg[1] == "cmi_hashheap_enqueue" and c[2] and rg[2] and
                                               common.same_object(m, c[2][0], rg[2][0])))]
                r1.instance("%s: %s(%s) undone on abnormal path by %s" % (bn, rg[1], ", ".join(rg[2][:3]), [c[1] for c in invs]))
                if invs:
                    r1.ok()
                    continue
                # skipped because another inverse of this primitive reported 'not found'?
                excused = False
                for e in tr:
                    if e[0] == "assume" and e[2] is False:
                        for c in calls:
                            if c[1] in sum((v[0] for v in INVERSES.values()), ()) and e[1] == c[5]:
                                excused = True
                if excused:
                    r1.ok()
                    continue
                rep.finding(r1, bn, "no-undo:%s" % rg[1], "%s registers via %s(%s) before suspending but a path resumed "
                            "with a non-success signal returns without the inverse (%s): the stale registration can resume "
                            "the process later, out of an unrelated wait" % (bn, rg[1], ", ".join(rg[2][:3]), "/".join(names)),
                            where=where)
                r1.fail()
        TR.run_traces(m, f, cb, may_yield=may_yield, inline_pred=only_leaf)
        if regs_seen.get("pre") and paths["abn"] == 0:
            rep.finding(r1, bn, "no-abnormal-path", "%s registers before suspending but has no path handling a non-success "
                        "resume value" % bn, where=m.rel(f.where))
            r1.fail()
        rep.sample({"rule": "R-C04-1", "primitive": bn, "registrations": [[c[1], list(c[2][:3])] for c in regs_seen.get("pre", [])]})
    withdraw_rule(rep, r1, m, SIG)

    # R-C04-2 ------------------------------------------------------------
    r2 = rep.rule("R-C04-2", "the unwinding routines are total: a function that reports 'not found' gracefully does not also "
                  "abort through a release assertion on queue membership or queue count, whatever is left in the event queue",
                  floor=4)
    start = {"cmi_process_cancel_awaiteds", "cmb_process_timer_cancel", "cmb_process_timers_clear"}
    cg = m.callgraph()
    reach = set()
    work = [(s, 0) for s in start]
    while work:
        k, d = work.pop()
        if k in reach or d > 3:
            continue
        reach.add(k)
        for c in cg.get(k, ()):
            if c in m.funcs and (m.rel(m.funcs[c].file) or "").startswith(("src/cmb_", "include/cmb_")):
                work.append((c, d + 1))
    for k in sorted(reach):
        f = m.funcs.get(k)
        if f is None:
            continue
        cx = FuncCtx(m, f)
        bad = []
        for s_ in kids(f.body):
            c = assert_condition(s_)
            if c is None:
                continue
            cc = cx.canon(c)
            if re.search(r"find_index\(.*\) != 0|cmi_hashheap_is_enqueued|heap_count > 0|cmi_hashheap_count\(.*\) > 0|"
                         r"heap_count != 0", cc):
                bad.append(cc)
        r2.instance("%s: %d membership/count release assertion(s)" % (f.name, len(bad)))
        if bad:
            rep.finding(r2, f.name, "assert-on-empty", "%s is reached while unwinding a process and aborts when %s is false; "
                        "the entry may legitimately be gone (already executed, granted or cancelled) or the queue empty"
                        % (f.name, bad[0]), where=m.rel(f.where))
            r2.fail()
        else:
            r2.ok()

    # R-C04-3 ------------------------------------------------------------
    r3 = rep.rule("R-C04-3", "cmi_process_cancel_awaiteds is always applied to the process that the caller then resumes with "
                  "a non-success signal, stops or ends - never to the running process on behalf of another", floor=3)
    for f, c in inv.calls_to(m, "cmi_process_cancel_awaiteds"):
        cx = FuncCtx(m, f)
        who = cx.canon(kids(c)[1])
        targets = set()
        for x in walk(f.body):
            if x["kind"] != "CallExpr":
                continue
            nm = callee_ref(x)
            if nm in ("cmi_coroutine_resume", "cmi_coroutine_stop"):
                targets.add(cx.canon(kids(x)[1]))
            if nm == "cmb_event_schedule":
                targets.add(cx.canon(kids(x)[2]))
            if nm in ("cmi_coroutine_exit",):
                targets.add("cmb_process_current()")
            if nm == "cmb_process_interrupt":
                targets.add(cx.canon(kids(x)[1]))
        r3.instance("%s: cancel_awaiteds(%s); targets %s" % (f.name, who, sorted(targets)))
        rep.sample({"rule": "R-C04-3", "function": f.name, "unwound": who, "woken_or_ended": sorted(targets)})
        if who not in targets:
            rep.finding(r3, f.name, "cancel-awaiteds:wrong-process", "%s unwinds the awaiteds of '%s' but the process it "
                        "wakes / stops / ends is %s: the wrong process loses its timers and registrations"
                        % (f.name, who, sorted(targets)), where=m.rel(loc(c)))
            r3.fail()
        else:
            r3.ok()

    # R-C04-4 ------------------------------------------------------------
    r4 = rep.rule("R-C04-4", "hold(d) arms a wake-up with the success code at exactly now + d and returns the resume value "
                  "unchanged; on another signal it cancels exactly that wake-up", floor=2)
    ta = m.need("cmb_process_timer_add")
    tx = FuncCtx(m, ta)
    sc = [c for c in walk(ta.body) if c["kind"] == "CallExpr" and callee_ref(c) == "cmb_event_schedule"]
    okt = False
    if len(sc) == 1:
        a = [tx.canon(z) for z in kids(sc[0])[1:]]
        pn = [p["name"] for p in ta.params]
        r4.instance("timer_add schedules (%s)" % ", ".join(a))
        rep.sample({"rule": "R-C04-4", "timer_add": a})
        # a clamp of the duration at zero is the duration itself where the routine asserts dur >= 0 at its top level:
        # in the arm where the test leaves dur == 0 the literal zero (or dur) is the duration, an arm that needs dur < 0 is
        # dead, the other arm must be dur.  Anything else about the conditional stays as written (and is not accepted).
        from ..vals import assert_condition as _ac
        asserted = set()
        for st_ in kids(ta.body):
            c_ = _ac(st_) if st_["kind"] in ("ParenExpr", "ConditionalOperator", "CStyleCastExpr") else None
            if c_ is not None:
                asserted.add(tx.canon(c_))
        if "(%s >= 0.0)" % pn[1] in asserted or "(%s >= 0)" % pn[1] in asserted:
            d_ = re.escape(pn[1])
            zero = r"(?:0\.0|0|%s)" % d_
            for pat in (r"\(\(%s > (?:0\.0|0)\) \? %s : %s\)" % (d_, d_, zero),
                        r"\(\(%s <= (?:0\.0|0)\) \? %s : %s\)" % (d_, zero, d_),
                        r"\(\(%s == (?:0\.0|0)\) \? %s : %s\)" % (d_, zero, d_),
                        r"\(\(%s != (?:0\.0|0)\) \? %s : %s\)" % (d_, d_, zero),
                        r"\(\(%s < (?:0\.0|0)\) \? [^?:()]+ : %s\)" % (d_, d_),
                        r"\(\(%s >= (?:0\.0|0)\) \? %s : [^?:()]+\)" % (d_, d_)):
                a[3] = re.sub(pat, pn[1], a[3])
        okt = a[0] == "wakeup_event_time" and a[1] == pn[0] and a[2] == pn[2] and \
            a[3] in ("(cmb_time() + %s)" % pn[1], "(sim_time + %s)" % pn[1], "(%s + cmb_time())" % pn[1]) and \
            a[4] == pn[0] + "->priority"
        aw = [c for c in walk(ta.body) if c["kind"] == "CallExpr" and callee_ref(c) == "cmi_process_add_awaitable"]
        okt = okt and len(aw) == 1 and [tx.canon(z) for z in kids(aw[0])[1:]][:2] == [pn[0], "CMI_PROCESS_AWAITABLE_TIME"] \
            and tx.canon(kids(aw[0])[3]) == tx.canon(sc[0])
        rv = [tx.canon(kids(x)[0]) for x in walk(ta.body) if x["kind"] == "ReturnStmt"]
        okt = okt and len(rv) == 1 and rv[0] == tx.canon(sc[0])
    if not okt:
        rep.finding(r4, ta.name, "timer:schedule", "a timer is not scheduled as (wakeup_event_time, process, signal, now + "
                    "duration, priority) and registered under its handle", where=m.rel(ta.where))
        r4.fail()
    else:
        r4.ok()
    hd = m.need("cmb_process_hold")
    hx = FuncCtx(m, hd)
    tc = [c for c in walk(hd.body) if c["kind"] == "CallExpr" and callee_ref(c) == "cmb_process_timer_add"]
    okh = False
    if len(tc) == 1:
        a = [hx.canon(z) for z in kids(tc[0])[1:]]
        r4.instance("hold arms (%s)" % ", ".join(a))
        okh = a[0] == "cmb_process_current()" and a[1] == hd.params[0]["name"] and common.sigval(a[2]) == SIG["CMB_PROCESS_SUCCESS"]
    rv = []
    YV = "cmi_coroutine_yield(NULL)"
    for x in walk(hd.body):
        if x["kind"] != "ReturnStmt" or not kids(x):
            continue
        v_ = hx.canon(kids(x)[0])
        if v_ != YV:
            # a constant returned where the resume value is known to equal it is the resume value
            sv = common.sigval(v_)
            for cd in inv.dominating_conditions(hx, hd, x):
                mm = re.fullmatch(r"\(%s == (.+)\)" % re.escape(YV), cd) or re.fullmatch(r"\((.+) == %s\)" % re.escape(YV), cd)
                if mm and sv is not None and common.sigval(mm.group(1)) == sv:
                    v_ = YV
        rv.append(v_)
    rv = sorted(set(rv))
    if not okh or rv != [YV]:
        rep.finding(r4, hd.name, "hold", "hold does not arm (current process, duration, success) and return the resume value "
                    "(%s)" % rv, where=m.rel(hd.where))
        r4.fail()
    else:
        r4.ok()
    cc = [c for c in walk(hd.body) if c["kind"] == "CallExpr" and callee_ref(c) == "cmb_process_timer_cancel"]
    def not_success(cd):
        pos = re.fullmatch(r"\(%s != (.+)\)" % re.escape(YV), cd)
        neg = re.fullmatch(r"!\(%s == (.+)\)" % re.escape(YV), cd)
        mm = pos or neg
        return bool(mm) and common.sigval(mm.group(1)) == SIG["CMB_PROCESS_SUCCESS"]
    okc = len(cc) == 1 and hx.canon(kids(cc[0])[2]).startswith("cmb_process_timer_add(") and \
        any(not_success(cd) for cd in inv.dominating_conditions(hx, hd, cc[0]))
    if not okc:
        rep.finding(r4, hd.name, "hold:cancel-own", "on another signal hold does not cancel exactly the wake-up it armed",
                    where=m.rel(hd.where))
        r4.fail()
    else:
        r4.ok()

    # R-C04-5 ------------------------------------------------------------
    r5 = rep.rule("R-C04-5", "deliverers: every wake-up action resumes its subject with the scheduled value; the timer "
                  "wake-up removes exactly the fired timer's awaitable (by the current event handle); process/event "
                  "wake-ups remove their awaitable; interrupts unwind the target first; wake-ups are scheduled at the "
                  "current time", floor=6)
    wake_fns = sorted({f.key for f, c in inv.calls_to(m, "cmi_coroutine_resume")})
    for k in wake_fns:
        f = m.funcs[k]
        if len(f.params) != 2:
            continue
        fx = FuncCtx(m, f)
        res = [c for c in walk(f.body) if c["kind"] == "CallExpr" and callee_ref(c) == "cmi_coroutine_resume"]
        a = [fx.canon(z) for z in kids(res[0])[1:]]
        r5.instance("%s resumes (%s)" % (f.name, ", ".join(a)))
        if len(res) != 1 or a != [f.params[0]["name"], f.params[1]["name"]]:
            rep.finding(r5, f.name, "deliver", "%s resumes (%s), not its subject with the scheduled value" % (f.name, a),
                        where=m.rel(f.where))
            r5.fail()
        else:
            r5.ok()
    timer_awaitable_clause(rep, r5, m)
    wi = m.need(m.resolve(hd.unit, "wakeup_event_interrupt"))
    wix = FuncCtx(m, wi)
    names = [callee_ref(c) for c in walk(wi.body) if c["kind"] == "CallExpr"]
    oki = "cmi_process_cancel_awaiteds" in names and "cmi_coroutine_resume" in names and \
        names.index("cmi_process_cancel_awaiteds") < names.index("cmi_coroutine_resume")
    if not oki:
        rep.finding(r5, wi.name, "interrupt:unwind", "an interrupt does not unwind the target's awaiteds before resuming it",
                    where=m.rel(wi.where))
        r5.fail()
    else:
        r5.ok()
    # schedulers of wake-ups use the current time
    for f in m.funcs.values():
        fx = None
        for c in walk(f.body):
            if c["kind"] == "CallExpr" and callee_ref(c) == "cmb_event_schedule":
                fx = fx or FuncCtx(m, f)
                a = [fx.canon(z) for z in kids(c)[1:]]
                if a[0].startswith(("wakeup_event_", "resume_event", "start_event")) and a[0] != "wakeup_event_time":
                    r5.instance("%s schedules %s at %s" % (f.name, a[0], a[3]))
                    if a[3] not in ("cmb_time()", "sim_time"):
                        rep.finding(r5, f.name, "wake:time", "%s schedules %s at '%s', not at the current time"
                                    % (f.name, a[0], a[3]), where=m.rel(loc(c)))
                        r5.fail()
                    else:
                        r5.ok()
    # list-removal discipline of the registration helpers
    for fn in ("cmi_process_remove_awaitable", "cmi_process_remove_waiter", "cmi_event_remove_waiter", "cmb_process_timers_clear"):
        listrules.check_list_removal(rep, r5, m, fn)

    # R-C04-6 ------------------------------------------------------------
    r6 = rep.rule("R-C04-6", "armed timers stay armed: wildcard cancellation of all events of a process happens only in the "
                  "unwinding routine; every other pattern cancel names one specific wake-up action", floor=3)
    for f, c in inv.calls_to(m, "cmb_event_pattern_cancel"):
        if not (m.rel(f.file) or "").startswith(("src/", "include/")):
            continue
        fx = FuncCtx(m, f)
        a = [fx.canon(z) for z in kids(c)[1:]]
        wild = re.search(r"18446744073709551615|ANY|^-1$", a[0]) is not None
        r6.instance("%s: pattern_cancel(%s)" % (f.name, ", ".join(a)))
        if wild and f.name != "cmi_process_cancel_awaiteds":
            rep.finding(r6, f.name, "wildcard-cancel", "%s cancels every pending event of '%s' (wildcard action): timers the "
                        "process has armed are lost although it was not interrupted, stopped or ended" % (f.name, a[1]),
                        where=m.rel(loc(c)))
            r6.fail()
        else:
            r6.ok()
    tcl = m.need("cmb_process_timers_clear")
    tcx = FuncCtx(m, tcl)
    # every withdrawal (event cancel / tag recycling) in timers_clear happens under 'the awaitable is a TIME one'
    acts = [x for x in walk(tcl.body) if x["kind"] == "CallExpr" and callee_ref(x) in ("cmb_event_cancel", "cmi_mempool_free", "cmi_slist_pop")]
    def time_only(n_):
        return any(re.search(r"^\(.*type == (CMI_PROCESS_AWAITABLE_TIME|enum:CMI_PROCESS_AWAITABLE_TIME|\d+)\)$|^!\(.*type != (CMI_PROCESS_AWAITABLE_TIME|\d+)\)$", cd)
                   for cd in inv.dominating_conditions(tcx, tcl, n_))
    if not acts or not all(time_only(x) for x in acts):
        rep.finding(r6, tcl.name, "timers-clear:kind", "timers_clear does not restrict itself to TIME awaitables", where=m.rel(tcl.where))
        r6.fail()
    else:
        r6.ok()


    # R-C04-7 ------------------------------------------------------------
    r7 = rep.rule("R-C04-7", "the event queue delivers its wake-ups (to processes waiting for an event that is executed or "
                  "cancelled) from storage that outlives the removal: in src/cmb_event.c no pointer into the queue's slots is "
                  "used or handed on after a call that can reshuffle or grow the queue (restriction of R-C10-1 to the event "
                  "queue; a dangling slot pointer makes a waiter return for another event's cause)", floor=3)
    from . import c10
    out, roots, _, _ = c10.pointer_lifetime(m)
    ev_roots = {f.name for f in roots if (m.rel(f.file) or "") == "src/cmb_event.c"}
    for o in sorted(out["origins"]):
        if o[0] in ev_roots:
            r7.instance("%s: %s(%s) at %s" % o)
    seen = set()
    nf = 0
    for rid, root, cons, msg, where in out["findings"]:
        if rid != "R-C10-1" or root not in ev_roots or (root, cons) in seen:
            continue
        seen.add((root, cons))
        rep.finding(r7, root, cons, msg, where=where)
        nf += 1
    no = len([o for o in out["origins"] if o[0] in ev_roots])
    r7.obligations += no
    r7.discharged += max(0, no - nf)
    # the records of what a process waits for (timers, awaited events / processes): the handle that withdraws a pending
    # wake-up must not be read from a record that was already returned to its pool when it sits in the record's first
    # word (restriction of R-C10-2 to src/cmb_process.c)
    pr_frees = [o for o in out["frees"] if o[2].startswith("src/cmb_process.c")]
    for o in sorted(pr_frees):
        r7.instance("%s frees to %s at %s" % o)
    nf2 = 0
    for rid, root, cons, msg, where in out["findings"]:
        if rid == "R-C10-2" and cons.startswith("use-after-free:first-word") and where.startswith("src/cmb_process.c") \
                and (root, cons) not in seen:
            seen.add((root, cons))
            rep.finding(r7, root, cons, msg + " - the wake-up it names is then not withdrawn and fires later", where=where)
            nf2 += 1
    r7.obligations += len(pr_frees)
    r7.discharged += max(0, len(pr_frees) - nf2)


    # R-C04-8 ------------------------------------------------------------
    r8 = rep.rule("R-C04-8", "withdrawing wake-ups that are still in flight looks at every pending event: the scan in "
                  "cmb_event_pattern_cancel (used by every unwinding path) visits exactly the slots 1 .. heap_count (shared "
                  "with R-C02-9) - an event in a slot that is never looked at would resume the process out of a later wait", floor=1)
    from . import siftrules
    siftrules.check_scans(rep, r8, m, only={"cmb_event_pattern_cancel"})

    # R-C04-10 -----------------------------------------------------------
    r10 = rep.rule("R-C04-10", "a wait at a guard that returns another code than success ends the operation with exactly that code: "
                   "every path after the wait that can be taken with such a code returns the value the wait returned (it does "
                   "not take the resource, wait again or return success)", floor=6)
    wait_result_rule(rep, r10, m)

    # R-C04-9 ------------------------------------------------------------
    r9 = rep.rule("R-C04-9", "a process that is interrupted, preempted or stopped while it waits for another process or for an "
                  "event is taken off *that* object's waiter list: the unwinding routine undoes every kind of awaitable with "
                  "the matching deregistration, called on the registered object for this process (not the other way round) - "
                  "a registration left behind resumes the process later, out of an unrelated wait (shared with R-C09-3)",
                  floor=4)
    from . import c09
    c09.unwind_inverses(rep, r9, m)


def run(tier="quick"):
    models = common.load_models(tier)
    rep = Report(PID, tier, models[0])
    rep.assumptions = ["event order at equal time is (priority, handle) as decided by C01",
                       "user callbacks do not yield inside library regions"]
    rep.not_decided = ["return times and 'exactly one cause' for arbitrary coincidences (a property of event ordering at "
                       "equal times)"]
    for m in models:
        rep.configs.append(m.config)
        common.run_rules(rep, m, rules)
    return rep.finish()
