"""C14 - Recorded histories equal the true state trajectory; time averages are exact."""
import re

from ..astutil import kids, strip, walk, callee_ref, render, loc, int_value
from ..frontend import AnalysisBroken
from ..report import Report
from ..vals import FuncCtx
from ..engines import region
from .. import inv
from . import common, regionrules

PID = "C14"
EXPECT_VALUE = {"cmb_resourcepool": r"{O}->in_use", "cmb_buffer": r"{O}->level", "cmb_objectqueue": r"{O}->length",
                "cmb_priorityqueue": r"{O}->queue\.heap_count"}


def rules(rep, m):
    res = region.analyse(m)
    # R-C14-1 / R-C14-2 --------------------------------------------------
    r1 = rep.rule("R-C14-1", "in every atomic region of the five classes, a write that may change the recorded "
                  "quantity (in-use / level / length) is followed by a history sample before the region ends, unless "
                  "the quantity is provably back at its value at the last sample or recording is known off; no write "
                  "follows the last sample (sample after change)", floor=12)
    ev = {}
    for root, obj, direction, what in res["events"]:
        if re.search(r"_(initialize|terminate|create|destroy|reset)$", root):
            continue
        ev.setdefault(root, set()).add(direction)
    for root, ds in sorted(ev.items()):
        r1.instance("%s: state changes %s" % (root, sorted(ds)))
    regionrules.file_findings(rep, r1, res, "R-C14-1")
    bad = {fd.func for fd in res["findings"] if fd.rule == "R-C14-1"}
    r1.obligations += len(ev)
    r1.discharged += len([r for r in ev if r not in bad])
    r1.notes.append(regionrules.roots_summary(res))

    # the sample records the state itself, at the current time
    r2 = rep.rule("R-C14-2", "every history sample records the class's state expression (holder != NULL as 1/0, "
                  "in_use, level, length, heap count) read at the time of the sample, stamped with the current "
                  "simulation time", floor=5)
    samplers = {}
    for cls, info in region.CLASSES.items():
        for f in m.funcs.values():
            if m.rel(f.file) != info["unit"]:
                continue
            for c in walk(f.body):
                if c["kind"] == "CallExpr" and callee_ref(c) == "cmb_timeseries_add":
                    samplers.setdefault(cls, []).append((f, c))
    for cls, lst in sorted(samplers.items()):
        for f, c in lst:
            cx = FuncCtx(m, f)
            a = [cx.canon(x) for x in kids(c)[1:]]
            r2.instance("%s.%s: cmb_timeseries_add(%s)" % (cls, f.name, ", ".join(a)))
            rep.sample({"rule": "R-C14-2", "class": cls, "sampler": f.name, "args": a})
            mm = re.fullmatch(r"&(.+)->history", a[0])
            ok = True
            if not mm:
                rep.finding(r2, f.name, "sample:target", "sample goes to '%s', not the object's history" % a[0],
                            where=m.rel(loc(c)))
                ok = False
            else:
                O = mm.group(1)
                if cls == "cmb_resource":
                    want = "((%s->holder != NULL) ? 1 : 0)" % O
                    got = a[1].replace("1.0", "1").replace("0.0", "0")
                    if got in ("((%s->holder == NULL) ? 0 : 1)" % O, "(!(%s->holder == NULL) ? 1 : 0)" % O,
                               "(!(%s->holder != NULL) ? 0 : 1)" % O, "(%s->holder != NULL)" % O, "!(%s->holder == NULL)" % O):
                        got = want          # the same function of the holder, spelled from the other side
                    if got != want:
                        # the same function of the holder spelled with if / else on a local (possibly an inlined helper's
                        # result): every value it is given is 1 under 'holder != NULL' and 0 under 'holder == NULL'
                        v0 = strip(kids(c)[2], casts=True)
                        HELD = ("(%s->holder != NULL)" % O, "!(%s->holder == NULL)" % O)
                        FREE = ("(%s->holder == NULL)" % O, "!(%s->holder != NULL)" % O)

                        def defs_of(vid, depth=0):
                            out = []
                            for d_ in walk(f.body):
                                if d_["kind"] == "VarDecl" and d_["id"] == vid and kids(d_):
                                    out.append((kids(d_)[0], d_))
                            for l_, r_, k_, n_ in inv.stores(f):
                                l0 = strip(l_, casts=True)
                                if l0["kind"] == "DeclRefExpr" and l0["ref"]["id"] == vid and r_ is not None and k_ == "=":
                                    out.append((r_, n_))
                            res = []
                            for val, node in out:
                                v1 = strip(val, casts=True)
                                if v1["kind"] == "DeclRefExpr" and v1["ref"].get("kind") == "VarDecl" and depth < 4:
                                    res.extend(defs_of(v1["ref"]["id"], depth + 1))
                                else:
                                    res.append((val, node))
                            return res
                        if v0["kind"] == "DeclRefExpr" and v0["ref"].get("kind") == "VarDecl":
                            ds = defs_of(v0["ref"]["id"])
                            seen_ = set()
                            fine = bool(ds)
                            for val, node in ds:
                                vc = cx.canon(val).replace("1.0", "1").replace("0.0", "0")
                                cds = inv.dominating_conditions(cx, f, node)
                                if vc == want:
                                    seen_ |= {0, 1}
                                elif vc == "1" and any(cd in HELD for cd in cds):
                                    seen_.add(1)
                                elif vc == "0" and any(cd in FREE for cd in cds):
                                    seen_.add(0)
                                else:
                                    fine = False
                            if fine and seen_ == {0, 1}:
                                got = want
                    if got != want:
                        rep.finding(r2, f.name, "sample:value", "recorded value '%s' is not (holder != NULL) ? 1 : 0"
                                    % a[1], where=m.rel(loc(c)))
                        ok = False
                else:
                    pat = EXPECT_VALUE[cls].replace("{O}", re.escape(O))
                    if not re.fullmatch(pat, a[1]):
                        rep.finding(r2, f.name, "sample:value", "recorded value '%s' is not the %s state field"
                                    % (a[1], cls), where=m.rel(loc(c)))
                        ok = False
            if a[2] not in ("cmb_time()", "sim_time"):
                rep.finding(r2, f.name, "sample:time", "sample stamped with '%s', not the current simulation time"
                            % a[2], where=m.rel(loc(c)))
                ok = False
            (r2.ok if ok else r2.fail)()
    if len(samplers) < 5:
        raise AnalysisBroken("history samplers found for %d of 5 classes" % len(samplers))

    # R-C14-3 ------------------------------------------------------------
    r3 = rep.rule("R-C14-3", "start-recording switches the flag on and then samples; stop-recording samples and then "
                  "switches the flag off", floor=10)
    for cls, info in region.CLASSES.items():
        for f in m.funcs.values():
            if m.rel(f.file) != info["unit"] or not re.search(r"(start_recording|recording_start|stop_recording|recording_stop)$", f.name):
                continue
            start = "start" in f.name
            order = []
            conditional = None
            returned = False
            order_so_far = []
            for s in kids(f.body):
                branching = s["kind"] in ("IfStmt", "WhileStmt", "ForStmt", "DoStmt", "SwitchStmt")
                if s["kind"] == "IfStmt":
                    # the samplers' own idiom "if (x->is_recording) sample": the flag is on at this point of
                    # start-recording, and stop-recording with the flag off has nothing to close
                    cond = strip(kids(s)[0], casts=True)
                    flag_on = cond.get("kind") == "MemberExpr" and cond.get("name") == "is_recording"
                    flag_off = cond.get("kind") == "UnaryOperator" and cond.get("opcode") == "!" and \
                        strip(kids(cond)[0], casts=True).get("kind") == "MemberExpr" and \
                        strip(kids(cond)[0], casts=True).get("name") == "is_recording"
                    seen_flag = any(o[0] == "flag" for o in order_so_far)
                    if flag_on and len(kids(s)) == 2 and (not start or seen_flag):
                        branching = False
                    if flag_off and not start and len(kids(s)) == 2 and \
                            [x["kind"] for x in walk(kids(s)[1]) if x["kind"] not in ("CompoundStmt",)] == ["ReturnStmt"]:
                        continue
                for x in walk(s):
                    hit = (x["kind"] == "BinaryOperator" and x.get("opcode") == "=" and
                           strip(kids(x)[0], casts=True).get("name") == "is_recording") or \
                          (x["kind"] == "CallExpr" and callee_ref(x) in ("record_sample", "cmb_timeseries_add"))
                    if hit and (branching or returned) and conditional is None:
                        conditional = "inside a %s" % s["kind"] if branching else "after an early return"
                    if hit and x["kind"] == "BinaryOperator":
                        order_so_far.append(("flag", None))
                if any(x["kind"] == "ReturnStmt" for x in walk(s)):
                    returned = True
                for x in walk(s):
                    if x["kind"] == "BinaryOperator" and x.get("opcode") == "=" and \
                            strip(kids(x)[0], casts=True).get("name") == "is_recording":
                        order.append(("flag", int_value(kids(x)[1])))
                    if x["kind"] == "CallExpr" and callee_ref(x) in ("record_sample", "cmb_timeseries_add"):
                        order.append(("sample", None))         # through the sampling routine or directly into the history
            r3.instance("%s: %s" % (f.name, order))
            want = [("flag", 1), ("sample", None)] if start else [("sample", None), ("flag", 0)]
            if order != want:
                rep.finding(r3, f.name, "recording-order", "%s does %s; expected %s" % (f.name, order, want),
                            where=m.rel(f.where))
                r3.fail()
            elif conditional:
                rep.finding(r3, f.name, "recording-conditional", "%s switches the flag / samples only on some paths (%s): "
                            "the state at the %s of recording can be missing from the history"
                            % (f.name, conditional, "start" if start else "stop"), where=m.rel(f.where))
                r3.fail()
            else:
                r3.ok()

    # R-C14-4 ------------------------------------------------------------
    r4 = rep.rule("R-C14-4", "cmb_timeseries_add stores the time at the new index, a zero weight for the new sample and "
                  "the elapsed time (t - previous time) as the weight of the previous sample; the summary feeds "
                  "(value, weight) pairs for all but the last sample", floor=2)
    ta = m.need("cmb_timeseries_add")
    cx = FuncCtx(m, ta)
    st = {}
    for lhs, rhs, kind, node in inv.stores(ta):
        st[cx.canon(lhs)] = (cx.canon(rhs) if rhs is not None else kind, node)
    tsp, xv, tv = [p["name"] for p in ta.params]
    newi = "%s->count" % tsp
    got = {k: v[0] for k, v in st.items()}
    r4.instance("cmb_timeseries_add stores %s" % got)
    rep.sample({"rule": "R-C14-4", "stores": got})
    want = {"%s->ta[%s]" % (tsp, newi): tv,
            "%s->wa[%s]" % (tsp, newi): "0.0",
            "%s->wa[(%s - 1)]" % (tsp, newi): "(%s - %s->ta[(%s - 1)])" % (tv, tsp, newi)}
    for k, v in want.items():
        g = got.get(k)
        if g is None or g.replace("0.0", "0") != v.replace("0.0", "0"):
            rep.finding(r4, ta.name, "store:" + k.split("->")[1].split("[")[0] + ("-prev" if "- 1" in k else ""),
                        "expected %s = %s, found %s" % (k, v, g), where=m.rel(ta.where))
            r4.fail()
        else:
            r4.ok()
    # previous weight only when there is a previous sample
    guarded = False
    posre = [r"\(%s > 0\)" % re.escape(newi), r"\(%s != 0\)" % re.escape(newi), r"\(%s >= 1\)" % re.escape(newi),
             r"!\(%s == 0\)" % re.escape(newi), r"!\(%s < 1\)" % re.escape(newi), r"!\(%s <= 0\)" % re.escape(newi)]
    for l, r, k, n in inv.stores(ta):
        if cx.canon(l) == "%s->wa[(%s - 1)]" % (tsp, newi):
            if any(re.fullmatch(pt, cd) for cd in inv.dominating_conditions(cx, ta, n) for pt in posre):
                guarded = True
    if not guarded:
        rep.finding(r4, ta.name, "prev-guard", "the previous sample's weight is not updated under 'there is a "
                    "previous sample'", where=m.rel(ta.where))
        r4.fail()
    else:
        r4.ok()
    # the count used as index is read before cmb_dataset_add increments it
    ui_idx = None
    add_idx = None
    for i, s in enumerate(kids(ta.body)):
        for x in walk(s):
            if x["kind"] == "VarDecl" and x.get("name") == "ui_new":
                ui_idx = i
            if x["kind"] == "CallExpr" and callee_ref(x) == "cmb_dataset_add":
                add_idx = i
    if ui_idx is None or add_idx is None or not ui_idx <= add_idx:
        # structural fallback: the index must be taken before the value is appended
        if add_idx is None:
            raise AnalysisBroken("cmb_timeseries_add no longer appends through cmb_dataset_add")
        idxs = [i for i, s in enumerate(kids(ta.body)) for x in walk(s)
                if x["kind"] == "VarDecl" and "count" in cx.canon(kids(x)[0] if kids(x) else x)]
        if not idxs or min(idxs) > add_idx:
            rep.finding(r4, ta.name, "index-after-append", "the new sample's index is read after the value was appended",
                        where=m.rel(ta.where))
            r4.fail()
    else:
        r4.ok()
    sm = m.need("cmb_timeseries_summarize")
    scx = FuncCtx(m, sm)
    adds = [c for c in walk(sm.body) if c["kind"] == "CallExpr" and callee_ref(c) == "cmb_wtdsummary_add"]
    fors = [x for x in walk(sm.body) if x["kind"] == "ForStmt"]
    if len(adds) != 1 or len(fors) != 1:
        raise AnalysisBroken("cmb_timeseries_summarize: expected one loop with one cmb_wtdsummary_add")
    # induction variables of the loop: the pair fed is (xa[it], wa[it]) for it = 0 .. count - 2, whether the loop indexes the
    # arrays or walks two pointers with a separate counter
    ivars, guard = inv.induction_vars(scx, sm, fors[0])
    trips = inv.trip_count(ivars, guard)
    p0 = sm.params[0]["name"]

    def element(argnode):
        """(array canon, offset as 'it' multiple) of the value passed: A[i] with i = 0 + it, or *p with p = A + it"""
        n_ = scx.resolve(argnode)
        if n_["kind"] == "ArraySubscriptExpr":
            i_ = strip(kids(n_)[1], casts=True)
            if i_["kind"] == "DeclRefExpr" and ivars.get(i_["ref"]["name"]) == ("0", 1):
                return scx.canon(kids(n_)[0]), "it"
        if n_["kind"] == "UnaryOperator" and n_.get("opcode") == "*":
            p_ = strip(kids(n_)[0], casts=True)
            if p_["kind"] == "DeclRefExpr" and p_["ref"]["name"] in ivars and ivars[p_["ref"]["name"]][1] == 1:
                # the pointer must be dereferenced before it is advanced in the iteration
                return ivars[p_["ref"]["name"]][0], "it"
        return scx.canon(argnode), None
    e1, e2 = element(kids(adds[0])[2]), element(kids(adds[0])[3])
    r4.instance("summarize: add(%s[%s], %s[%s]) for %s iterations" % (e1[0], e1[1], e2[0], e2[1], trips))
    okv = e1[1] == "it" and e2[1] == "it" and re.fullmatch(r"%s->xa|\S+->xa" % p0, e1[0]) and re.fullmatch(r"%s->wa" % p0, e2[0])
    # a pointer that is advanced before it is dereferenced in the same iteration would be off by one
    for y in walk(kids(fors[0])[-1]):
        if y is adds[0]:
            break
        if y["kind"] == "UnaryOperator" and y.get("opcode") in ("++", "--"):
            t_ = strip(kids(y)[0], casts=True)
            if t_["kind"] == "DeclRefExpr" and t_["ref"]["name"] in ivars and any(
                    z["kind"] == "DeclRefExpr" and z["ref"]["name"] == t_["ref"]["name"] for z in walk(adds[0])):
                okv = False
    if not okv:
        rep.finding(r4, sm.name, "summarize:pairs", "summary is fed (%s[%s], %s[%s]), not (xa[i], wa[i]) for the same i" %
                    (e1[0], e1[1], e2[0], e2[1]), where=m.rel(loc(adds[0])))
        r4.fail()
    else:
        r4.ok()
    if trips is None or not re.fullmatch(r"\(%s->count - 1\)|\(\S+->count - 1\)" % p0, trips):
        rep.finding(r4, sm.name, "summarize:range", "summary loop runs %s times; expected count - 1 (the last "
                    "sample has no duration yet)" % (trips if trips else "an undetermined number of"), where=m.rel(loc(fors[0])))
        r4.fail()
    else:
        r4.ok()


def run(tier="quick"):
    models = common.load_models(tier)
    rep = Report(PID, tier, models[0])
    rep.assumptions = ["user callbacks do not yield inside library regions",
                       "the arithmetic of the weighted mean itself is not decided (C17 covers its homogeneity)"]
    rep.not_decided = ["numerical value of the time-weighted mean"]
    for m in models:
        rep.configs.append(m.config)
        common.run_rules(rep, m, rules)
    return rep.finish()
