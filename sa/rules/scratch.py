"""Shared rule: subscripts of locally allocated scratch arrays stay below the allocated element count.

For every local pointer (or pointer parameter) P of a function that is given storage by `cmi_malloc(E * sizeof(T))` /
`cmi_calloc(E, sizeof(T))`, every subscript P[idx] in the function - and every subscript of the matching parameter in a
library function P is handed to - is an obligation  idx <= E - 1.  idx and E are polynomials over

  * stable symbols: parameters and locals that are never stored to after their initialiser (a stable local with a
    convertible initialiser is additionally equated with it), and member reads `a->b` that the function never stores to;
  * loop variables of enclosing `for` loops that are advanced by a constant only in the increment expression
    (range: the entry value on one side, the loop test on the other);
  * counters: locals initialised to 0 whose only other modification is a single `++` inside a single counting loop
    (the subscript P[c++] sees at most the number of completed iterations; after the loop c is at most the trip count).

The facts are the release assertions of the function that precede the site, the conditions that dominate it, the loop
tests and entry values of the enclosing loops, and non-negativity of unsigned symbols.  The obligation is decided by
Fourier-Motzkin elimination (engine IDX's Facts; products of symbols are treated as opaque symbols, which is a sound
relaxation).  A subscript whose index is outside this fragment is *undecided*: it is listed, never reported.  A
finding is reported only when index and count are both inside the fragment and the facts do not entail the bound.
Unsigned wrap-around of the count expressions themselves is not modelled (n + 1 is taken as n + 1).
"""
import re

from ..astutil import kids, strip, walk, callee_ref, render, loc, int_value
from ..engines.induct import Poly, Facts
from ..frontend import AnalysisBroken
from ..vals import assert_condition, FuncCtx
from .. import inv

ALLOCS = ("cmi_malloc", "cmi_calloc")


def _linearise(p):
    """monomials of degree > 1 become opaque symbols"""
    q = Poly()
    for k, v in p.items():
        if len(k) <= 1:
            q[k] = q.get(k, 0) + v
        else:
            q[("*".join(k),)] = q.get(("*".join(k),), 0) + v
    return q


class FuncBounds:
    def __init__(self, m, f, ns=""):
        self.m, self.f, self.ns = m, f, ns
        self.unsigned = set()
        self.store_sites = {}          # local name -> [(kind, node)]
        self.member_stores = set()
        for lhs, rhs, kind, node in inv.stores(f):
            l = strip(lhs, casts=True)
            if l["kind"] == "DeclRefExpr":
                self.store_sites.setdefault(l["ref"]["name"], []).append((kind, node, rhs))
            elif l["kind"] == "MemberExpr":
                self.member_stores.add(l.get("name"))
        self.decls = {}
        for n in walk(f.body):
            if n["kind"] == "VarDecl":
                self.decls.setdefault(n["name"], []).append(n)
        self.params = {p["name"]: p for p in f.params}
        self.loops = [n for n in walk(f.body) if n["kind"] == "ForStmt"]
        self.loopvar = {}              # name -> (loop, entry poly, step, steps only in inc)
        for lp in self.loops:
            ch = kids(lp)
            init, cond, inc, body = ch[0], ch[2], ch[3], ch[4]
            if inc is None or inc.get("kind") is None:
                continue
            t, d = self._step(inc)
            if t is None:
                continue
            # entry value: the init declares or assigns it
            entry = None
            if init is not None and init.get("kind") == "DeclStmt":
                for vd in kids(init):
                    if vd["kind"] == "VarDecl" and vd["name"] == t and kids(vd):
                        entry = kids(vd)[0]
            elif init is not None and init.get("kind") == "BinaryOperator" and init.get("opcode") == "=":
                l = strip(kids(init)[0], casts=True)
                if l["kind"] == "DeclRefExpr" and l["ref"]["name"] == t:
                    entry = kids(init)[1]
            if entry is None:
                continue
            # the variable is stepped nowhere else inside the loop
            others = [s for s in self.store_sites.get(t, []) if s[1] is not strip(inc, casts=True) and
                      any(y is s[1] for y in walk(body))]
            if others or len(self.decls.get(t, [])) > 1 and init.get("kind") != "DeclStmt":
                continue
            self.loopvar.setdefault(t, []).append((lp, entry, d))

    # ------------------------------------------------------------ helpers
    @staticmethod
    def _step(inc):
        n = strip(inc, casts=True)
        if n["kind"] == "UnaryOperator" and n.get("opcode") in ("++", "--"):
            t = strip(kids(n)[0], casts=True)
            if t["kind"] == "DeclRefExpr":
                return t["ref"]["name"], (1 if n["opcode"] == "++" else -1)
        if n["kind"] == "CompoundAssignOperator" and n.get("opcode") in ("+=", "-="):
            t = strip(kids(n)[0], casts=True)
            v = int_value(strip(kids(n)[1], casts=True))
            if t["kind"] == "DeclRefExpr" and v is not None and v > 0:
                return t["ref"]["name"], (v if n["opcode"] == "+=" else -v)
        return None, None

    def sym(self, name):
        return Poly.sym(self.ns + name)

    def stable(self, name):
        """never stored to apart from its single initialiser"""
        if self.store_sites.get(name):
            return False
        if name in self.params:
            return True
        return len(self.decls.get(name, [])) == 1

    def counter(self, name):
        """(loop, increment node) if `name` starts at 0 and is only ever incremented by one ++ inside one for loop"""
        ds = self.decls.get(name, [])
        if len(ds) != 1 or not kids(ds[0]) or int_value(strip(kids(ds[0])[0], casts=True)) != 0:
            return None
        ss = self.store_sites.get(name, [])
        if len(ss) != 1 or ss[0][0] != "++":
            return None
        node = ss[0][1]
        loops = [a for a in inv.enclosing_chain(self.f, node) if a["kind"] in ("ForStmt", "WhileStmt", "DoStmt")]
        if len(loops) != 1 or loops[0]["kind"] != "ForStmt":
            return None
        # the declaration precedes the loop
        if any(y is ds[0] for y in walk(loops[0])):
            return None
        return loops[0], node

    def enclosing_for(self, node, name):
        for lp, entry, d in self.loopvar.get(name, []):
            if any(y is node for y in walk(kids(lp)[4])) or any(y is node for y in walk(kids(lp)[2] or {"kind": "x"})):
                return lp, entry, d
        return None

    def poly(self, n, site, understood):
        """expression -> Poly or None; `understood` collects (kind, name) of the symbols used"""
        n = strip(n, casts=True)
        k = n["kind"]
        v = int_value(n)
        if v is not None:
            return Poly.const(v)
        if k == "DeclRefExpr":
            name = n["ref"]["name"]
            if n["ref"].get("kind") not in ("VarDecl", "ParmVarDecl"):
                return None
            if "unsigned" in (n["ref"].get("type") or "") or re.search(r"\buint\d+_t\b|\bsize_t\b", n["ref"].get("type") or ""):
                self.unsigned.add(self.ns + name)
            if self.stable(name):
                understood.add(("stable", name))
                return self.sym(name)
            if self.enclosing_for(site, name):
                understood.add(("loop", name))
                return self.sym(name)
            if self.counter(name):
                understood.add(("counter", name))
                return self.sym(name)
            return None
        if k == "MemberExpr":
            base = strip(kids(n)[0], casts=True)
            if base["kind"] == "DeclRefExpr" and self.stable(base["ref"]["name"]) and n.get("name") not in self.member_stores:
                nm = "%s->%s" % (base["ref"]["name"], n.get("name"))
                understood.add(("member", nm))
                if "unsigned" in (n.get("type") or "") or re.search(r"\buint\d+_t\b|\bsize_t\b", n.get("type") or ""):
                    self.unsigned.add(self.ns + nm)
                return self.sym(nm)
            return None
        if k == "BinaryOperator" and n.get("opcode") in ("+", "-", "*"):
            a = self.poly(kids(n)[0], site, understood)
            b = self.poly(kids(n)[1], site, understood)
            if a is None or b is None:
                return None
            return a + b if n["opcode"] == "+" else (a - b if n["opcode"] == "-" else a * b)
        if k == "UnaryOperator" and n.get("opcode") in ("++", "--") and not n.get("isPostfix", False) is False:
            pass
        if k == "UnaryOperator" and n.get("opcode") == "++" and n.get("isPostfix"):
            # value of c++ is c
            return self.poly(kids(n)[0], site, understood)
        return None

    def cmp_fact(self, cond, truth, site, facts):
        """add the linear fact of a comparison (cond == truth) if it is inside the fragment"""
        c = strip(cond, casts=True)
        if c["kind"] != "BinaryOperator" or c.get("opcode") not in ("<", "<=", ">", ">=", "==", "!="):
            return facts
        und = set()
        a = self.poly(kids(c)[0], site, und)
        b = self.poly(kids(c)[1], site, und)
        if a is None or b is None:
            return facts
        for kd, nm in und:
            if kd == "counter":
                # a counter is comparable only where it no longer moves: outside (after) its loop, for a site outside it too
                lp, _inc = self.counter(nm)
                if any(y is site for y in walk(lp)) or any(y is c for y in walk(lp)):
                    return facts
        self.fact_syms |= und
        op = c["opcode"]
        if not truth:
            op = {"<": ">=", "<=": ">", ">": "<=", ">=": "<", "==": "!=", "!=": "=="}[op]
        one = Poly.const(1)
        if op == "<":
            facts = facts.add_le0(_linearise(a - b + one))
        elif op == "<=":
            facts = facts.add_le0(_linearise(a - b))
        elif op == ">":
            facts = facts.add_le0(_linearise(b - a + one))
        elif op == ">=":
            facts = facts.add_le0(_linearise(b - a))
        elif op == "==":
            facts = facts.add_le0(_linearise(a - b)).add_le0(_linearise(b - a))
        elif op == "!=":
            # a != 0 for an unsigned a is a >= 1
            if not b and all(s in self.unsigned for s in a.symbols()) and all(v_ > 0 for v_ in a.values()):
                facts = facts.add_le0(_linearise(one - a))
        return facts

    def facts_at(self, site):
        facts = Facts()
        self.fact_syms = set()
        # release assertions at the top level that precede the site
        idx = inv.stmt_index_containing(self.f, site)
        for s in kids(self.f.body)[:idx if idx is not None else 0]:
            c = assert_condition(s)
            if c is not None:
                for cn, t in self._split(c, True):
                    facts = self.cmp_fact(cn, t, site, facts)
        for cn, t in inv.dominating_cond_nodes(self.f, site):
            # a condition on a loop variable is only taken if it is evaluated in the same iteration
            facts = self.cmp_fact(cn, t, site, facts)
        for a in inv.enclosing_chain(self.f, site):
            if a["kind"] == "ForStmt" and any(y is site for y in walk(kids(a)[4])):
                test = kids(a)[2]
                if test is not None and test.get("kind"):
                    for cn, t in self._split(test, True):
                        facts = self.cmp_fact(cn, t, site, facts)
        return facts

    @staticmethod
    def _split(n_, truth):
        res = []

        def rec(x, t):
            x0 = strip(x, casts=True)
            if x0["kind"] == "UnaryOperator" and x0.get("opcode") == "!":
                return rec(kids(x0)[0], not t)
            if x0["kind"] == "BinaryOperator" and ((x0.get("opcode") == "&&" and t) or (x0.get("opcode") == "||" and not t)):
                rec(kids(x0)[0], t)
                rec(kids(x0)[1], t)
                return
            res.append((x0, t))
        rec(n_, truth)
        return res

    def symbol_facts(self, site, understood, facts):
        """ranges of loop variables and counters, definitions of stable locals, unsignedness"""
        done = set()
        work = list(understood)
        while work:
            kd, name = work.pop()
            if (kd, name) in done:
                continue
            done.add((kd, name))
            und = set()
            if kd == "loop":
                lp, entry, d = self.enclosing_for(site, name)
                e = self.poly(entry, lp, und)
                if e is not None:
                    facts = facts.add_le0(_linearise(e - self.sym(name)) if d > 0 else _linearise(self.sym(name) - e))
            elif kd == "stable" and name not in self.params:
                vd = self.decls[name][0]
                if kids(vd):
                    e = self.poly(kids(vd)[0], vd, und)
                    if e is not None and not any(k_ in ("loop", "counter") for k_, _ in und):
                        facts = facts.add_le0(_linearise(e - self.sym(name))).add_le0(_linearise(self.sym(name) - e))
                    elif e is not None and all(k_ != "counter" for k_, _ in und) and \
                            all(self.enclosing_for(site, nm_) for k_, nm_ in und if k_ == "loop"):
                        facts = facts.add_le0(_linearise(e - self.sym(name))).add_le0(_linearise(self.sym(name) - e))
                    else:
                        und = set()
            elif kd == "counter":
                lp, incnode = self.counter(name)
                ch = kids(lp)
                t, d = self._step(ch[3]) if ch[3] is not None and ch[3].get("kind") else (None, None)
                lv = self.loopvar.get(t, [])
                ent = [x for x in lv if x[0] is lp]
                ok = False
                if ent and d == 1:
                    e = self.poly(ent[0][1], lp, und)
                    inside = any(y is site for y in walk(lp))
                    if e is not None:
                        if inside and (site is incnode or any(y is incnode for y in walk(site))):
                            # at the increment itself: c <= completed iterations = v - entry
                            und.add(("loop", t))
                            facts = facts.add_le0(_linearise(self.sym(name) - self.sym(t) + e))
                            ok = True
                        elif not inside:
                            # after (or before) the loop: c <= trip count
                            test = strip(ch[2], casts=True) if ch[2] is not None and ch[2].get("kind") else None
                            if test is not None and test["kind"] == "BinaryOperator" and test.get("opcode") in ("<", "<=", "!="):
                                l_ = strip(kids(test)[0], casts=True)
                                if l_["kind"] == "DeclRefExpr" and l_["ref"]["name"] == t:
                                    b = self.poly(kids(test)[1], lp, und)
                                    if b is not None:
                                        trips = b - e + (Poly.const(1) if test["opcode"] == "<=" else Poly())
                                        facts = facts.add_le0(_linearise(self.sym(name) - trips))
                                        ok = True
                if not ok:
                    return None
                facts = facts.add_le0(_linearise(Poly() - self.sym(name)))
            for x in und:
                if x not in done:
                    work.append(x)
        for s in sorted(self.unsigned):
            facts = facts.add_le0(_linearise(Poly() - Poly.sym(s)))
        return facts

    # ------------------------------------------------------------ obligations
    def subscripts_of(self, pname):
        out = []
        for n in walk(self.f.body):
            if n["kind"] == "ArraySubscriptExpr":
                b = strip(kids(n)[0], casts=True)
                if b["kind"] == "DeclRefExpr" and b["ref"]["name"] == pname:
                    out.append((n, kids(n)[1]))
        return out

    def passed_to(self, pname):
        out = []
        for c in walk(self.f.body):
            if c["kind"] == "CallExpr" and callee_ref(c):
                for i, a in enumerate(kids(c)[1:]):
                    a0 = strip(a, casts=True)
                    if a0["kind"] == "DeclRefExpr" and a0["ref"]["name"] == pname:
                        out.append((c, i))
        return out


def allocations(m, f):
    """[(pointer name, count node, call node)] for local pointers given storage for a counted number of elements"""
    out = []

    def count_of(call):
        a = kids(call)[1:]
        if callee_ref(call) == "cmi_calloc" and len(a) == 2:
            return a[0]
        if callee_ref(call) == "cmi_malloc" and len(a) == 1:
            x = strip(a[0], casts=True)
            if x["kind"] == "BinaryOperator" and x.get("opcode") == "*":
                l, r = strip(kids(x)[0], casts=True), strip(kids(x)[1], casts=True)
                if r["kind"] == "UnaryExprOrTypeTraitExpr":
                    return l
                if l["kind"] == "UnaryExprOrTypeTraitExpr":
                    return r
        return None
    for n in walk(f.body):
        tgt, rhs = None, None
        if n["kind"] == "VarDecl" and kids(n):
            tgt, rhs = n["name"], kids(n)[0]
        elif n["kind"] == "BinaryOperator" and n.get("opcode") == "=":
            l = strip(kids(n)[0], casts=True)
            if l["kind"] == "DeclRefExpr" and l["ref"].get("kind") in ("VarDecl", "ParmVarDecl"):
                tgt, rhs = l["ref"]["name"], kids(n)[1]
        if tgt is None:
            continue
        r = strip(rhs, casts=True)
        if r["kind"] == "CallExpr" and callee_ref(r) in ALLOCS:
            cnt = count_of(r)
            if cnt is not None:
                out.append((tgt, cnt, r))
    return out


def check_scratch_arrays(rep, rule, m, prefix=("src/", "include/")):
    decided = undecided = 0
    for f in sorted(m.funcs.values(), key=lambda g: g.name):
        if not (m.rel(f.file) or "").startswith(prefix):
            continue
        allocs = allocations(m, f)
        if not allocs:
            continue
        fb = FuncBounds(m, f)
        for pname, cnt, call in allocs:
            # the pointer itself is only ever given fresh storage (never stepped)
            ss = fb.store_sites.get(pname, [])
            if any(kd != "=" for kd, _, _ in ss):
                undecided += 1
                rule.instance("%s: '%s' is stepped as a pointer: undecided" % (f.name, pname))
                continue
            und_e = set()
            E = fb.poly(cnt, call, und_e)
            if E is None or any(kd in ("loop", "counter") for kd, _ in und_e):
                undecided += 1
                rule.instance("%s: count of '%s' (%s) is outside the fragment: undecided" % (f.name, pname, render(cnt)))
                continue
            sites = [("sub", n, ix, fb, {}) for n, ix in fb.subscripts_of(pname)]
            # callees that subscript the array they are handed
            for c, i in fb.passed_to(pname):
                g = m.funcs.get(m.resolve(f.unit, callee_ref(c)))
                if g is None or g is f or i >= len(g.params):
                    continue
                gb = FuncBounds(m, g, ns=g.name + ":")
                for n, ix in gb.subscripts_of(g.params[i]["name"]):
                    sites.append(("callee", n, ix, gb, {"call": c, "g": g}))
            for kind, n, ix, b, extra in sites:
                und = set()
                I = b.poly(ix, n, und)
                if I is None:
                    undecided += 1
                    rule.instance("%s: %s[%s]%s: index outside the fragment: undecided"
                                  % (f.name, pname, render(ix), " in " + extra["g"].name if extra else ""))
                    continue
                facts = b.facts_at(n)
                und |= b.fact_syms
                facts = b.symbol_facts(n, und, facts)
                if facts is None:
                    undecided += 1
                    rule.instance("%s: %s[%s]: counter outside the fragment: undecided" % (f.name, pname, render(ix)))
                    continue
                if kind == "callee":
                    # bind the callee's parameters to the caller's arguments, add the caller's facts at the call
                    c, g = extra["call"], extra["g"]
                    cf = fb.facts_at(c)
                    und_c = set(und_e) | fb.fact_syms
                    bound = True
                    for j, a in enumerate(kids(c)[1:]):
                        if j >= len(g.params):
                            break
                        pj = g.params[j]["name"]
                        if (b.ns + pj) not in {s for cns in facts.cons for s in cns[0]} and (b.ns + pj) not in I.symbols():
                            continue
                        ap = fb.poly(a, c, und_c)
                        if ap is None:
                            if (b.ns + pj) in I.symbols():
                                bound = False
                            continue
                        facts = facts.add_le0(_linearise(Poly.sym(b.ns + pj) - ap)).add_le0(_linearise(ap - Poly.sym(b.ns + pj)))
                    if not bound:
                        undecided += 1
                        rule.instance("%s: %s handed to %s: argument outside the fragment: undecided" % (f.name, pname, g.name))
                        continue
                    cf = fb.symbol_facts(c, und_c, cf)
                    if cf is None:
                        undecided += 1
                        continue
                    facts = Facts(facts.cons + cf.cons)
                else:
                    facts = b.symbol_facts(n, und_e, facts)
                    if facts is None:
                        undecided += 1
                        continue
                goal = _linearise(I - E + Poly.const(1))
                try:
                    ok = facts.proves_le0(goal)
                except AnalysisBroken:
                    undecided += 1
                    continue
                if not ok:
                    # an index symbol that nothing bounds from above (an unknown value read from memory, an unconstrained
                    # parameter) is outside the fragment: the bound, if there is one, is an invariant this rule does not see
                    loose = []
                    for s_ in I.symbols():
                        co = sum(v_ for k_, v_ in _linearise(I).items() if k_ == (s_,))
                        if co > 0 and s_ not in _linearise(E).symbols() and \
                                not any(cns[0].get(s_, 0) > 0 for cns in facts.cons):
                            loose.append(s_)
                    if loose:
                        undecided += 1
                        rule.instance("%s: %s[%s]: nothing bounds %s from above here: undecided"
                                      % (f.name, pname, render(ix), ", ".join(sorted(loose))))
                        continue
                decided += 1
                where = m.rel(loc(n))
                rule.instance("%s: %s[%s]%s <= (%s) - 1: %s" % (f.name, pname, render(ix),
                                                               " in " + extra["g"].name if extra else "", render(cnt), ok))
                if ok:
                    rule.ok()
                else:
                    rep.finding(rule, f.name, "scratch:%s:overrun" % pname,
                                "%s gives '%s' room for (%s) elements, but %s subscripts it with %s, which the conditions in "
                                "force there do not keep below that count: the access runs past the end of the allocation"
                                % (f.name, pname, render(cnt), (extra["g"].name if extra else f.name), render(ix)),
                                where=where)
                    rule.fail()
    rule.instance("subscripts decided: %d, outside the fragment (listed, not judged): %d" % (decided, undecided))
    return decided, undecided


# ---------------------------------------------------------------------------------------------------------------
# fixed-size buffers

def check_fixed_buffers(rep, rule, m, prefix=("src/", "include/")):
    """Every subscript of an object of array type T[N] with a constant N, and every bounded write into it through the C
    library (snprintf / memcpy / memmove / memset / strncpy with a byte count), stays inside the N elements.  The index or
    count is bounded from above through literals, sizeof, `strnlen(s, K) <= K`, `x % K`, `x & mask`, single-definition
    locals, and `for` variables with a literal or sizeof bound; anything else is undecided (listed, not judged)."""
    decided = undecided = 0

    def arr_size(t):
        mm = re.search(r"\[(\d+)\]\s*$", t or "")
        return int(mm.group(1)) if mm else None

    def elem_size(t):
        base = re.sub(r"\[\d+\]\s*$", "", t or "").replace("const ", "").strip()
        return {"char": 1, "unsigned char": 1, "signed char": 1, "uint8_t": 1, "int8_t": 1, "short": 2, "uint16_t": 2, "int": 4,
                "unsigned int": 4, "uint32_t": 4, "int32_t": 4, "float": 4, "double": 8, "uint64_t": 8, "int64_t": 8, "long": 8,
                "unsigned long": 8, "size_t": 8}.get(base, 8 if base.endswith("*") else None)

    for f in sorted(m.funcs.values(), key=lambda g: g.name):
        if not (m.rel(f.file) or "").startswith(prefix) or f.body is None:
            continue
        cx = None

        def ub(n, depth=0):
            """an upper bound of the value of n, or None"""
            n = strip(n, casts=True)
            k = n["kind"]
            v = int_value(n)
            if v is not None:
                return v
            if k == "UnaryExprOrTypeTraitExpr":
                t = n.get("argType") or (strip(kids(n)[0], casts=False).get("type") if kids(n) else "") or ""
                sz, es = arr_size(t), elem_size(t)
                if sz is not None and es is not None:
                    return sz * es
                es2 = elem_size(t)
                return es2
            if k == "DeclRefExpr" and depth < 6:
                d = cx.single_def(n["ref"]["id"])
                if d is not None:
                    return ub(d, depth + 1)
                # a for variable with a constant bound
                for lp in inv.enclosing_chain(f, n):
                    if lp["kind"] == "ForStmt" and kids(lp)[2].get("kind") not in (None, "Null"):
                        c = strip(kids(lp)[2], casts=True)
                        if c["kind"] == "BinaryOperator" and c.get("opcode") in ("<", "<="):
                            l0 = strip(kids(c)[0], casts=True)
                            if l0["kind"] == "DeclRefExpr" and l0["ref"]["id"] == n["ref"]["id"]:
                                b = ub(kids(c)[1], depth + 1)
                                if b is not None:
                                    writes = [y for y in walk(kids(lp)[4]) if y["kind"] in ("BinaryOperator", "CompoundAssignOperator", "UnaryOperator")
                                              and (y.get("opcode", "").endswith("=") and y.get("opcode") not in ("==", "!=", "<=", ">=") or y.get("opcode") in ("++", "--"))
                                              and strip(kids(y)[0], casts=True).get("ref", {}).get("id") == n["ref"]["id"]]
                                    if not writes:
                                        return b - 1 if c["opcode"] == "<" else b
                return None
            if k == "CallExpr" and callee_ref(n) == "strnlen" and len(kids(n)) == 3:
                return ub(kids(n)[2], depth + 1)
            if k == "BinaryOperator":
                op = n.get("opcode")
                a, b = kids(n)
                if op == "%":
                    bb = ub(b, depth + 1)
                    return None if bb is None else bb - 1
                if op == "&":
                    vb, va = int_value(strip(b, casts=True)), int_value(strip(a, casts=True))
                    return vb if vb is not None else va
                if op == "+":
                    ua, ubb = ub(a, depth + 1), ub(b, depth + 1)
                    return None if ua is None or ubb is None else ua + ubb
                if op == "-":
                    ua, vb = ub(a, depth + 1), int_value(strip(b, casts=True))
                    return None if ua is None or vb is None else ua - vb
                if op == "*":
                    ua, ubb = ub(a, depth + 1), ub(b, depth + 1)
                    return None if ua is None or ubb is None else ua * ubb
            if k == "ConditionalOperator":
                ua, ubb = ub(kids(n)[1], depth + 1), ub(kids(n)[2], depth + 1)
                return None if ua is None or ubb is None else max(ua, ubb)
            return None

        def array_of(expr):
            """(type string, rendered name) if expr denotes (decays from) an object of constant array type"""
            e = expr
            while e["kind"] in ("ImplicitCastExpr", "ParenExpr", "CStyleCastExpr") and kids(e):
                e = kids(e)[0]
            t = e.get("type") or ""
            if e["kind"] in ("MemberExpr", "DeclRefExpr") and arr_size(t) is not None:
                return t, render(e)
            return None

        for x in walk(f.body):
            if x["kind"] == "ArraySubscriptExpr":
                ao = array_of(kids(x)[0])
                if ao is None:
                    continue
                cx = cx or FuncCtx(m, f)
                N = arr_size(ao[0])
                u = ub(kids(x)[1])
                if u is None:
                    undecided += 1
                    continue
                decided += 1
                rule.instance("%s: %s[%s] with index <= %d in %d elements" % (f.name, ao[1], render(kids(x)[1])[:40], u, N))
                if u <= N - 1:
                    rule.ok()
                else:
                    rep.finding(rule, f.name, "buffer:%s:overrun" % ao[1].split("->")[-1].split(".")[-1],
                                "%s subscripts %s, which has %d elements, with %s, which can be as large as %d: the access runs "
                                "past the end of the array into the member (or object) behind it"
                                % (f.name, ao[1], N, render(kids(x)[1])[:60], u), where=m.rel(loc(x)))
                    rule.fail()
            if x["kind"] == "CallExpr" and callee_ref(x) in ("snprintf", "memcpy", "memmove", "memset", "strncpy", "cmi_memcpy", "cmi_memset") and len(kids(x)) >= 4:
                ao = array_of(kids(x)[1])
                if ao is None:
                    continue
                cx = cx or FuncCtx(m, f)
                N, es = arr_size(ao[0]), elem_size(ao[0])
                cnt = kids(x)[2] if callee_ref(x) == "snprintf" else kids(x)[3]
                u = ub(cnt)
                if u is None or es is None:
                    undecided += 1
                    continue
                decided += 1
                rule.instance("%s: %s into %s with at most %d of %d bytes" % (f.name, callee_ref(x), ao[1], u, N * es))
                if u <= N * es:
                    rule.ok()
                else:
                    rep.finding(rule, f.name, "buffer:%s:overrun" % ao[1].split("->")[-1].split(".")[-1],
                                "%s lets %s write up to %d bytes into %s, which has %d" % (f.name, callee_ref(x), u, ao[1], N * es),
                                where=m.rel(loc(x)))
                    rule.fail()
    rule.instance("fixed-size buffer accesses decided: %d, outside the fragment: %d" % (decided, undecided))
    return decided, undecided
