"""C02 - The hashheap behaves as a keyed priority queue under any operation history."""
import re

from ..astutil import kids, strip, walk, callee_ref, render, loc, int_value
from ..frontend import AnalysisBroken
from ..report import Report
from ..vals import FuncCtx, is_assert_stmt
from ..engines.flow import Flow, Domain, State
from .. import inv
from . import common
from .. import model as M

PID = "C02"
UNIT = "src/cmi_hashheap.c"
HEAP_MUTATORS = {"cmi_hashheap_enqueue", "cmi_hashheap_dequeue", "cmi_hashheap_remove", "cmi_hashheap_cancel",
                 "cmi_hashheap_reprioritize", "cmi_hashheap_clear", "cmi_hashheap_pattern_cancel",
                 "cmi_hashheap_reset", "cmi_hashheap_terminate", "heap_up", "heap_down", "hashheap_grow"}
EVENT_MUTATORS = {"cmb_event_schedule", "cmb_event_cancel", "cmb_event_reschedule", "cmb_event_reprioritize",
                  "cmb_event_pattern_cancel", "cmb_event_queue_clear", "cmb_event_execute_next"}


def split_index(s):
    """'base[idx].field' -> (base, idx, field) with balanced brackets, from the right; else None."""
    mm = re.search(r"\]\.(\w+)$", s)
    if not mm:
        return None
    end = mm.start()
    depth = 0
    for i in range(end, -1, -1):
        if s[i] == "]":
            depth += 1
        elif s[i] == "[":
            depth -= 1
            if depth == 0:
                return s[:i], s[i + 1:end], mm.group(1)
    return None


def _is_scratch(idx):
    return idx == "0" or re.fullmatch(r"\(.+->heap_count(@\d+)? \+ 1\)", idx) is not None


class HeapDomain(Domain):
    """Tracks whole-tag copies into live heap slots until the hash map's back pointer follows."""

    def __init__(self, m, root, out):
        self.m = m
        self.root = root
        self.out = out

    def inline(self, flow, callee, call):
        # the sift routines are analysed as roots of their own; at a call site they re-place the tag
        # at the given slot and set its back pointer (see the sift clause below), so they are not inlined
        return False

    def store(self, flow, s, lc, lhs, value, rhs, op, node):
        l = strip(lhs, casts=True)
        where = self.m.rel(loc(node))
        s._k = None
        if l["kind"] == "ArraySubscriptExpr" and "cmi_heap_tag" in (l.get("type") or "") and op == "=":
            base = flow.canon(s, kids(l)[0])
            idx = flow.canon(s, kids(l)[1])
            if base.endswith("->heap") or base == "heap":
                self.out["moves"].append((self.root.name, flow.cur_func().name, base, idx, value, where,
                                          _is_scratch(idx)))
                if not _is_scratch(idx):
                    s.d[("pend", base, idx)] = "%s[%s] = %s at %s" % (base, idx, value, where)
            return [s]
        if l["kind"] == "MemberExpr" and l.get("name") == "heap_index" and \
                inv.member_record(l) == "cmi_hash_tag":
            arr = strip(kids(l)[0], casts=True)
            if arr["kind"] == "ArraySubscriptExpr":
                j = flow.canon(s, kids(arr)[1])
                if value == "0":
                    s.d[("tomb", j)] = where
                    self.out["tombs"].append((self.root.name, flow.cur_func().name, j, where))
                done = None
                for k in list(s.d):
                    if k[0] == "pend" and j == "%s[%s].hash_index" % (k[1], k[2]):
                        if value == k[2]:
                            done = k
                        else:
                            self.out["findings"].append((
                                "R-C02-2", self.root.name, "backptr-wrong:%s" % flow.cur_func().name,
                                "hash entry of the tag moved to %s[%s] is pointed at '%s'" % (k[1], k[2], value),
                                where))
                if done:
                    del s.d[done]
                    self.out["paired"].append((self.root.name, flow.cur_func().name, done[2], where))
            return [s]
        if l["kind"] == "MemberExpr" and l.get("name") == "heap_count" and inv.member_record(l) == "cmi_hashheap":
            dec = op in ("-=", "--") or (op == "=" and re.fullmatch(r"\(.+ - 1\)", value or ""))
            zero = op == "=" and value == "0"
            if dec or (zero and self.root.name == "cmi_hashheap_dequeue"):
                self.out["decrements"].append((self.root.name, flow.cur_func().name, where,
                                               any(k[0] == "tomb" for k in s.d)))
                if not any(k[0] == "tomb" for k in s.d):
                    self.out["findings"].append((
                        "R-C02-3", self.root.name, "no-tombstone:%s" % flow.cur_func().name,
                        "heap_count is lowered without first marking the departing entry's hash slot as a "
                        "tombstone (heap_index = 0): the removed key would still be found", where))
            return [s]
        return [s]

    def call(self, flow, s, call, name, args):
        if name == "cmi_assert_failed":
            return []
        if name in ("heap_up", "heap_down") and len(args) == 2:
            for k in list(s.d):
                if k[0] == "pend" and k[2] == args[1]:
                    s = s.copy()
                    del s.d[k]
                    s._k = None
                    self.out["paired"].append((self.root.name, name, k[2], self.m.rel(loc(call))))
        return [s]

    def forget(self, flow, s, sym):
        for k in list(s.d):
            if k[0] == "pend" and sym in k[2]:
                self.out["findings"].append((
                    "R-C02-2", self.root.name, "backptr-missing:%s" % flow.cur_func().name,
                    "tag copied into live slot (%s) and the slot index changes before the hash map's back "
                    "pointer is updated: lookups by that key find the wrong entry" % s.d[k],
                    s.d[k].rsplit(" at ", 1)[-1]))
                del s.d[k]
        super().forget(flow, s, sym)

    def at_return(self, flow, s, node, value):
        for k in list(s.d):
            if k[0] == "pend":
                self.out["findings"].append((
                    "R-C02-2", self.root.name, "backptr-missing:%s" % self.root.name,
                    "function returns with a tag copied into a live slot (%s) whose hash map back pointer was "
                    "not updated" % s.d[k], s.d[k].rsplit(" at ", 1)[-1]))


def grow_copies_whole_heap(m):
    """Does hashheap_grow copy (old heap_size + 2) tags, i.e. all live entries *and* both scratch slots (slot 0
    holds the most recently dequeued entry)?  Returns (ok, description)."""
    g = m.need("hashheap_grow")
    gcx = FuncCtx(m, g)
    hs_store = [inv.stmt_index_containing(g, n) for l, r, k, n in inv.stores(g)
                if gcx.canon(l) == g.params[0]["name"] + "->heap_size"]
    cpn = [x for x in walk(g.body) if x["kind"] == "CallExpr" and callee_ref(x) == "cmi_memcpy"]
    if cpn and hs_store:
        sz = gcx.resolve(kids(cpn[0])[3])
        txt = render(sz)
        src = render(gcx.resolve(kids(cpn[0])[2]))
        mm = re.fullmatch(r"\(\((\w+) \+ 2\) \* sizeof\(struct cmi_heap_tag\)\)", txt)
        if mm:
            for x in walk(g.body):
                if x["kind"] == "VarDecl" and x.get("name") == mm.group(1) and kids(x):
                    di = inv.stmt_index_containing(g, x)
                    if render(kids(x)[0]).endswith("->heap_size") and di is not None and di < min(hs_store):
                        return True, txt
        return False, txt
    return False, "no memcpy of the old heap"


def layout_rules(rep, r5, m, clear_only=False):
    """Storage layout agreement of initialize / grow / clear (R-C02-5); `clear_only` for the event-queue view (C01)."""
    hh = {f.name: f for f in m.funcs.values() if m.rel(f.file) == UNIT}
    g = hh["hashheap_grow"]
    gcx = FuncCtx(m, g)
    from ..engines.induct import Poly
    HEAP_T, HASH_T = "sizeof(struct cmi_heap_tag)", "sizeof(struct cmi_hash_tag)"

    class SizeEval:
        """Byte/element counts as polynomials over HS (heap size now), HS0 (before this function's update), HSINIT."""

        def __init__(self, f):
            self.f, self.cx, self.hp = f, FuncCtx(m, f), f.params[0]["name"]
            self.top = kids(f.body)
            def store_idx(field):
                idx = [inv.stmt_index_containing(f, n_) for l, r_, k_, n_ in inv.stores(f)
                       if self.cx.canon(l) == "%s->%s" % (self.hp, field)]
                idx = [i for i in idx if i is not None]
                return min(idx) if idx else None
            self.i_exp, self.i_hs, self.i_hash = store_idx("heap_exp_cur"), store_idx("heap_size"), store_idx("hash_size")
            # in initialize the exponent parameter becomes the current exponent
            self.exp_params = {self.cx.canon(r_) for l, r_, k_, n_ in inv.stores(f)
                               if r_ is not None and self.cx.canon(l) == "%s->heap_exp_cur" % self.hp and k_ == "="}
            self.is_init = any(k_ == "=" for l, r_, k_, n_ in inv.stores(f) if self.cx.canon(l) == "%s->heap_exp_cur" % self.hp)

        def pos_of(self, node):
            i = inv.stmt_index_containing(self.f, node)
            return i if i is not None else 10 ** 6

        def size_atom(self, which):
            return Poly.sym({"now": "HS", "old": "HS0", "init": "HSINIT"}[which])

        def exponent(self, node, pos, env):
            """'now' / 'old' / 'init' / None: which heap size does 1 << node stand for at position pos"""
            n = strip(node, casts=True)
            if n["kind"] == "DeclRefExpr" and n["ref"]["id"] in env:
                return env[n["ref"]["id"]][1]
            if n["kind"] == "DeclRefExpr" and n["ref"].get("kind") == "VarDecl":
                d = self.cx.single_def(n["ref"]["id"])
                if d is not None:
                    decl = [x for x in walk(self.f.body) if x["kind"] == "VarDecl" and x["id"] == n["ref"]["id"]]
                    return self.exponent(d, self.pos_of(decl[0]) if decl else pos, env)
            c = self.cx.canon(n)
            if c == "%s->heap_exp_init" % self.hp:
                return "now" if (self.is_init and any(self.cx.canon(l) == c for l, r_, k_, n_ in inv.stores(self.f))) else "init"
            if c == "%s->heap_exp_cur" % self.hp or (self.is_init and c in self.exp_params):
                if self.is_init:
                    return "now"
                if self.i_exp is None or pos > self.i_exp:
                    return "now"
                return "old"
            return None

        def ev(self, node, pos=None, env=None):
            env = env or {}
            n = strip(node, casts=True)
            if pos is None:
                pos = self.pos_of(node)
            k = n["kind"]
            if k == "IntegerLiteral":
                return Poly.const(int(n["value"]))
            if k == "UnaryExprOrTypeTraitExpr":
                t = n.get("argType")
                if not t and kids(n):
                    t = strip(kids(n)[0], casts=True).get("type")
                return Poly.sym("sizeof(%s)" % (t or "?").replace("const ", ""))
            if k == "DeclRefExpr":
                if n["ref"]["id"] in env:
                    return env[n["ref"]["id"]][0]
                d = self.cx.single_def(n["ref"]["id"])
                if d is not None:
                    decl = [x for x in walk(self.f.body) if x["kind"] == "VarDecl" and x["id"] == n["ref"]["id"]]
                    return self.ev(d, self.pos_of(decl[0]) if decl else pos, env)
                return None
            if k == "MemberExpr":
                c = self.cx.canon(n)
                if c == "%s->heap_size" % self.hp:
                    return self.size_atom("now" if (self.i_hs is None or pos > self.i_hs) else "old")
                if c == "%s->hash_size" % self.hp:
                    return self.size_atom("now" if (self.i_hash is None or pos > self.i_hash) else "old").scale(2)
                return None
            if k == "BinaryOperator":
                op = n["opcode"]
                if op == "<<":
                    a = self.ev(kids(n)[0], pos, env)
                    sh = int_value(strip(kids(n)[1], casts=True))
                    if a is not None and sh is not None and 0 <= sh < 16:
                        return a.scale(1 << sh)               # a size doubled: x << 1
                    e = self.exponent(kids(n)[1], pos, env)
                    if a is None or e is None or not a.is_const():
                        return None
                    return self.size_atom(e).scale(a.get((), 0))
                a, b = self.ev(kids(n)[0], pos, env), self.ev(kids(n)[1], pos, env)
                if a is None or b is None:
                    return None
                if op == "+":
                    return a + b
                if op == "-":
                    return a - b
                if op == "*":
                    return a * b
                return None
            if k == "CallExpr" and callee_ref(n):
                cf = m.funcs.get(m.resolve(self.f.unit, callee_ref(n)))
                if cf is not None and cf.static:
                    rets = [x for x in walk(cf.body) if x["kind"] == "ReturnStmt" and kids(x)]
                    if len(rets) == 1 and all(is_assert_stmt(s_) or s_ is rets[0] for s_ in kids(cf.body)):
                        sub = SizeEval.__new__(SizeEval)
                        sub.__dict__.update(self.__dict__)
                        env2 = {}
                        for prm, arg in zip(cf.params, kids(n)[1:]):
                            env2[prm["id"]] = (self.ev(arg, pos, env), self.exponent(arg, pos, env))
                        sub.cx = FuncCtx(m, cf)
                        sub_ev = self._ev_in(cf, kids(rets[0])[0], env2)
                        return sub_ev
                return None
            return None

        def _ev_in(self, cf, node, env2):
            """evaluate a helper's return expression: only parameters, literals, sizeof and arithmetic"""
            n = strip(node, casts=True)
            k = n["kind"]
            if k == "IntegerLiteral":
                return Poly.const(int(n["value"]))
            if k == "UnaryExprOrTypeTraitExpr":
                return Poly.sym("sizeof(%s)" % (n.get("argType") or "?").replace("const ", ""))
            if k == "DeclRefExpr":
                v = env2.get(n["ref"]["id"])
                return v[0] if v else None
            if k == "BinaryOperator":
                op = n["opcode"]
                if op == "<<":
                    a = self._ev_in(cf, kids(n)[0], env2)
                    sh = int_value(strip(kids(n)[1], casts=True))
                    if a is not None and sh is not None and 0 <= sh < 16:
                        return a.scale(1 << sh)
                    e0 = strip(kids(n)[1], casts=True)
                    e = env2.get(e0["ref"]["id"], (None, None))[1] if e0["kind"] == "DeclRefExpr" else None
                    if a is None or e is None or not a.is_const():
                        return None
                    return self.size_atom(e).scale(a.get((), 0))
                a, b = self._ev_in(cf, kids(n)[0], env2), self._ev_in(cf, kids(n)[1], env2)
                if a is None or b is None:
                    return None
                return a + b if op == "+" else a - b if op == "-" else a * b if op == "*" else None
            return None

        def subexprs(self, node, depth=0):
            """node and, through single-definition locals, everything it is built from"""
            n = strip(node, casts=True)
            yield n
            if depth > 8:
                return
            if n["kind"] == "DeclRefExpr":
                d = self.cx.single_def(n["ref"]["id"])
                if d is not None:
                    yield from self.subexprs(d, depth + 1)
                return
            for c_ in kids(n):
                yield from self.subexprs(c_, depth + 1)

    HS, SH, SM = Poly.sym("HS"), Poly.sym(HEAP_T), Poly.sym(HASH_T)
    heap_part = (HS + Poly.const(2)) * SH
    hash_part = HS.scale(2) * SM
    for fn in (("cmi_hashheap_clear",) if clear_only else ("cmi_hashheap_initialize", "hashheap_grow", "cmi_hashheap_clear")):
        f = hh[fn]
        se = SizeEval(f)
        cx = se.cx
        hpn = se.hp
        def polys_of(node):
            out = []
            for x in se.subexprs(node):
                pv = se.ev(x)
                if pv is not None:
                    out.append(pv)
            return out
        if fn == "cmi_hashheap_clear":
            # clearing must wipe the whole hash map (stale entries would resurrect removed keys): either one wipe
            # from the heap start over heap part + hash part, or a wipe of the hash map with the hash part's size
            wipes = [(cx.canon(kids(x)[1]), se.ev(kids(x)[-1]), x) for x in walk(f.body)
                     if x["kind"] == "CallExpr" and callee_ref(x) == "cmi_memset"]
            r5.instance("%s wipes: %s" % (fn, [(d_, p_.show() if p_ is not None else None) for d_, p_, x in wipes]))
            rep.sample({"rule": "R-C02-5", "function": fn, "wipes": [(d_, p_.show() if p_ is not None else None) for d_, p_, x in wipes]})
            okc = False
            for dst, sz, x in wipes:
                if sz is None:
                    continue
                if dst == hpn + "->heap" and sz == heap_part + hash_part:
                    okc = True
                if dst == hpn + "->hash_map" and sz == hash_part:
                    okc = True
            if not okc:
                rep.finding(r5, fn, "clear:hash-map", "clear does not wipe the whole hash map of the current size (wipes: %s; the "
                            "layout is %s heap bytes + %s hash bytes): keys removed by the clear would still be found" %
                            ([(d_, p_.show() if p_ is not None else "?") for d_, p_, x in wipes], heap_part.show(), hash_part.show()),
                            where=m.rel(f.where))
                r5.fail()
            else:
                r5.ok()
            continue
        allocs = [x for x in walk(f.body) if x["kind"] == "CallExpr" and callee_ref(x) == "cmi_aligned_alloc"]
        if len(allocs) != 1:
            raise AnalysisBroken("%s: expected one aligned allocation" % fn)
        ps = polys_of(kids(allocs[0])[-1])
        r5.instance("%s allocates a page-rounded %s" % (fn, sorted({p_.show() for p_ in ps if len(p_) > 1})[:3]))
        rep.sample({"rule": "R-C02-5", "function": fn, "footprint_terms": sorted({p_.show() for p_ in ps})[:6]})
        if heap_part + hash_part not in ps:
            kind = "layout:heap-part" if not any(p_ == heap_part for p_ in ps) else "layout:hash-part"
            rep.finding(r5, fn, kind, "%s does not allocate (heap_size + 2) heap tags plus 2 * heap_size hash tags (quantities "
                        "it rounds up to pages: %s)" % (fn, sorted({p_.show() for p_ in ps})[:5]), where=m.rel(f.where))
            r5.fail()
        else:
            r5.ok()
        # the hash map starts right after the heap part of the new area
        hm = [r_ for l, r_, k_, n_ in inv.stores(f) if cx.canon(l) == hpn + "->hash_map" and r_ is not None]
        good = False
        for r_ in hm:
            e = cx.resolve(r_)
            e = strip(e, casts=True)
            if e["kind"] == "BinaryOperator" and e.get("opcode") == "+":
                base, off = kids(e)[0], kids(e)[1]
                bt = (strip(base, casts=True).get("type") or "")
                esz = Poly.const(1) if "char" in bt else (SH if "cmi_heap_tag" in bt else None)
                ov = se.ev(off)
                if ov is not None and esz is not None and ov * esz == heap_part:
                    good = True
            if e["kind"] == "UnaryOperator" and e.get("opcode") == "&":
                a_ = strip(kids(e)[0], casts=True)
                if a_["kind"] == "ArraySubscriptExpr" and "cmi_heap_tag" in (strip(kids(a_)[0], casts=True).get("type") or ""):
                    ov = se.ev(kids(a_)[1])
                    if ov is not None and ov * SH == heap_part:
                        good = True
        if not good:
            rep.finding(r5, fn, "layout:hash-start", "%s places the hash map at %s, not right after the (heap_size + 2) tags of "
                        "the heap part" % (fn, [cx.canon(r_)[:120] for r_ in hm]), where=m.rel(f.where))
            r5.fail()
        else:
            r5.ok()
    if clear_only:
        return
    # grow copies the old heap part including scratch slots and rehashes from the old map before freeing it
    gcalls = [(callee_ref(x), [gcx.canon(a) for a in kids(x)[1:]]) for x in walk(g.body) if x["kind"] == "CallExpr"]
    names = [c for c, _ in gcalls]
    if not ("cmi_memcpy" in names and "hash_rehash" in names and "cmi_aligned_free" in names and
            names.index("hash_rehash") < names.index("cmi_aligned_free") and
            names.index("cmi_memcpy") < names.index("cmi_aligned_free")):
        rep.finding(r5, g.name, "grow:order", "grow must copy the heap and rehash from the old map before freeing the "
                    "old storage (calls: %s)" % names, where=m.rel(g.where))
        r5.fail()
    else:
        r5.ok()
    # the copy covers (old heap_size + 2) tags: evaluated with the sizes as they were before this call's update
    gse = SizeEval(g)
    cpn = [x for x in walk(g.body) if x["kind"] == "CallExpr" and callee_ref(x) == "cmi_memcpy"]
    cps = gse.ev(kids(cpn[0])[3]) if cpn else None
    r5.instance("grow copies %s bytes of the old heap" % (cps.show() if cps is not None else None))
    if cps is None or cps != (Poly.sym("HS0") + Poly.const(2)) * SH:
        rep.finding(r5, g.name, "grow:copy-size", "grow copies %s bytes; the old heap part is (old heap_size + 2) tags" %
                    (cps.show() if cps is not None else "an amount that is not understood"), where=m.rel(g.where))
        r5.fail()
    else:
        r5.ok()



def heap_loops(m):
    """[(function, loop, heap owner, calls in the loop that can restructure that heap)] for every loop that indexes a heap
    array with a variable it advances"""
    out = []
    for f in m.funcs.values():
        rel = m.rel(f.file) or ""
        if not rel.startswith(("src/", "include/")):
            continue
        cx = None
        for x in walk(f.body):
            if x["kind"] not in ("ForStmt", "WhileStmt"):
                continue
            ch = kids(x)
            body = ch[4] if x["kind"] == "ForStmt" else ch[1]
            cx = cx or FuncCtx(m, f)
            # variables the loop itself advances (condition / increment / body assignments)
            lvars = set()
            for part in ch:
                for y in walk(part):
                    t = None
                    if y["kind"] == "UnaryOperator" and y.get("opcode") in ("++", "--"):
                        t = strip(kids(y)[0], casts=True)
                    elif y["kind"] == "CompoundAssignOperator" or (y["kind"] == "BinaryOperator" and y.get("opcode") == "="):
                        t = strip(kids(y)[0], casts=True)
                    elif y["kind"] == "VarDecl" and part is ch[0]:
                        lvars.add(y["name"])
                    if t is not None and t["kind"] == "DeclRefExpr":
                        lvars.add(t["ref"]["name"])
            # a heap array of some hashheap indexed by such a variable (any direction, any bound)
            H = None
            for y in walk(body):
                if y["kind"] != "ArraySubscriptExpr":
                    continue
                base = cx.canon(kids(y)[0])
                mm = re.fullmatch(r"(.+?)(->|\.)heap", base)
                if not mm:
                    continue
                if any(z["kind"] == "DeclRefExpr" and z["ref"]["name"] in lvars for z in walk(kids(y)[1])):
                    H = mm.group(1) if mm.group(2) == "->" else "&" + mm.group(1)
                    break
            if H is None:
                continue
            H = H.lstrip("(")
            bad = []
            for y in walk(body):
                if y["kind"] != "CallExpr":
                    continue
                nm = callee_ref(y)
                if nm in HEAP_MUTATORS and kids(y)[1:] and cx.canon(kids(y)[1]).lstrip("&") == H.lstrip("&"):
                    bad.append(nm)
                if H == "event_queue" and nm in EVENT_MUTATORS:
                    bad.append(nm)
            out.append((f, x, H, bad))
    return out


def rules(rep, m):
    hh = {f.name: f for f in m.funcs.values() if m.rel(f.file) == UNIT}
    for need in ("cmi_hashheap_enqueue", "cmi_hashheap_dequeue", "cmi_hashheap_remove", "heap_up", "heap_down",
                 "hashheap_grow", "cmi_hashheap_initialize", "cmi_hashheap_clear", "hash_rehash",
                 "cmi_hashheap_reprioritize", "cmi_hashheap_pattern_cancel", "cmi_hash_find_index"):
        if need not in hh:
            raise AnalysisBroken("anchor %s missing in %s" % (need, UNIT))

    # R-C02-1 ------------------------------------------------------------
    r1 = rep.rule("R-C02-1", "every comparator that can be installed on a hashheap is a strict weak order over all "
                  "orderings of its sort keys; comparators that read the key are total on distinct keys", floor=5)
    reg = common.comparator_registry(m)
    seen = set()
    default = None
    init = hh["cmi_hashheap_initialize"]
    for lhs, rhs, kind, node in inv.stores(init):
        if render(lhs).endswith("heap_compare"):
            d = strip(rhs, casts=True)
            if d["kind"] == "DeclRefExpr" and d["ref"].get("kind") == "FunctionDecl":
                default = m.need(m.resolve(init.unit, d["ref"]["name"]))
    cands = [c for _, _, c in reg if isinstance(c, M.Func)]
    if default is not None:
        cands.append(default)
    # plus every address-taken function with the comparator signature
    m.callgraph()
    for sig, keys in m.addr_taken.items():
        if sig and sig.startswith("bool(structcmi_heap_tag*,structcmi_heap_tag*)"):
            for k in keys:
                if k in m.funcs:
                    cands.append(m.funcs[k])
    for c in cands:
        if c.key in seen:
            continue
        seen.add(c.key)
        from ..engines import ord as ORD
        flds = ORD.Comparator(c).fields
        common.ord_rule(rep, r1, m, c, None, "key" if "key" in flds else None, "a strict weak order")
    unresolved = [(f.name, n) for f, n, c in reg if c is None and f.name != "cmi_hashheap_reset"]
    for fn, n in unresolved:
        rep.finding(r1, fn, "comparator:unresolved", "installs a comparator that cannot be resolved to a function",
                    where=m.rel(loc(n)))

    # R-C02-2 / R-C02-3 ---------------------------------------------------
    out = {"moves": [], "paired": [], "findings": [], "tombs": [], "decrements": []}
    roots = [f for f in hh.values() if not (f.static and f.name in ("heap_up", "heap_down"))]
    for f in sorted(roots, key=lambda x: x.name):
        Flow(m, f, HeapDomain(m, f, out)).run()
    # sift clause: the tag initially at slot k is saved to a scratch slot first and finally written from that
    # scratch slot into a live slot (whose back pointer R-C02-2 requires): this is what lets a call
    # heap_up/heap_down(hp, X) discharge a pending move into X at the call sites above
    sift_ok = {}
    for nm in ("heap_up", "heap_down"):
        f = hh[nm]
        Flow(m, f, HeapDomain(m, f, out)).run()
        mv = [(idx, val, sc) for root, fn, base, idx, val, where, sc in out["moves"] if root == nm]
        kname = f.params[1]["name"]
        saved = [idx for idx, val, sc in mv if sc and re.fullmatch(r".*heap\[%s\]" % kname, val)]
        placed = [idx for idx, val, sc in mv if not sc and saved and re.fullmatch(r".*heap\[%s\]" % re.escape(saved[0]), val)]
        sift_ok[nm] = bool(saved) and bool(placed)
    r2 = rep.rule("R-C02-2", "every whole-tag copy into a live heap slot (not scratch slot 0 or heap_count+1) is "
                  "followed, before the slot index changes and before the function returns, by pointing the hash "
                  "entry of that tag back at the slot; enqueue and rehash set both directions", floor=7)
    live = sorted({(fn, idx, where) for root, fn, base, idx, val, where, scratch in out["moves"] if not scratch})
    for fn, idx, where in live:
        r2.instance("%s: heap[%s] = ... at %s" % (fn, idx, where))
    for nm, okk in sift_ok.items():
        r2.instance("%s saves the tag at k to a scratch slot and finally places it from there: %s" % (nm, okk))
        if not okk:
            rep.finding(r2, nm, "sift:place", "%s does not save the tag at its start slot to a scratch slot and "
                        "finally place it from there" % nm, where=m.rel(hh[nm].where))
            r2.fail()
        else:
            r2.ok()
    rep.sample({"rule": "R-C02-2", "live_moves": [list(x) for x in live][:8],
                "scratch_moves": sorted({(fn, idx) for _, fn, _, idx, _, _, sc in out["moves"] if sc})})
    bad = [f for f in out["findings"] if f[0] == "R-C02-2"]
    for rid, root, cons, msg, where in bad:
        rep.finding(r2, root, cons, msg, where=where)
    r2.obligations += len(live)
    r2.discharged += max(0, len(live) - len({f[4] for f in bad}))
    # both directions at insertion
    for fn in ("cmi_hashheap_enqueue", "hash_rehash"):
        f = hh[fn]
        cx = FuncCtx(m, f)
        st = {cx.canon(l): cx.canon(r) for l, r, k, n in inv.stores(f) if r is not None}
        # a cursor into an array: 'p->f' is 'A[(p - A)].f' when the function itself forms the index 'p - A'
        pdiff = {}
        for y in walk(f.body):
            if y["kind"] == "BinaryOperator" and y.get("opcode") == "-" and "*" in (strip(kids(y)[0], casts=True).get("type") or ""):
                a_, b_ = strip(kids(y)[0], casts=True), strip(kids(y)[1], casts=True)
                if a_["kind"] == "DeclRefExpr" and b_["kind"] == "DeclRefExpr":
                    pdiff[a_["ref"]["name"]] = (b_["ref"]["name"], cx.canon(y))
        for k in list(st):
            mm_ = re.fullmatch(r"(\w+)->(\w+)", k)
            if mm_ and mm_.group(1) in pdiff:
                base_, ix_ = pdiff[mm_.group(1)]
                st["%s[%s].%s" % (base_, ix_, mm_.group(2))] = st.pop(k)
        fw = [(k, v) for k, v in st.items() if k.endswith(".hash_index")]
        bw = [(k, v) for k, v in st.items() if k.endswith(".heap_index")]
        ok = False
        for k, v in fw:
            sp = split_index(k)
            if not sp:
                continue
            slot, h = sp[1], v
            for k2, v2 in bw:
                sp2 = split_index(k2)
                if sp2 and sp2[1] == h and v2 == slot:
                    ok = True
        r2.instance("%s sets heap[i].hash_index = h and hash[h].heap_index = i: %s" % (fn, ok))
        if not ok:
            rep.finding(r2, fn, "insert:both-directions", "%s does not link the heap entry and its hash entry in both "
                        "directions" % fn, where=m.rel(f.where))
            r2.fail()
        else:
            r2.ok()
        keyset = any((split_index(k) or ("", "", ""))[2] == "key" and "hash" in (split_index(k) or ("",))[0]
                     for k in st)
        if not keyset:
            rep.finding(r2, fn, "insert:hash-key", "%s does not store the key in the hash entry" % fn,
                        where=m.rel(f.where))
            r2.fail()
        else:
            r2.ok()

    r3 = rep.rule("R-C02-3", "every path that lowers heap_count first stores 0 (tombstone) into the heap_index of a "
                  "hash entry, so a removed key is no longer found", floor=3)
    for root, fn, where, had in sorted(set(out["decrements"])):
        r3.instance("%s lowers heap_count at %s (tombstone set before: %s)" % (fn, where, had))
        (r3.ok if had else r3.fail)()
    for rid, root, cons, msg, where in [f for f in out["findings"] if f[0] == "R-C02-3"]:
        rep.finding(r3, root, cons, msg, where=where)
    # the tombstoned slot is the departing entry's
    for fn, expect in (("cmi_hashheap_dequeue", r".+\[0\](@\d+)?\.hash_index|.+\[1\](@\d+)?\.hash_index"),
                       ("cmi_hashheap_remove", r".+\[cmi_hash_find_index\(.+\)\]\.hash_index")):
        ts = sorted({j for root, f2, j, where in out["tombs"] if root == fn})
        r3.instance("%s tombstones hash[%s]" % (fn, ts))
        if not ts or not all(re.fullmatch(expect, j) for j in ts):
            rep.finding(r3, fn, "tombstone:slot", "%s tombstones hash[%s], which is not the departing entry's slot"
                        % (fn, ts), where=m.rel(hh[fn].where))
            r3.fail()
        else:
            r3.ok()

    # R-C02-4 ------------------------------------------------------------
    r4 = rep.rule("R-C02-4", "the count is raised only after the 'full -> grow' test; every writer of heap_size also "
                  "sets hash_size to twice that (load factor below 50 %, so probing terminates)", floor=3)
    enq = hh["cmi_hashheap_enqueue"]
    ecx = FuncCtx(m, enq)
    hp = enq.params[0]["name"]
    inc_idx = grow_idx = None
    for i, s in enumerate(kids(enq.body)):
        for x in walk(s):
            if x["kind"] == "UnaryOperator" and x.get("opcode") == "++" and ecx.canon(kids(x)[0]) == hp + "->heap_count":
                inc_idx = i
            if x["kind"] == "CompoundAssignOperator" and ecx.canon(kids(x)[0]) == hp + "->heap_count":
                inc_idx = i
            if x["kind"] == "BinaryOperator" and x.get("opcode") == "=" and ecx.canon(kids(x)[0]) == hp + "->heap_count" and \
                    re.fullmatch(r"\(%s->heap_count \+ 1\)|\(1 \+ %s->heap_count\)" % (hp, hp), ecx.canon(kids(x)[1])):
                inc_idx = i            # spelled out: heap_count = heap_count + 1 (possibly through a temporary)
        if s["kind"] == "IfStmt" and ecx.canon(kids(s)[0]) in ("(%s->heap_count == %s->heap_size)" % (hp, hp),
                                                               "(%s->heap_count >= %s->heap_size)" % (hp, hp)):
            if any(x["kind"] == "CallExpr" and callee_ref(x) == "hashheap_grow" for x in walk(kids(s)[1])):
                grow_idx = i
    r4.instance("enqueue: grow test at statement %s, count raised at statement %s" % (grow_idx, inc_idx))
    if inc_idx is None:
        raise AnalysisBroken("enqueue does not raise heap_count")
    if grow_idx is None or grow_idx > inc_idx:
        rep.finding(r4, enq.name, "grow-before-insert", "heap_count is raised without a preceding 'heap_count == "
                    "heap_size -> grow' test: the working slot heap_count+1 can run past the allocation",
                    where=m.rel(enq.where))
        r4.fail()
    else:
        r4.ok()
    # geometry: every function that stores heap_size leaves heap_size = 2^heap_exp_cur and hash_size = 2 * heap_size behind,
    # and grow raises the exponent by exactly one.  Decided by evaluating the stores in order (engine LAU: exact
    # polynomials, 1 << (e + c) is 2^c times the symbol 2^e), so the spelling - temporaries, order, ++ or + 1, << or * - is free.
    from ..engines.laurent import LP, Formula, pow2
    writers = []
    for f, lhs, rhs, kind, node in inv.field_writers(m, "cmi_hashheap", "heap_size"):
        if f not in writers:
            writers.append(f)
    for f in writers:
        hpn = f.params[0]["name"]
        E = LP.sym("E")
        P = LP.sym("2^E")
        entry = {"heap_exp_cur": E, "heap_size": P, "hash_size": P.scale(2), "heap_exp_init": LP.sym("E0"), "heap_count": LP.sym("N"),
                 "item_counter": LP.sym("K")}
        scal = {p_["name"]: LP.sym(p_["name"]) for p_ in f.params[1:] if "*" not in (p_.get("type") or "") and "(" not in (p_.get("type") or "")}
        F = Formula(m, f, {hpn: dict(entry)}, scal, opaque_fields=("heap", "hash_map", "heap_compare", "cookie"), lenient=True)
        F.positive = []
        F.run()
        e1, hs1, hh1 = F.store.get((hpn, "heap_exp_cur")), F.store.get((hpn, "heap_size")), F.store.get((hpn, "hash_size"))
        r4.instance("%s leaves heap_exp_cur = %s, heap_size = %s, hash_size = %s" % (f.name, e1.show() if e1 is not None else "?",
                                                                                  hs1.show() if hs1 is not None else "?", hh1.show() if hh1 is not None else "?"))
        if e1 is None or hs1 is None or hh1 is None:
            raise AnalysisBroken("%s: heap geometry not evaluated" % f.name)
        if (hh1 - hs1.scale(2)) != LP():
            rep.finding(r4, f.name, "hash-size", "%s sets heap_size = %s but hash_size = %s (must be 2 * heap_size)"
                        % (f.name, hs1.show(), hh1.show()), where=m.rel(f.where))
            r4.fail()
        else:
            r4.ok()
        want = pow2(e1)
        if want is None or (hs1 - want) != LP():
            rep.finding(r4, f.name, "heap-size-power", "heap_size = %s is not 1 << heap_exp_cur with heap_exp_cur = %s (hash function "
                        "shifts by heap_exp_cur + 1)" % (hs1.show(), e1.show()), where=m.rel(f.where))
            r4.fail()
        else:
            r4.ok()
        if f.name == "hashheap_grow":
            if (e1 - E - LP.const(1)) != LP():
                rep.finding(r4, f.name, "grow:exp", "grow does not raise heap_exp_cur by exactly one (it leaves %s)" % e1.show(),
                            where=m.rel(f.where))
                r4.fail()
            else:
                r4.ok()
    if not any(f.name == "hashheap_grow" for f in writers):
        raise AnalysisBroken("hashheap_grow does not store heap_size")
    # the hash function's shift uses heap_exp_cur + 1 (= log2 hash_size)
    hk = hh.get("hash_key")
    if hk is None:
        raise AnalysisBroken("hash_key missing")
    hcx = FuncCtx(m, hk)
    ret = [hcx.canon(kids(x)[0]) for x in walk(hk.body) if x["kind"] == "ReturnStmt"][0]
    r4.instance("hash_key returns %s" % ret)
    if not re.search(r">> \(64 - \(\w+->heap_exp_cur \+ 1\)\)\)$", ret):
        rep.finding(r4, hk.name, "hash-shift", "hash_key = %s does not map into [0, hash_size)" % ret,
                    where=m.rel(hk.where))
        r4.fail()
    else:
        r4.ok()

    # R-C02-5 ------------------------------------------------------------
    r5 = rep.rule("R-C02-5", "initialize, grow and clear agree on the storage layout: (heap_size + 2) heap tags (two "
                  "scratch slots) followed by 2 * heap_size hash tags, the hash map starting right after the heap part; "
                  "sizes are compared as polynomials over the current / previous / initial heap size (1 << exponent is the "
                  "size that exponent stands for at that program point, helper functions are inlined), not as text",
                  floor=3)
    layout_rules(rep, r5, m)

    # R-C02-6 ------------------------------------------------------------
    r6 = rep.rule("R-C02-6", "heap_count is written only by enqueue, dequeue, remove, clear and initialize; the "
                  "count/is-empty/is-enqueued queries read the live count and the hash index", floor=5)
    allowed = {"cmi_hashheap_enqueue", "cmi_hashheap_dequeue", "cmi_hashheap_remove", "cmi_hashheap_clear",
               "cmi_hashheap_initialize"}
    for f, lhs, rhs, kind, node in inv.field_writers(m, "cmi_hashheap", "heap_count"):
        r6.instance("%s writes heap_count (%s)" % (f.name, kind))
        if f.name not in allowed:
            rep.finding(r6, f.name, "count:writer", "%s writes heap_count" % f.name, where=m.rel(loc(node)))
            r6.fail()
        else:
            r6.ok()
    cnt = m.need("cmi_hashheap_count")
    ccx = FuncCtx(m, cnt)
    rv = [ccx.canon(kids(x)[0]) for x in walk(cnt.body) if x["kind"] == "ReturnStmt"]
    if rv != ["%s->heap_count" % cnt.params[0]["name"]]:
        rep.finding(r6, cnt.name, "count:query", "count query returns %s" % rv, where=m.rel(cnt.where))
        r6.fail()
    else:
        r6.ok()
    ie = m.need("cmi_hashheap_is_enqueued")
    icx = FuncCtx(m, ie)
    rv = [icx.canon(kids(x)[0]) for x in walk(ie.body) if x["kind"] == "ReturnStmt"]
    p0, p1 = ie.params[0]["name"], ie.params[1]["name"]
    want_ = "(cmi_hash_find_index(%s, %s) != 0)" % (p0, p1)
    # the lookup decides; it may be guarded by "there is a heap and it is not empty" (in which case nothing is enqueued)
    def lookup_decides(t_):
        if t_ == want_:
            return True
        mm_ = re.fullmatch(r"\((.+) && %s\)" % re.escape(want_), t_)
        return bool(mm_) and re.fullmatch(r"[!()\w\s>=|&\-]*(heap|heap_count)[!()\w\s>=|&\-]*", mm_.group(1)) is not None and \
            "hash_find" not in mm_.group(1)
    if not any(lookup_decides(t_) for t_ in rv):
        rep.finding(r6, ie.name, "enqueued:query", "is-enqueued returns %s, not 'hash index of key != 0'" % rv,
                    where=m.rel(ie.where))
        r6.fail()
    else:
        r6.ok()
    # lookups return the entry found for the key
    for fn, fld in (("cmi_hashheap_item", "item"), ("cmi_hashheap_dkey", "dsortkey"), ("cmi_hashheap_ikey", "isortkey")):
        f = hh[fn]
        cx = FuncCtx(m, f)
        rv = [cx.canon(kids(x)[0]) for x in walk(f.body) if x["kind"] == "ReturnStmt"]
        want = "%s->heap[cmi_hash_find_index(%s, %s)].%s" % (f.params[0]["name"], f.params[0]["name"],
                                                              f.params[1]["name"], fld)
        r6.instance("%s returns %s" % (fn, rv))
        if rv != [want]:
            rep.finding(r6, fn, "lookup", "%s returns %s, not the %s of the entry found for the key" % (fn, rv, fld),
                        where=m.rel(f.where))
            r6.fail()
        else:
            r6.ok()

    # R-C02-7 ------------------------------------------------------------
    r7 = rep.rule("R-C02-7", "no loop that walks the slots of a heap array (in either direction, whatever its bounds) contains "
                  "a call that can restructure the same heap: a removal sifts the refill entry up or down, so entries not "
                  "yet visited move into visited slots (pattern cancel and condition signal are two-pass)", floor=5)
    for f, x, H, bad in heap_loops(m):
        r7.instance("%s: loop over the slots of %s->heap" % (f.name, H))
        if bad:
            rep.finding(r7, f.name, "mutate-while-iterating", "loop over the heap of %s calls %s, which can "
                        "restructure that heap under the loop" % (H, sorted(set(bad))), where=m.rel(loc(x)))
            r7.fail()
        else:
            r7.ok()


    # R-C02-8 ------------------------------------------------------------
    r8 = rep.rule("R-C02-8", "one round of heap_down pulls up an existing child that the other child does not go before, and "
                  "only if the moving tag does not go before it, stops only when no child goes before the moving tag, runs "
                  "exactly while a left child exists and never reads beyond heap_count; one round of heap_up pulls the parent "
                  "down iff the moving tag goes before it and runs exactly while a parent exists; the working copy is stored "
                  "into the final hole - exhaustively over the children present and all orders of the tags involved", floor=6)
    from . import siftrules
    siftrules.check_sifts(rep, r8, m)


    # R-C02-9 ------------------------------------------------------------
    r9 = rep.rule("R-C02-9", "every loop that walks a heap array to find, count, sum or collect entries (pattern find / count / "
                  "cancel, condition signal, queue position, holder sum) visits exactly the slots 1 .. heap_count, as an index "
                  "loop or a pointer walk in either direction (first slot, step and last slot derived from initialiser, "
                  "increment and guard)", floor=6)
    siftrules.check_scans(rep, r9, m)


    # R-C02-12 -----------------------------------------------------------
    r12 = rep.rule("R-C02-12", "re-keying an entry restores the heap order in every situation: after the new keys are stored the "
                   "entry is sifted up whenever they sort before the parent's and down whenever they sort after a child's - "
                   "every path of cmi_hashheap_reprioritize is run over all scenarios of a small heap model (size, position, "
                   "direction of the change; the slot a position-1 entry would take for its parent is the scratch slot 0)", floor=1)
    siftrules.check_reposition(rep, r12, m)

    # R-C02-11 -----------------------------------------------------------
    r11 = rep.rule("R-C02-11", "initialize establishes the empty structure whatever the record held before (reset = terminate + "
                   "initialize on the same record; the classes built on the hashheap are terminated and initialised again by "
                   "their users): on every path it stores every field of struct cmi_hashheap - the count 0 - except the key "
                   "counter, which keeps counting so that handles from before stay invalid", floor=8)
    KEEPS = {"item_counter": "handles are never reused, also across a reset"}
    ini = m.need("cmi_hashheap_initialize")
    icx = FuncCtx(m, ini)
    ihp = ini.params[0]["name"]
    per_field = {}
    whole = False
    for l_, r_, k_, n_ in inv.stores(ini):
        lc = icx.canon(l_)
        if lc == "*" + ihp and k_ == "=":
            whole = True
        mm = re.fullmatch(re.escape(ihp) + r"->(\w+)", lc)
        if mm and k_ == "=":
            per_field.setdefault(mm.group(1), []).append((inv.dominating_conditions(icx, ini, n_), r_))
    for c_ in walk(ini.body):
        if c_["kind"] == "CallExpr" and callee_ref(c_) in ("memset", "cmi_memset") and icx.canon(kids(c_)[1]) == ihp and \
                "sizeof" in render(kids(c_)[3]):
            whole = True
    for fname_, ft_, fd_ in m.records["cmi_hashheap"]:
        if fname_ in KEEPS:
            r11.instance("field %s: kept (%s)" % (fname_, KEEPS[fname_]))
            r11.ok()
            continue
        sts = per_field.get(fname_, [])
        always = whole or any(not cd for cd, _ in sts) or \
            any(len(c1) == 1 and [inv._neg(c1[0])] == c2 for c1, _ in sts for c2, _ in sts)
        okv = True
        if fname_ == "heap_count":
            okv = whole or all(int_value(strip(r_, casts=True)) == 0 for _, r_ in sts)
        r11.instance("field %s: stored on every path: %s" % (fname_, always))
        if not always or not okv:
            rep.finding(r11, ini.name, "init:field-left:" + fname_, "cmi_hashheap_initialize does not set '%s'%s on every path: "
                        "a record that was used before (reset, or terminate followed by initialize) keeps its old value - "
                        "with a stale count the empty heap reports phantom entries and the next growth check aborts"
                        % (fname_, " to 0" if fname_ == "heap_count" else ""), where=m.rel(ini.where))
            r11.fail()
        else:
            r11.ok()

    # R-C02-10 -----------------------------------------------------------
    r10 = rep.rule("R-C02-10", "hash probing stays inside the map and both probers walk the same sequence: the start index has "
                   "at most log2(hash_size) bits (a 64-bit product shifted right by 64 - (heap_exp_cur + 1), with hash_size = "
                   "2 * heap_size = 2^(heap_exp_cur + 1)), the step is (i + 1) & (hash_size - 1), every subscript of the map in "
                   "the probers is that index, the finder stops on the key (returning its heap index), on a never-used slot and "
                   "on wrap-around, the slot finder stops on a free slot (heap index 0)", floor=5)
    hk = m.need("hash_key")
    kx = FuncCtx(m, hk)
    rets = [x for x in walk(hk.body) if x["kind"] == "ReturnStmt" and kids(x)]
    okk = False
    if len(rets) == 1:
        e = strip(kids(rets[0])[0], casts=True)
        if e["kind"] == "BinaryOperator" and e.get("opcode") == ">>":
            prod, sh = strip(kids(e)[0], casts=True), kx.canon(kids(e)[1])
            mm = re.fullmatch(r"\(64 - \((\w+)->heap_exp_cur \+ (\d+)\)\)", sh) or re.fullmatch(r"\(\(64 - (\w+)->heap_exp_cur\) - (\d+)\)", sh)
            mulok = prod["kind"] == "BinaryOperator" and prod.get("opcode") == "*" and any(
                (int_value(strip(z, casts=True)) or 0) % 2 == 1 for z in kids(prod)) and \
                "uint64_t" in (prod.get("type") or "uint64_t") or "unsigned long" in (prod.get("type") or "")
            r10.instance("hash_key: %s" % kx.canon(e))
            if mm and mulok:
                bits_over = int(mm.group(2))
                okk = bits_over <= 1
                if not okk:
                    rep.finding(r10, hk.name, "probe:start-range", "hash_key keeps heap_exp_cur + %d bits: the start index can reach "
                                "2^(heap_exp_cur + %d) - 1, beyond the hash map of 2^(heap_exp_cur + 1) entries" % (bits_over, bits_over),
                                where=m.rel(hk.where))
                    r10.fail()
            elif not mm:
                raise AnalysisBroken("hash_key: shift amount %s not understood" % sh)
    if okk:
        r10.ok()
    elif not rets or len(rets) != 1:
        raise AnalysisBroken("hash_key not understood")
    for fn, stop_field in (("cmi_hash_find_index", None), ("hash_find_slot", "heap_index")):
        f = m.need(fn)
        cx = FuncCtx(m, f)
        hpn = f.params[0]["name"]
        keyp = f.params[1]["name"]
        # path traces (engine TRACE): loop entry values, assumed conditions and returned values in canonical form,
        # independent of whether the loop is for(;;)+returns, do-while+break or a for loop with the test in its head
        from ..engines import trace as TR
        tpaths = []
        TR.run_traces(m, f, lambda dom, flow, s_, tr, why, where, ev: tpaths.append((list(tr), ev[1] if ev else None, where))
                      if why.startswith("return") else None)
        # leaving an endless loop after the representative iteration and falling off the end is an artefact of the
        # loop abstraction, not a path of the program
        tpaths = [t_ for t_ in tpaths if t_[1] is not None]
        if not tpaths:
            raise AnalysisBroken("%s: no return path traced" % fn)
        loopvars = {}
        for tr, rv, wh in tpaths:
            for e in tr:
                if e[0] == "loop":
                    for vn, vv in e[2]:
                        if "heap_exp_cur" in vv and ">>" in vv and keyp in vv:
                            loopvars[vn] = vv
        if len(loopvars) != 1:
            raise AnalysisBroken("%s: probe index not found (loop variables started from the hash: %s)" % (fn, sorted(loopvars)))
        hvn, START = next(iter(loopvars.items()))
        steps = [cx.canon(r_) for l, r_, k_, n_ in inv.stores(f) if r_ is not None and render(strip(l, casts=True)) == hvn
                 and cx.canon(r_) not in (START,) and not re.fullmatch(r"hash_key\(.*\)", render(strip(r_, casts=True)))
                 and cx.canon(r_) != START]
        steps = [st_ for st_ in steps if "heap_exp_cur" not in st_]
        want_step = {"((%s + 1) & (%s->hash_size - 1))" % (hvn, hpn), "((%s->hash_size - 1) & (%s + 1))" % (hpn, hvn)}
        r10.instance("%s: start hash_key(%s), step %s" % (fn, keyp, steps))
        if len(set(steps)) != 1 or steps[0] not in want_step:
            rep.finding(r10, fn, "probe:step", "%s advances its probe index by %s, not (i + 1) & (hash_size - 1): it leaves the "
                        "map or skips slots the other prober uses" % (fn, steps), where=m.rel(f.where))
            r10.fail()
        else:
            r10.ok()
        subs = set()
        for y in walk(f.body):
            if y["kind"] == "ArraySubscriptExpr":
                subs.add(render(cx.resolve(kids(y)[1])))
        if subs != {hvn}:
            rep.finding(r10, fn, "probe:subscript", "%s subscripts the map with %s" % (fn, sorted(subs)), where=m.rel(f.where))
            r10.fail()
        else:
            r10.ok()
        I = r"%s(?:#L\d+)?'?" % re.escape(hvn)
        MAPI = r"(?:\w+->)?\w+\[%s\]" % I
        def has(tr, pat, truth):
            return any(e[0] == "assume" and re.fullmatch(pat, e[1]) and e[2] is truth for e in tr)
        KEY = r"\(%s\.key == %s\)|\(%s == %s\.key\)" % (MAPI, re.escape(keyp), re.escape(keyp), MAPI)
        KEYN = r"\(%s\.key != %s\)" % (MAPI, re.escape(keyp))
        EMPTY = r"\(%s\.key == 0\)" % MAPI
        EMPTYN = r"\(%s\.key != 0\)" % MAPI
        FREE = r"\(%s\.heap_index == 0\)" % MAPI
        FREEN = r"\(%s\.heap_index != 0\)" % MAPI
        summary = []
        bad = None
        if fn == "cmi_hash_find_index":
            saw = {"key": False, "empty": False, "wrap": False}
            for tr, rv, wh in tpaths:
                keyhit = has(tr, KEY, True) or has(tr, KEYN, False)
                empty = has(tr, EMPTY, True) or has(tr, EMPTYN, False)
                wrap = any(e[0] == "assume" and START in e[1] and ((" == " in e[1] and e[2] is True) or (" != " in e[1] and e[2] is False))
                           for e in tr)
                summary.append((rv, "key" if keyhit else "empty" if empty else "wrap" if wrap else "?"))
                if re.fullmatch(r"%s\.heap_index" % MAPI, rv or ""):
                    if not keyhit:
                        bad = "returns a heap index without having matched the key (%s)" % wh
                    saw["key"] = True
                elif rv == "0":
                    if keyhit:
                        bad = "returns 'not found' on a path where the key was matched (%s)" % wh
                    elif empty:
                        saw["empty"] = True
                    elif wrap:
                        saw["wrap"] = True
                    else:
                        bad = "returns 'not found' without having reached a never-used slot or wrapped around (%s)" % wh
                else:
                    bad = "returns %s (%s)" % (rv, wh)
            if bad is None and not all(saw.values()):
                bad = "missing stop condition(s): %s" % sorted(k_ for k_, v_ in saw.items() if not v_)
        else:
            sawfree = False
            for tr, rv, wh in tpaths:
                summary.append((rv, [e[1] for e in tr if e[0] == "assume"][-1:] ))
                if not re.fullmatch(I, rv or ""):
                    bad = "returns %s, not the probe index (%s)" % (rv, wh)
                for e in tr:
                    if e[0] == "assume" and ".key" in e[1]:
                        bad = "decides on the key field (%s): a tombstone (key kept, heap index 0) would never be reused" % e[1]
                if has(tr, FREE, True) or has(tr, FREEN, False):
                    sawfree = True
            if bad is None and not sawfree:
                bad = "no path leaves the loop on a free slot (heap index 0)"
        r10.instance("%s paths: %s" % (fn, summary))
        rep.sample({"rule": "R-C02-10", "function": fn, "paths": [list(map(str, x_)) for x_ in summary], "step": steps})
        if bad:
            rep.finding(r10, fn, "probe:stops", "%s %s" % (fn, bad), where=m.rel(f.where))
            r10.fail()
        else:
            r10.ok()
    # nobody else walks a probe sequence of its own: a function other than the two probers that starts from hash_key()
    # must step exactly like them (index form), otherwise entries land where the finder - which wraps - never looks
    for f in m.funcs.values():
        if (m.rel(f.file) or "") not in ("src/cmi_hashheap.c", "src/cmi_hashheap.h") or f.name in ("cmi_hash_find_index", "hash_find_slot", "hash_key"):
            continue
        hcalls = [c for c in walk(f.body) if c["kind"] == "CallExpr" and callee_ref(c) == "hash_key"]
        if not hcalls:
            continue
        cx = FuncCtx(m, f)
        for c in hcalls:
            # the variable that receives the start (an index, or a pointer &map[start])
            holder = None
            for d in walk(f.body):
                if d["kind"] == "VarDecl" and kids(d) and any(y is c for y in walk(kids(d)[0])):
                    holder = d
            for l, r_, k_, n_ in inv.stores(f):
                if r_ is not None and any(y is c for y in walk(r_)) and strip(l, casts=True)["kind"] == "DeclRefExpr":
                    holder = strip(l, casts=True)["ref"]
            if holder is None:
                raise AnalysisBroken("%s: what is done with hash_key() is not understood" % f.name)
            hid, hname = holder["id"], holder["name"]
            is_ptr = "*" in (holder.get("type") or "")
            adv = [y for y in walk(f.body) if y["kind"] == "UnaryOperator" and y.get("opcode") in ("++", "--") and
                   strip(kids(y)[0], casts=True).get("ref", {}).get("id") == hid]
            sets = [(cx.canon(r_), n_) for l, r_, k_, n_ in inv.stores(f) if r_ is not None and
                    strip(l, casts=True).get("ref", {}).get("id") == hid and not any(y is c for y in walk(r_))]
            r10.instance("%s: own probe sequence from hash_key() in '%s' (%d step(s))" % (f.name, hname, len(adv) + len(sets)))
            if not adv and not sets:
                r10.ok()
                continue
            hpn = f.params[0]["name"] if f.params else "hp"
            want = {"((%s + 1) & (%s->hash_size - 1))" % (hname, hpn), "((%s->hash_size - 1) & (%s + 1))" % (hpn, hname)}
            if not is_ptr and not adv and all(v in want for v, n_ in sets):
                r10.ok()
                continue
            if is_ptr and sets:
                raise AnalysisBroken("%s: a pointer probe that is re-based (%s) is not understood" % (f.name, [v for v, n_ in sets]))
            rep.finding(r10, f.name, "probe:no-wrap", "%s walks its own probe sequence from hash_key() in '%s' and advances it without "
                        "reducing it modulo the map size ((i + 1) & (hash_size - 1)): a chain that reaches the end of the map runs "
                        "past it, while the finder wraps to slot 0 and never finds the entry stored there"
                        % (f.name, hname), where=m.rel(loc((adv or [sets[0][1]])[0])))
            r10.fail()


def run(tier="quick"):
    models = common.load_models(tier)
    rep = Report(PID, tier, models[0])
    rep.exhaustive = True
    rep.assumptions = ["sort keys are not NaN", "keys are unique and non-zero (asserted by the API)"]
    rep.not_decided = ["termination of the sift loops; quality of the hash distribution",
                       "placement chosen by rehash"]
    for m in models:
        rep.configs.append(m.config)
        common.run_rules(rep, m, rules)
    return rep.finish()
