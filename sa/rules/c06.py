"""C06 - Waiters are served by priority, then by waiting time; priority changes reorder."""
import re

from ..astutil import kids, strip, walk, callee_ref, render, loc, int_value
from ..frontend import AnalysisBroken
from ..report import Report
from ..vals import FuncCtx, is_assert_stmt, is_logger_call
from . import common
from .. import inv

PID = "C06"
GUARD_SPEC = [("isortkey", "desc"), ("dsortkey", "asc"), ("key", "asc")]
HEAP_MUTATORS = {"cmi_hashheap_enqueue", "cmi_hashheap_dequeue", "cmi_hashheap_remove",
                 "cmi_hashheap_cancel", "cmi_hashheap_reprioritize", "cmi_hashheap_clear",
                 "cmi_hashheap_pattern_cancel", "cmi_hashheap_reset", "cmi_hashheap_terminate"}


def rules(rep, m):
    SIG = common.signal_table(m)
    # R-C06-1 ------------------------------------------------------------
    r1 = rep.rule("R-C06-1", "the waiting-list comparator installed by cmb_resourceguard_initialize is the "
                  "strict total order lex(priority descending, entry time ascending, key ascending), "
                  "exhaustively over all orderings of the three fields", floor=1)
    cmpf = common.installed_comparator(m, "cmb_resourceguard_initialize")
    common.ord_rule(rep, r1, m, cmpf, GUARD_SPEC, "key",
                    "the strict total order (priority desc, entry time asc, key asc)")

    # R-C06-2 ------------------------------------------------------------
    r2 = rep.rule("R-C06-2", "at every enqueue on a guard's waiting list the integer sort key is the caller's "
                  "current priority, the double sort key is the current simulation time and the key is the "
                  "process address", floor=1)
    guard_enq = []
    for f in m.funcs.values():
        if m.rel(f.file) != "src/cmb_resourceguard.c":
            continue
        for n in walk(f.body):
            if n["kind"] == "CallExpr" and callee_ref(n) == "cmi_hashheap_enqueue":
                guard_enq.append((f, n))
    for f, n in guard_enq:
        cx = FuncCtx(m, f)
        a = kids(n)[1:]
        proc = cx.canon(a[1])
        key = cx.canon(a[5])
        dk = cx.canon(a[6])
        ik = cx.canon(a[7])
        r2.instance("%s: enqueue(proc=%s key=%s dsortkey=%s isortkey=%s)" % (f.name, proc, key, dk, ik))
        rep.sample({"rule": "R-C06-2", "function": f.name, "proc": proc, "key": key, "dsortkey": dk,
                    "isortkey": ik})
        ok = True
        if ik != proc + "->priority":
            rep.finding(r2, f.name, "enqueue:isortkey",
                        "waiting-list entry gets integer sort key '%s', not the waiting process's priority" % ik,
                        where=m.rel(loc(n)))
            ok = False
        if dk != "cmb_time()" and dk != "sim_time":
            rep.finding(r2, f.name, "enqueue:dsortkey",
                        "waiting-list entry gets double sort key '%s', not the current time" % dk,
                        where=m.rel(loc(n)))
            ok = False
        if key != proc:
            rep.finding(r2, f.name, "enqueue:key",
                        "waiting-list key '%s' is not the process address '%s'" % (key, proc),
                        where=m.rel(loc(n)))
            ok = False
        (r2.ok if ok else r2.fail)(3)

    # R-C06-3 ------------------------------------------------------------
    r3 = rep.rule("R-C06-3", "cmb_resourceguard_signal evaluates the demand of the peeked head only, removes "
                  "exactly that head with no heap mutation in between, and is the only scheduler of the "
                  "guard's wake-up event with the success signal", floor=2)
    sig = m.need("cmb_resourceguard_signal")
    cx = FuncCtx(m, sig)
    demand_calls = [n for n in walk(sig.body) if n["kind"] == "CallExpr" and callee_ref(n) is None]
    if len(demand_calls) != 1:
        raise AnalysisBroken("cmb_resourceguard_signal: expected one indirect (demand) call, found %d"
                             % len(demand_calls))
    dc = demand_calls[0]
    callee = cx.canon(kids(dc)[0])
    mm = re.match(r"^\*?cmi_hashheap_peek_item\((.+)\)\[1\]$", callee)
    r3.instance("demand call %s" % callee)
    if not mm:
        rep.finding(r3, sig.name, "demand:not-head",
                    "the demand function evaluated ('%s') is not the one stored in the peeked head entry" % callee,
                    where=m.rel(loc(dc)))
        r3.fail()
        heap = None
    else:
        heap = mm.group(1)
        r3.ok()
        args = [cx.canon(a) for a in kids(dc)[1:]]
        want1 = "cmi_hashheap_peek_item(%s)[0]" % heap
        want2 = "cmi_hashheap_peek_item(%s)[2]" % heap
        if len(args) != 3 or args[1] != want1 or args[2] != want2:
            rep.finding(r3, sig.name, "demand:args",
                        "demand evaluated with (%s), not with the head entry's process and context" % ", ".join(args),
                        where=m.rel(loc(dc)))
            r3.fail()
        else:
            r3.ok()
    # the if statement whose condition contains the demand call
    ifs = [n for n in walk(sig.body) if n["kind"] == "IfStmt" and any(x is dc for x in walk(kids(n)[0]))]
    if not ifs:
        # the outcome kept in a local (assigned once from the call) and tested right after
        for st_ in walk(sig.body):
            if st_["kind"] == "BinaryOperator" and st_.get("opcode") == "=" and strip(kids(st_)[1], casts=True) is dc:
                tv = strip(kids(st_)[0], casts=True)
                if tv["kind"] == "DeclRefExpr":
                    writes = [l_ for l_, r__, k__, n__ in inv.stores(sig) if strip(l_, casts=True).get("ref", {}).get("id") == tv["ref"]["id"]]
                    if len(writes) == 1:
                        ifs = [n for n in walk(sig.body) if n["kind"] == "IfStmt" and
                               strip(strip(kids(n)[0], casts=True) if strip(kids(n)[0], casts=True)["kind"] != "UnaryOperator"
                                     else kids(strip(kids(n)[0], casts=True))[0], casts=True).get("ref", {}).get("id") == tv["ref"]["id"]]
            if st_["kind"] == "VarDecl" and kids(st_) and strip(kids(st_)[0], casts=True) is dc:
                ifs = [n for n in walk(sig.body) if n["kind"] == "IfStmt" and
                       strip(strip(kids(n)[0], casts=True) if strip(kids(n)[0], casts=True)["kind"] != "UnaryOperator"
                             else kids(strip(kids(n)[0], casts=True))[0], casts=True).get("ref", {}).get("id") == st_.get("id")]
    if heap is not None:
        if len(ifs) != 1:
            raise AnalysisBroken("cmb_resourceguard_signal: demand call is not an if condition")
        cond = strip(kids(ifs[0])[0], casts=True)
        negated = cond["kind"] == "UnaryOperator" and cond.get("opcode") == "!"
        branch = kids(ifs[0])[2] if negated and len(kids(ifs[0])) > 2 else kids(ifs[0])[1]
        if negated and len(kids(ifs[0])) <= 2:
            # guard-clause form: if (!demand(...)) return ...;  the grant path is what follows in the same block
            parent = [a_ for a_ in inv.enclosing_chain(sig, ifs[0]) if a_["kind"] == "CompoundStmt"]
            if not inv._ends_in_exit(kids(ifs[0])[1]) or not parent:
                raise AnalysisBroken("cmb_resourceguard_signal: cannot locate the granted branch")
            sib = kids(parent[-1])
            at = [i_ for i_, s_ in enumerate(sib) if s_ is ifs[0]]
            if not at:
                raise AnalysisBroken("cmb_resourceguard_signal: cannot locate the granted branch")
            branch = {"kind": "CompoundStmt", "inner": sib[at[0] + 1:]}
        seen_deq = False
        for s in kids(branch):
            calls = [x for x in walk(s) if x["kind"] == "CallExpr"]
            for c in calls:
                nm = callee_ref(c)
                if nm == "cmi_hashheap_dequeue":
                    if cx.canon(kids(c)[1]) == heap and not seen_deq:
                        seen_deq = True
                    else:
                        rep.finding(r3, sig.name, "dequeue:other",
                                    "grant path removes an entry from '%s', not the evaluated head of '%s'"
                                    % (cx.canon(kids(c)[1]), heap), where=m.rel(loc(c)))
                elif nm in HEAP_MUTATORS and not seen_deq:
                    rep.finding(r3, sig.name, "mutation-before-dequeue:" + nm,
                                "%s mutates a heap between evaluating the head and removing it" % nm,
                                where=m.rel(loc(c)))
        r3.instance("grant branch dequeues head: %s" % seen_deq)
        if not seen_deq:
            rep.finding(r3, sig.name, "dequeue:missing",
                        "grant path does not dequeue the evaluated head of the waiting list",
                        where=m.rel(loc(ifs[0])))
            r3.fail()
        else:
            r3.ok()
        # the wake-up goes to the head's process
        woke = False
        for c in walk(branch):
            if c["kind"] == "CallExpr" and callee_ref(c) == "cmb_event_schedule":
                subj = cx.canon(kids(c)[2])
                sgn = cx.canon(kids(c)[3])
                if subj == "cmi_hashheap_peek_item(%s)[0]" % heap and common.sigval(sgn) == SIG["CMB_PROCESS_SUCCESS"]:
                    woke = True
                else:
                    rep.finding(r3, sig.name, "wakeup:subject",
                                "grant path schedules a wake-up for '%s' with signal '%s', expected the head "
                                "process with the success code" % (subj, sgn), where=m.rel(loc(c)))
        if not woke:
            rep.finding(r3, sig.name, "wakeup:missing", "grant path schedules no wake-up for the head process",
                        where=m.rel(loc(ifs[0])))
            r3.fail()
        else:
            r3.ok()
    # who schedules the guard's wake-up action with SUCCESS
    wake = None
    for c in walk(sig.body):
        if c["kind"] == "CallExpr" and callee_ref(c) == "cmb_event_schedule":
            wake = cx.canon(kids(c)[1])
    if wake is None:
        raise AnalysisBroken("cmb_resourceguard_signal schedules no event")
    n_sched = 0
    for f in m.funcs.values():
        fx = None
        for c in walk(f.body):
            if c["kind"] == "CallExpr" and callee_ref(c) == "cmb_event_schedule":
                fx = fx or FuncCtx(m, f)
                if fx.canon(kids(c)[1]) == wake and m.resolve(f.unit, wake) == m.resolve(sig.unit, wake):
                    n_sched += 1
                    sgn = fx.canon(kids(c)[3])
                    r3.instance("%s schedules %s with %s" % (f.name, wake, sgn))
                    if f.key != sig.key and common.sigval(sgn) == SIG["CMB_PROCESS_SUCCESS"]:
                        rep.finding(r3, f.name, "grant-outside-signal",
                                    "%s grants (schedules %s with the success code) outside "
                                    "cmb_resourceguard_signal, bypassing the priority order" % (f.name, wake),
                                    where=m.rel(loc(c)))
                        r3.fail()
                    else:
                        r3.ok()

    # R-C06-4 ------------------------------------------------------------
    r4 = rep.rule("R-C06-4", "cmb_process_priority_set stores the new priority and repositions the process in "
                  "every priority-ordered container it waits in (event queue for timers, guard for resources) "
                  "with the other sort key read back unchanged, and notifies every held resource", floor=3)
    ps = m.need("cmb_process_priority_set")
    cx = FuncCtx(m, ps)
    pp = ps.params[0]["name"]
    pri = ps.params[1]["name"]
    stored = False
    for n in walk(ps.body):
        if n["kind"] == "BinaryOperator" and n.get("opcode") == "=":
            if cx.canon(kids(n)[0]) == pp + "->priority":
                stored = cx.canon(kids(n)[1]) == pri
    r4.instance("store %s->priority = %s: %s" % (pp, pri, stored))
    if not stored:
        rep.finding(r4, ps.name, "store:priority", "the new priority is not stored in the process", where=m.rel(ps.where))
        r4.fail()
    else:
        r4.ok()

    def guarded_calls(name):
        """calls of `name` inside a loop, with the enclosing if-conditions (canon strings)"""
        out = []

        def rec(n, conds, inloop):
            k = n["kind"]
            if k == "IfStmt":
                ch = kids(n)
                c = cx.canon(ch[0])
                rec(ch[1], conds + [c], inloop)
                if len(ch) > 2:
                    rec(ch[2], conds + ["!" + c], inloop)
                return
            if k in ("WhileStmt", "ForStmt", "DoStmt"):
                for c in kids(n):
                    rec(c, conds, True)
                return
            if k == "CallExpr" and (callee_ref(n) == name or (name is None and callee_ref(n) is None)):
                out.append((n, conds, inloop))
            for c in kids(n):
                rec(c, conds, inloop)
        rec(ps.body, [], False)
        return out

    # timers
    tcalls = guarded_calls("cmb_event_reprioritize")
    okt = False
    for c, conds, inloop in tcalls:
        a = [cx.canon(x) for x in kids(c)[1:]]
        if inloop and any("CMI_PROCESS_AWAITABLE_TIME" in cd and "==" in cd and not cd.startswith("!") for cd in conds) \
                and a[0].endswith("->handle") and a[1] == pri:
            okt = True
        r4.instance("cmb_event_reprioritize(%s) under %s" % (", ".join(a), conds))
    if not okt:
        rep.finding(r4, ps.name, "reposition:timers",
                    "pending timer/hold wake-ups of the process are not reprioritised with the new priority",
                    where=m.rel(ps.where))
        r4.fail()
    else:
        r4.ok()
    # guards
    gcalls = guarded_calls("cmi_hashheap_reprioritize")
    okg = False
    for c, conds, inloop in gcalls:
        a = [cx.canon(x) for x in kids(c)[1:]]
        r4.instance("cmi_hashheap_reprioritize(%s) under %s" % (", ".join(a), conds))
        rep.sample({"rule": "R-C06-4", "call": "cmi_hashheap_reprioritize(%s)" % ", ".join(a), "guards": conds})
        if not inloop or not any("CMI_PROCESS_AWAITABLE_RESOURCE" in cd and "==" in cd and not cd.startswith("!")
                                 for cd in conds):
            continue
        good = True
        if not a[0].endswith("->ptr"):
            good = False
        # the repositioning may only depend on 'this awaitable is a guard' and 'the process is still enqueued there'
        def conjuncts(t):
            if t.startswith("!") or not (t.startswith("(") and t.endswith(")")):
                return [t]
            inner, depth, parts, cur = t[1:-1], 0, [], ""
            i_ = 0
            while i_ < len(inner):
                ch_ = inner[i_]
                depth += ch_ == "("
                depth -= ch_ == ")"
                if depth == 0 and inner.startswith(" && ", i_):
                    parts.append(cur)
                    cur = ""
                    i_ += 4
                    continue
                cur += ch_
                i_ += 1
            parts.append(cur)
            if len(parts) == 1:
                return [t]
            return [x_ for p_ in parts for x_ in conjuncts(p_)]
        for cd in inv.dominating_conditions(cx, ps, c):
            c0 = cd[1:] if cd.startswith("!") else cd
            allowed = re.fullmatch(r"\(.+->type == CMI_PROCESS_AWAITABLE_\w+\)", c0) or c0 == "cmi_hashheap_is_enqueued(%s, %s)" % (a[0], a[1]) \
                or re.fullmatch(r"\(%s != NULL\)" % re.escape(a[0]), c0)
            if not allowed:
                rep.finding(r4, ps.name, "reposition:extra-condition", "the waiting-list entry is repositioned only under the extra "
                            "condition '%s': when it does not hold the entry keeps its old priority as sort key although the "
                            "process's priority has changed" % cd, where=m.rel(loc(c)))
                good = False
        if a[1] != pp:
            rep.finding(r4, ps.name, "reposition:guard-key", "guard entry repositioned under key '%s', not the "
                        "process address" % a[1], where=m.rel(loc(c)))
            good = False
        if a[2] != "cmi_hashheap_dkey(%s, %s)" % (a[0], a[1]):
            rep.finding(r4, ps.name, "reposition:guard-time",
                        "guard entry repositioned with entry time '%s' instead of the value read back from the "
                        "waiting list (waiting time must be unchanged)" % a[2], where=m.rel(loc(c)))
            good = False
        if a[3] != pri:
            rep.finding(r4, ps.name, "reposition:guard-priority",
                        "guard entry repositioned with priority '%s', not the new priority" % a[3],
                        where=m.rel(loc(c)))
            good = False
        okg = okg or good
    if not okg:
        rep.finding(r4, ps.name, "reposition:guards",
                    "a process waiting on a guard is not repositioned in the waiting list when its priority changes",
                    where=m.rel(ps.where))
        r4.fail()
    else:
        r4.ok()
    # holders
    icalls = guarded_calls(None)
    okh = False
    for c, conds, inloop in icalls:
        callee = cx.canon(kids(c)[0])
        a = [cx.canon(x) for x in kids(c)[1:]]
        r4.instance("indirect %s(%s)" % (callee, ", ".join(a)))
        if inloop and callee.endswith("->reprio") and len(a) == 3 and a[1] == pp and a[2] == pri \
                and callee.lstrip("*") == a[0] + "->reprio":
            okh = True
    if not okh:
        rep.finding(r4, ps.name, "reposition:holders",
                    "held resources are not told about the new priority (reprio slot not invoked with "
                    "(resource, process, new priority))", where=m.rel(ps.where))
        r4.fail()
    else:
        r4.ok()


    # R-C06-7 ------------------------------------------------------------
    r7 = rep.rule("R-C06-7", "one change of availability is offered to the waiting list once: no function of the guard-based "
                  "classes signals a guard repeatedly in a loop that neither leaves after the signal nor blocks in between - every "
                  "signal takes the first waiter off the list, and a waiter that was woken for units someone ahead of it took "
                  "re-enters with a new waiting time, behind later arrivals of its priority", floor=8)
    n_sig = 0
    for f_ in sorted(m.funcs.values(), key=lambda g_: g_.name):
        rel_ = m.rel(f_.file) or ""
        if not rel_.startswith("src/cmb_") or rel_.endswith("cmb_resourceguard.c") or f_.body is None:
            continue
        fx_ = None
        for c_ in walk(f_.body):
            if c_["kind"] != "CallExpr" or callee_ref(c_) != "cmb_resourceguard_signal":
                continue
            n_sig += 1
            chain_ = inv.enclosing_chain(f_, c_)
            loops_ = [a_ for a_ in chain_ if a_["kind"] in ("ForStmt", "WhileStmt", "DoStmt") and
                      not (a_["kind"] == "DoStmt" and int_value(kids(a_)[1]) == 0)]
            if not loops_:
                r7.ok()
                continue
            # inside a loop: the path after the signal must leave the loop without coming round again
            lp_ = loops_[-1]
            leaves = False
            for blk_ in reversed([a_ for a_ in chain_[chain_.index(lp_) + 1:] if a_["kind"] == "CompoundStmt"]):
                if inv._ends_in_exit(blk_) and kids(blk_)[-1]["kind"] in ("ReturnStmt", "BreakStmt", "CompoundStmt", "IfStmt") and \
                        not any(y["kind"] == "ContinueStmt" for y in walk(blk_)):
                    leaves = True
            if not leaves:
                # a round that blocks in between is a new instant with a new change of availability
                may_y = m.reaches({"cmi_coroutine_transfer"})
                for y_ in walk(lp_):
                    if y_["kind"] == "CallExpr" and callee_ref(y_) and m.resolve(f_.unit, callee_ref(y_)) in may_y:
                        leaves = True
            r7.instance("%s: signal inside a loop, followed by leaving it or by a suspension: %s" % (f_.name, leaves))
            if leaves:
                r7.ok()
            else:
                rep.finding(r7, f_.name, "signal:repeated", "%s signals a guard inside a loop that goes round again: each round takes "
                            "another waiter off the waiting list although the first one may use up everything that became "
                            "available; the others find nothing, wait again with a new waiting time and lose their place"
                            % f_.name, where=m.rel(loc(c_)))
                r7.fail()
    if n_sig < 8:
        raise AnalysisBroken("R-C06-7: only %d guard signals found" % n_sig)

    # R-C06-6 ------------------------------------------------------------
    r6 = rep.rule("R-C06-6", "a priority change repositions the waiter in every situation: the routine behind it "
                  "(cmi_hashheap_reprioritize) sifts the re-keyed entry up whenever it now sorts before its parent and down "
                  "whenever it sorts after a child - all paths over all scenarios of a small heap model (shared with R-C02-12)",
                  floor=1)
    from . import siftrules as _sr6
    _sr6.check_reposition(rep, r6, m)

    # R-C06-5 ------------------------------------------------------------
    r5 = rep.rule("R-C06-5", "cmb_condition_signal, the one place that wakes several waiters of one waiting list in a "
                  "single step, issues the wake-up events in the order of the list's own comparator (priority, then "
                  "waiting time), not in the order of the partially ordered heap array; the events carry the same "
                  "time and the waiter's priority, so the event queue serves them in that order", floor=3)
    cs = m.need("cmb_condition_signal")
    cx = FuncCtx(m, cs)
    cvp = cs.params[0]["name"]
    P = "%s->guard." % cvp
    preds = [c for c in walk(cs.body) if c["kind"] == "CallExpr" and callee_ref(c) is None
             and cx.canon(kids(c)[0]).lstrip("*").endswith(".item[1]")]
    from ..vals import is_assert_stmt as _is_assert
    scans = [x for x in walk(cs.body) if x["kind"] in ("ForStmt", "WhileStmt", "DoStmt") and not _is_assert(x) and
             not (x["kind"] == "DoStmt" and int_value(kids(x)[1]) == 0) and preds and any(y is preds[0] for y in walk(x))]
    scans = [x for x in scans if not any(y is not x and any(z is y for z in walk(x)) for y in scans)]
    if len(preds) != 1 or len(scans) != 1:
        raise AnalysisBroken("R-C06-5: cmb_condition_signal no longer has one scan loop over the waiting list")
    scan = scans[0]
    from . import siftrules as _sr
    _sr.scan_range_general(m, cs, scan, "&%s->guard" % cvp)
    lv = _sr.scan_range_general.last_index
    entry = "%sheap[%s]" % (P, lv)
    scheds = [y for y in walk(cs.body) if y["kind"] == "CallExpr" and callee_ref(y) == "cmb_event_schedule"]
    r5.instance("%d wake-up site(s)" % len(scheds))
    in_scan = [y for y in scheds if any(z is y for z in walk(scan))]
    if in_scan:
        rep.finding(r5, cs.name, "wake:array-order", "wake-up events are scheduled while scanning the heap array, i.e. in "
                    "array order: among waiters of equal priority the array order is not the waiting-time order once "
                    "the heap has been reshuffled by a removal", where=m.rel(loc(in_scan[0])))
        r5.fail()
    else:
        r5.ok()
        # the recorded list and how it is ordered
        # where a satisfied entry is finally stored: through a subscript (cursor = index variable) or through a walking
        # pointer (cursor = that pointer)
        finals = []
        for l, r_, k, n_ in inv.stores(cs):
            lt = strip(l, casts=True)
            if k == "=" and r_ is not None and any(z is n_ for z in walk(scan)) and cx.canon(r_) in (entry, "*&" + entry) and \
                    (lt["kind"] == "ArraySubscriptExpr" or (lt["kind"] == "UnaryOperator" and lt.get("opcode") == "*")):
                finals.append((lt, r_, n_))
        if len(finals) != 1:
            raise AnalysisBroken("R-C06-5: cannot find where cmb_condition_signal records a satisfied entry")
        fl = finals[0][0]
        root = inv.storage_root(cx, cs, fl)
        if fl["kind"] == "ArraySubscriptExpr":
            cur_node = strip(kids(fl)[1], casts=True)
        else:
            cur_node = strip(kids(fl)[0], casts=True)
        if cur_node["kind"] != "DeclRefExpr" or root is None:
            raise AnalysisBroken("R-C06-5: the insertion position %s is not a plain cursor variable" % render(fl))
        cur = cur_node["ref"]["name"]
        cur_id = cur_node["ref"]["id"]
        is_ptr = fl["kind"] != "ArraySubscriptExpr"
        L = root

        def rel(node, depth=0):
            """offset of an element designator relative to the cursor: A[cur-1] / &A[cur-1] / *(cur-1) / prev -> -1"""
            n_ = strip(node, casts=True)
            if depth > 6:
                return None
            if n_["kind"] == "UnaryOperator" and n_.get("opcode") in ("&", "*"):
                return rel(kids(n_)[0], depth + 1)
            if n_["kind"] == "ArraySubscriptExpr":
                if is_ptr or inv.storage_root(cx, cs, kids(n_)[0]) != root:
                    return None
                return rel(kids(n_)[1], depth + 1)
            if n_["kind"] == "DeclRefExpr":
                if n_["ref"]["id"] == cur_id:
                    return 0
                d_ = cx.single_def(n_["ref"]["id"])
                return rel(d_, depth + 1) if d_ is not None else None
            if n_["kind"] == "BinaryOperator" and n_.get("opcode") in ("+", "-"):
                a_ = rel(kids(n_)[0], depth + 1)
                c_ = int_value(strip(kids(n_)[1], casts=True))
                if a_ is None or c_ is None:
                    return None
                return a_ + (c_ if n_["opcode"] == "+" else -c_)
            return None

        inner_loops = [w for w in walk(scan) if w["kind"] in ("WhileStmt", "ForStmt") and w is not scan]
        sorts = [y for y in walk(cs.body) if y["kind"] == "CallExpr" and callee_ref(y) in ("qsort",)]
        cntv = None
        if not inner_loops and not sorts:
            rep.finding(r5, cs.name, "wake:array-order", "satisfied entries are appended to %s in heap-array order and "
                        "woken in that order; the array is only partially ordered" % L, where=m.rel(loc(finals[0][2])))
            r5.fail()
        elif len(inner_loops) == 1 and not sorts:
            w = inner_loops[0]
            wk = kids(w)
            wcond = wk[0] if w["kind"] == "WhileStmt" else wk[2]
            wbody = wk[-1]
            winc = None if w["kind"] == "WhileStmt" else wk[3]
            # exit conditions: conjuncts of the loop condition plus negated `if (G) break;` guards that follow only declarations
            conj = []

            def split_and(c_):
                c0 = strip(c_)
                if c0["kind"] == "BinaryOperator" and c0.get("opcode") == "&&":
                    split_and(kids(c0)[0])
                    split_and(kids(c0)[1])
                elif c0["kind"] != "Null":
                    conj.append((c0, True))
            if wcond is not None:
                split_and(wcond)
            body_st = kids(wbody) if wbody["kind"] == "CompoundStmt" else [wbody]
            rest = []
            lead = True
            for st_ in body_st:
                if lead and st_["kind"] == "DeclStmt":
                    rest.append(st_)
                    continue
                if lead and st_["kind"] == "IfStmt" and len(kids(st_)) == 2 and any(
                        y["kind"] == "BreakStmt" for y in walk(kids(st_)[1])) and not any(
                        y["kind"] in ("BinaryOperator",) and y.get("opcode") == "=" for y in walk(kids(st_)[1])):
                    conj.append((strip(kids(st_)[0]), False))          # continue while NOT G
                    continue
                lead = False
                rest.append(st_)
            good = False
            why = "unrecognised"
            lo_floor = None
            cmp_seen = None
            for c0, positive in conj:
                neg = not positive
                c1 = c0
                while c1["kind"] == "UnaryOperator" and c1.get("opcode") == "!":
                    neg = not neg
                    c1 = strip(kids(c1)[0])
                if c1["kind"] == "CallExpr":
                    cmp_seen = (c1, neg)
                    continue
                if c1["kind"] == "BinaryOperator" and c1.get("opcode") in (">", ">=", "!=") and not neg:
                    a_, b_ = strip(kids(c1)[0], casts=True), strip(kids(c1)[1], casts=True)
                    if a_["kind"] == "DeclRefExpr" and a_["ref"]["id"] == cur_id:
                        if not is_ptr and int_value(b_) is not None:
                            lo_floor = int_value(b_) + (0 if c1["opcode"] in (">", "!=") else -1)
                        elif is_ptr and inv.storage_root(cx, cs, b_) == root:
                            # pointer cursor compared with the start of the list (possibly plus a constant)
                            bb = cx.resolve(b_)
                            off = 0
                            if bb["kind"] == "BinaryOperator" and bb.get("opcode") == "+" and int_value(strip(kids(bb)[1], casts=True)) is not None:
                                off = int_value(strip(kids(bb)[1], casts=True))
                            if bb["kind"] == "UnaryOperator" and bb.get("opcode") == "&":
                                sub = strip(kids(bb)[0], casts=True)
                                if sub["kind"] == "ArraySubscriptExpr" and int_value(strip(kids(sub)[1], casts=True)) is not None:
                                    off = int_value(strip(kids(sub)[1], casts=True))
                            lo_floor = off + (0 if c1["opcode"] in (">", "!=") else -1)
            if cmp_seen is not None and lo_floor is not None and lo_floor >= 1:
                why = ("the insertion stops at position %d: an entry recorded later can never be placed before the first %d "
                       "recorded one(s), which are in heap-array order" % (lo_floor, lo_floor))
            elif cmp_seen is not None and lo_floor == 0:
                cmpc, neg = cmp_seen
                fn = cx.canon(kids(cmpc)[0]).lstrip("*(").rstrip(")")
                own = fn in (P + "heap_compare",) or fn == (cmpf.name if cmpf else None)
                a = [cx.canon(z) for z in kids(cmpc)[1:]]
                rels = [rel(z) for z in kids(cmpc)[1:]]
                isnew = [x_ in ("&" + entry,) for x_ in a]
                isprev = [r_ == -1 for r_ in rels]
                # the shift: element(0) = element(-1), and the cursor steps down by one, once per round
                shifts = [(rel(kids(z)[0]), rel(kids(z)[1])) for z in rest if z["kind"] == "BinaryOperator" and z.get("opcode") == "="
                          and strip(kids(z)[0], casts=True)["kind"] in ("ArraySubscriptExpr", "UnaryOperator")]
                steps = []
                for z in rest + ([winc] if winc is not None and winc["kind"] != "Null" else []):
                    z0 = strip(z, casts=True)
                    if z0["kind"] == "UnaryOperator" and z0.get("opcode") in ("--", "++") and \
                            strip(kids(z0)[0], casts=True).get("ref", {}).get("id") == cur_id:
                        steps.append(-1 if z0["opcode"] == "--" else 1)
                    elif z0["kind"] == "CompoundAssignOperator" and strip(kids(z0)[0], casts=True).get("ref", {}).get("id") == cur_id:
                        v_ = int_value(strip(kids(z0)[1], casts=True))
                        steps.append(None if v_ is None else (-v_ if z0["opcode"] == "-=" else v_))
                shift = shifts == [(0, -1)] and steps == [-1]
                r5.instance("insertion into %s by %s(%s), cursor %s, shift=%s" % (L, fn, ", ".join(a), cur, shift))
                if not own:
                    why = "the list is ordered by '%s', not by the waiting list's own comparator" % fn
                elif not shift:
                    why = "the shifting loop is not the insertion-sort step (moves %s, cursor steps %s)" % (shifts, steps)
                elif isnew == [True, False] and isprev == [False, True]:
                    good = not neg
                    why = "the list is kept in the reverse of the queue order"
                elif isnew == [False, True] and isprev == [True, False]:
                    good = neg
                    why = "the list is kept in the reverse of the queue order"
            # the cursor starts behind the last recorded entry: index = count (then raised), or pointer = &list[count]
            start = None
            for x in walk(scan):
                if x["kind"] == "VarDecl" and x.get("id") == cur_id and kids(x):
                    start = kids(x)[0]
            for l, r_, k, n_ in inv.stores(cs):
                if strip(l, casts=True).get("ref", {}).get("id") == cur_id and k == "=" and r_ is not None and \
                        any(z is n_ for z in walk(scan)) and not any(z is n_ for z in walk(w)):
                    start = r_
            if start is not None:
                s0 = cx.resolve(start)
                txt = render(s0).replace(" ", "")
                mm = re.match(r"\(?(\w+)\+\+\)?$", txt)
                if mm and not is_ptr:
                    cntv = mm.group(1)
                elif not is_ptr and s0["kind"] == "DeclRefExpr":
                    cntv = s0["ref"]["name"]
                elif is_ptr:
                    if s0["kind"] == "UnaryOperator" and s0.get("opcode") == "&":
                        sub = strip(kids(s0)[0], casts=True)
                        if sub["kind"] == "ArraySubscriptExpr" and inv.storage_root(cx, cs, kids(sub)[0]) == root:
                            i_ = cx.resolve(kids(sub)[1])
                            cntv = i_["ref"]["name"] if i_["kind"] == "DeclRefExpr" else None
                    elif s0["kind"] == "BinaryOperator" and s0.get("opcode") == "+" and inv.storage_root(cx, cs, kids(s0)[0]) == root:
                        i_ = cx.resolve(kids(s0)[1])
                        cntv = i_["ref"]["name"] if i_["kind"] == "DeclRefExpr" else None
            # the counter is raised exactly once per recorded entry in the true branch
            if cntv is not None:
                raised = [n_ for l, r_, k, n_ in inv.stores(cs) if strip(l, casts=True).get("ref", {}).get("name") == cntv
                          and any(z is n_ for z in walk(scan)) and k in ("++", "+=")]
                # through the inlined helper the counter may be a copy: follow single-definition chains
                if not raised:
                    cd = [x for x in walk(cs.body) if x["kind"] == "VarDecl" and x.get("name") == cntv and kids(x)]
                    if cd:
                        src = cx.resolve(kids(cd[0])[0])
                        if src["kind"] == "DeclRefExpr":
                            cntv = src["ref"]["name"]
                            raised = [n_ for l, r_, k, n_ in inv.stores(cs) if strip(l, casts=True).get("ref", {}).get("name") == cntv
                                      and any(z is n_ for z in walk(scan)) and k in ("++", "+=")]
                if len(raised) != 1:
                    cntv = None
            if good and cntv is None:
                good, why = False, "the insertion does not start behind the last recorded entry"
            if why == "unrecognised":
                raise AnalysisBroken("R-C06-5: the ordering construct in cmb_condition_signal is not recognised (%s)" % render(wcond))
            if not good:
                rep.finding(r5, cs.name, "wake:order", "satisfied entries are woken in the order of %s, and %s" % (L, why),
                            where=m.rel(loc(w)))
                r5.fail()
            else:
                r5.ok()
            # second pass: from the first to the last recorded entry
            okasc = True
            for y in scheds:
                chain = [a_ for a_ in inv.enclosing_chain(cs, y) if a_["kind"] in ("ForStmt", "WhileStmt")]
                if len(chain) != 1:
                    okasc = False
                    continue
                iv_, g_ = inv.induction_vars(cx, cs, chain[0])
                tc = inv.trip_count(iv_, g_)
                walker = g_[0] if g_ else None
                if tc is None and g_ is not None:
                    e_, d_ = iv_[g_[0]]
                    mm = re.fullmatch(r"\(%s \+ (\w+)\)" % re.escape(e_), g_[2])
                    if d_ == 1 and g_[1] in ("!=", "<") and mm:
                        tc = mm.group(1)
                subj = cx.resolve(kids(y)[2])
                # the walker is the variable the subject is read through; the rounds may be counted by another one
                ups = [v_ for v_ in iv_ if iv_[v_][1] == 1 and
                       any(z["kind"] == "DeclRefExpr" and z["ref"]["name"] == v_ for z in walk(subj))]
                if walker is None or iv_[walker][1] != 1 or walker not in ups:
                    walker = ups[0] if ups else None
                asc = walker is not None and iv_[walker][1] == 1 and tc == cntv
                if not asc or inv.storage_root(cx, cs, subj) != root or not re.search(r"item\[0\]$", render(subj)):
                    okasc = False
                # the subject is the element the walker is at
                if asc and not any(z["kind"] == "DeclRefExpr" and z["ref"]["name"] == walker for z in walk(subj)):
                    okasc = False
            r5.instance("second pass ascending over %s[0..%s): %s" % (L, cntv, okasc))
            if not okasc:
                rep.finding(r5, cs.name, "wake:pass-order", "the wake-up pass does not run through %s from its first to its "
                            "last recorded entry" % L, where=m.rel(cs.where))
                r5.fail()
            else:
                r5.ok()
        else:
            raise AnalysisBroken("R-C06-5: the ordering construct in cmb_condition_signal is not recognised")
    # event time and priority of every wake-up
    for y in scheds:
        a = [cx.canon(z) for z in kids(y)[1:]]
        subj = cx.canon(kids(y)[2])
        okp = a[3] in ("cmb_time()", "sim_time") and (a[4] in ("cmb_process_priority(%s)" % subj, "%s->priority" % subj)
                                                      or re.match(r"-?\d+$", a[4]))
        r5.instance("wake-up event (time %s, priority %s)" % (a[3], a[4][:60]))
        if not okp:
            rep.finding(r5, cs.name, "wake:event-key", "wake-up event scheduled at '%s' with priority '%s': the event queue "
                        "then does not preserve the waiting-list order" % (a[3], a[4]), where=m.rel(loc(y)))
            r5.fail()
        else:
            r5.ok()


    # R-C06-6 ------------------------------------------------------------
    rs = rep.rule("R-C06-6", "a guard's waiting list delivers the waiter the comparator puts first: one round of the heap's sift loops keeps the heap order for every arrangement of "
                  "children and every order of the tags involved (shared with R-C02-8)", floor=6)
    from . import siftrules
    siftrules.check_sifts(rep, rs, m)


def run(tier="quick"):
    models = common.load_models(tier)
    rep = Report(PID, tier, models[0])
    rep.exhaustive = True
    rep.assumptions = ["sort keys are not NaN (times are asserted ordered against the clock)",
                       "keys are distinct within one waiting list (process addresses)",
                       "sift-up/sift-down index arithmetic of the heap is not decided here (see C02)"]
    rep.not_decided = ["termination of the sift loops (one round is decided, R-C06-6)",
                       "service order among waiters of different containers"]
    for m in models:
        rep.configs.append(m.config)
        common.run_rules(rep, m, rules)
    return rep.finish()
