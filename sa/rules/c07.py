"""C07 - Pool units are conserved; acquire, rollback, preempt and release account exactly."""
import re

from ..astutil import kids, strip, walk, callee_ref, render, loc, int_value
from ..frontend import AnalysisBroken
from ..report import Report
from ..vals import FuncCtx
from ..engines import affine as AF
from ..engines.affine import Aff, AffineDomain
from ..engines.flow import Flow, State
from ..engines import ord as ORD
from .. import inv
from . import common
from .c11 import prove_ge

PID = "C07"
UNIT = "src/cmb_resourcepool.c"

# access paths that denote "the amount recorded for key K in holders heap H" (ghost semantics of the
# container: one line per primitive, each justified by the primitive's body in cmi_hashheap.c)
REC_PATTERNS = [
    re.compile(r"^(?P<H>.+)\.heap\[cmi_hash_find_index\(&(?P=H), (?P<K>.+)\)\]\.item(\[1\]|->amount)$"),
    re.compile(r"^cmi_hashheap_item\(&(?P<H>.+), (?P<K>.+)\)(\[1\]|->amount)$"),
]
LOOT = re.compile(r"^cmi_hashheap_dequeue\(&(?P<H>.+)\)(\[1\]|->amount)$")
FIND = re.compile(r"^cmi_hash_find_index\(&(?P<H>.+), (?P<K>.+)\)$")


def rec_key(lc):
    for p in REC_PATTERNS:
        mm = p.match(lc)
        if mm:
            return "rec[%s|%s]" % (mm.group("H"), mm.group("K"))
    return None


class PoolDomain(AffineDomain):
    def inline(self, flow, callee, call):
        if callee is None or callee.key in self.may_yield:
            return False
        rel = self.m.rel(callee.file) or ""
        if callee.key == self.root.key:
            return False
        return (callee.static and not callee.in_header) or rel in ("include/cmb_resourcepool.h", UNIT)

    def _rec_read(self, s, rk):
        if s.d.get(("has", rk)) is False:
            return Aff.const(0)              # no record: the process holds nothing
        if ("v", rk) in s.d:
            return s.d[("v", rk)]
        return Aff.atom(rk + "@entry")

    def eval(self, flow, s, n):
        n0 = strip(n, casts=True)
        if n0["kind"] in ("MemberExpr", "ArraySubscriptExpr", "UnaryOperator"):
            lc = flow.canon(s, n0)
            rk = rec_key(lc)
            if rk:
                return self._rec_read(s, rk)
            if LOOT.match(lc):
                return Aff.atom(lc)
        return super().eval(flow, s, n)

    def _facts(self, s):
        return {"eq": [k[1] for k in s.d if k[0] == "eq"], "ge": [k[1] for k in s.d if k[0] == "ge"],
                "nonneg": [v for k, v in s.d.items() if k[0] == "v" and isinstance(v, Aff) and k[1] != "ghost:bal"]}

    def _bal(self, s, delta):
        s.d[("v", "ghost:bal")] = (s.d.get(("v", "ghost:bal")) or Aff.const(0)) + delta
        s._k = None

    def store(self, flow, s, lc, lhs, value, rhs, op, node):
        rk = rec_key(lc)
        if rk:
            s._k = None
            old = self._rec_read(s, rk)
            val = self.eval(flow, s, rhs) if rhs is not None else Aff.const(1)
            new = val if op == "=" else (old + val if op in ("+=", "++") else old - val)
            s.d[("v", rk)] = new
            s.d[("has", rk)] = True
            self._bal(s, (new - old).scale(-1))
            self.log["recs"].append((self.root.name, rk, op, repr(new), self.m.rel(loc(node))))
            return [s]
        return super().store(flow, s, lc, lhs, value, rhs, op, node)

    def _hook(self, flow, s, call, name, args):
        where = self.m.rel(loc(call))
        if name == "cmi_hashheap_enqueue" and args and args[0].startswith("&"):
            H = args[0][1:]
            rk = "rec[%s|%s]" % (H, args[5])
            amt = self.eval(flow, s, kids(call)[3])
            s = s.copy()
            old = self._rec_read(s, rk)
            if s.d.get(("has", rk)) is True:
                self.log["notes"].append("enqueue of an existing key %s at %s" % (rk, where))
            s.d[("v", rk)] = amt
            s.d[("has", rk)] = True
            self._bal(s, (amt - old).scale(-1))
            self.log["recs"].append((self.root.name, rk, "enqueue", repr(amt), where))
            self.log["enqueues"].append((self.root.name, args, where))
            return [s]
        if name in ("cmi_hashheap_cancel", "cmi_hashheap_remove") and args and args[0].startswith("&"):
            H = args[0][1:]
            rk = "rec[%s|%s]" % (H, args[1])
            s = s.copy()
            old = self._rec_read(s, rk)
            s.d[("v", rk)] = Aff.const(0)
            s.d[("has", rk)] = False
            self._bal(s, old)
            self.log["recs"].append((self.root.name, rk, "cancel", "0", where))
            return [s]
        if name == "cmi_hashheap_dequeue" and args and args[0].startswith("&"):
            s = s.copy()
            loot = Aff.atom("cmi_hashheap_dequeue(%s)->amount" % args[0])
            self._bal(s, loot)
            s.d[("ge", loot - Aff.const(1), None)] = True       # a record holds at least one unit (R-C07-5)
            self.log["recs"].append((self.root.name, "rec[victim]", "dequeue", "0", where))
            return [s]
        return None

    def call(self, flow, s, call, name, args):
        key = self.m.resolve(flow.cur_unit(), name) if name else None
        if name and key in self.may_yield:
            self.log["region_ends"].append({"root": self.root.name, "why": "yield:" + name,
                                            "where": self.m.rel(loc(call)), "facts": self._facts(s),
                                            "bal": s.d.get(("v", "ghost:bal")) or Aff.const(0)})
            out = super().call(flow, s, call, name, args)
            for s2 in out:
                s2.d[("v", "ghost:bal")] = Aff.const(0)
                s2._k = None
            return out
        return super().call(flow, s, call, name, args)

    def assume(self, flow, s, cond, truth):
        c = strip(cond, casts=True)
        cc_ = flow.canon(s, c)
        # the item of a record that was located through the hash (index != 0) is the pool_item stored at enqueue: never NULL
        mm_ = re.fullmatch(r"\(.*heap\[cmi_hash_find_index\(.*\)\]\.item (!=|==) (NULL|0)\)", cc_ or "")
        if mm_:
            return [s] if ((mm_.group(1) == "!=") == bool(truth)) else []
        if re.fullmatch(r"\(NULL (!=|==) NULL\)", cc_ or ""):
            return [s] if (("==" in cc_) == bool(truth)) else []
        if "peek_ikey" in cc_ or ".heap[1].isortkey" in cc_:
            self.log["victim_conds"].add((cc_, self.m.rel(loc(cond))))
        if c["kind"] == "BinaryOperator" and c.get("opcode") in ("==", "!="):
            a, b = kids(c)
            ca, cb = flow.canon(s, a), flow.canon(s, b)
            for x, y in ((ca, cb), (cb, ca)):
                mm = FIND.match(x)
                if mm and y == "0":
                    rk = "rec[%s|%s]" % (mm.group("H"), mm.group("K"))
                    present = (c["opcode"] == "!=") == truth
                    have = s.d.get(("has", rk))
                    if have is not None and have != present:
                        return []
                    s = s.copy()
                    s.d[("has", rk)] = present
                    if ("had", rk) not in s.d:
                        s.d[("had", rk)] = present
                        if not present and s.d.get(("v", rk)) == Aff.atom(rk + "@entry"):
                            s.d[("v", rk)] = Aff.const(0)        # no record: the process holds nothing
                    s._k = None
                    return [s]
        return super().assume(flow, s, cond, truth)

    def keep_at_head(self, flow, s):
        pinned = []
        for k, v in s.d.items():
            if k[0] == "has" and v is False:
                s.d[("v", k[1])] = Aff.const(0)      # no record: holds nothing, whatever the loop did
                pinned.append(k[1])
        return pinned

    def at_return(self, flow, s, node, value):
        self.log["region_ends"].append({"root": self.root.name, "why": "return",
                                        "where": self.m.rel(loc(node)) if node else self.m.rel(self.root.where),
                                        "facts": self._facts(s),
                                        "bal": s.d.get(("v", "ghost:bal")) or Aff.const(0)})
        super().at_return(flow, s, node, value)


def zero_mod(d, facts):
    """d == 0 syntactically, by an equality fact, or by d >= 0 and -d >= 0 from the facts."""
    if d.is_zero():
        return True
    for e in facts.get("eq", []):
        if (d - e).is_zero() or (d + e).is_zero():
            return True
    bg = list(facts.get("nonneg", [])) + [Aff.atom(a) for a in d.atoms()]
    return prove_ge(d, facts.get("ge", []), bg) and prove_ge(d.scale(-1), facts.get("ge", []), bg)


def analyse(m, f, extra_init=None):
    spec = {
        "tracked": r"->in_use$|^rec\[",
        "volatile": r"->in_use$",
        "ghosts": {"bal": (r"->in_use$", +1)},
        "init": {"ghost:bal": Aff.const(0)},
        "call_hook": lambda d, fl, s, call, name, args: d._hook(fl, s, call, name, args),
    }
    if extra_init:
        spec["init"].update(extra_init)
    return AF.analyse(m, f, spec, domain_cls=PoolDomain,
                      extra_log={"recs": [], "region_ends": [], "notes": [], "enqueues": [], "victim_conds": set()})


def rules(rep, m):
    SIG = common.signal_table(m)
    pf = {f.name: f for f in m.funcs.values() if m.rel(f.file) == UNIT}
    for need in ("cmi_pool_acquire_inner", "cmb_resourcepool_release", "resourcepool_drop_holder", "update_record",
                 "reprioritize_holder", "cmb_resourcepool_initialize"):
        if need not in pf:
            raise AnalysisBroken("anchor %s missing" % need)
    r1 = rep.rule("R-C07-1", "conservation: in every atomic region of every function that touches the pool's accounting, "
                  "the change of in_use equals the sum of the changes of the per-process holdings (ghost balance is zero "
                  "at every region end)", floor=6)
    r2 = rep.rule("R-C07-2", "bounds: every store to in_use is dominated in its region by facts that keep it within "
                  "[0, capacity] (using in_use = sum of holdings >= any one holding)", floor=5)
    r3 = rep.rule("R-C07-3", "exact outcome: a successful acquire/preempt leaves the caller's recorded holding exactly "
                  "req_amount above what it was at entry; an interrupted one leaves it exactly as at entry; release "
                  "lowers it by exactly rel_amount (loop invariants inferred)", floor=4)
    writers = sorted({f.name for f, l, r, k, n in inv.field_writers(m, "cmb_resourcepool", "in_use")})
    roots = [n for n in writers if not n.endswith("_initialize")]
    rep.sample({"rule": "R-C07-1", "in_use_writers": writers})
    for rn in roots:
        if rn not in ("cmi_pool_acquire_inner", "cmb_resourcepool_release", "resourcepool_drop_holder"):
            rep.finding(r1, rn, "in_use:writer", "%s writes in_use outside acquire / release / drop" % rn,
                        where=m.rel(m.need(rn).where))
            r1.fail()
    logs = {}
    for rn in ("cmi_pool_acquire_inner", "cmb_resourcepool_release", "resourcepool_drop_holder"):
        f = pf[rn]
        pool_ = f.params[0]["name"]
        who = "cmb_process_current()" if rn != "resourcepool_drop_holder" else f.params[1]["name"]
        rk0 = "rec[%s->holders|%s]" % (pool_, who)
        log = analyse(m, f, {rk0: Aff.atom(rk0 + "@entry")})
        logs[rn] = log
        names = {x["id"]: x["name"] for x in walk(f.body) if x["kind"] == "VarDecl"}
        names.update({p["id"]: p["name"] for p in f.params})
        rep.sample({"rule": "R-C07-3", "function": rn,
                    "inferred_loop_invariants": AF.show_invariants(log["invariants"], names)[:8]})
        # conservation
        seen = set()
        for re_ in log["region_ends"]:
            k = (re_["where"], re_["why"], repr(re_["bal"]))
            if k in seen:
                continue
            seen.add(k)
            r1.instance("%s: region end (%s) at %s: balance %r" % (rn, re_["why"], re_["where"], re_["bal"]))
            if zero_mod(re_["bal"], re_["facts"]):
                r1.ok()
            elif " ? " in repr(re_["bal"]) or "ghost:bal#" in repr(re_["bal"]):
                # the residue is not a statement about the code but about what the engine could express: a holding looked
                # up through a conditional expression, or a loop whose balance invariant was not inferred - undecided
                if not hasattr(rep, "deferred_broken"):
                    rep.deferred_broken = []
                msg_ = "%s: the balance at the region end (%s) at %s is not expressible (%s)" % (rn, re_["why"], re_["where"], repr(re_["bal"])[:80])
                if msg_ not in rep.deferred_broken:
                    rep.deferred_broken.append(msg_)
                r1.fail()
            else:
                rep.finding(r1, rn, "imbalance:%s" % re_["why"].split(":")[0],
                            "atomic region ends (%s) with in_use changed by %r more than the holdings: units are "
                            "created or lost" % (re_["why"], re_["bal"]), where=re_["where"])
                r1.fail()
        # bounds
        bseen = set()
        for st in log["stores"]:
            if not st["loc"].endswith("->in_use"):
                continue
            k = (st["where"], repr(st["new"]))
            if k in bseen:
                continue
            bseen.add(k)
            pool = st["loc"][:-len("->in_use")]
            cap = Aff.atom(pool + "->capacity")
            bg = []
            atoms = st["old"].atoms() | st["new"].atoms()
            inuse_atoms = [a for a in atoms if "->in_use@" in a]
            holding_atoms = [a for a in atoms if a.startswith("rec[") or a.startswith("cmi_hashheap_dequeue(")]
            for a in atoms:
                bg.append(Aff.atom(a))
            for ia in inuse_atoms:
                bg.append(cap - Aff.atom(ia))
            # in_use is the sum of all holdings, so it is at least any one holding and at least the sum of the
            # distinct holdings that appear here (the victim's loot, the caller's record)
            tot = st["old"]
            for ha in holding_atoms:
                bg.append(st["old"] - Aff.atom(ha))
                tot = tot - Aff.atom(ha)
            bg.append(tot)
            bg.append(cap - st["old"])
            # with the region's running imbalance b = d(in_use) - d(sum of holdings):  in_use - b = sum of the
            # holdings as they are recorded now, which is >= 0 and >= any one of them
            bal_now = (st.get("vals", {}).get("ghost:bal") or Aff.const(0)) - (st["new"] - st["old"])
            bg.append(st["old"] - bal_now)
            for k_, v_ in st.get("vals", {}).items():
                if str(k_).startswith("rec["):
                    bg.append(st["old"] - bal_now - v_)
            facts = [fk for fk in st["facts"]]
            bg += list(st.get("nonneg", []))
            lo = prove_ge(st["new"], facts, bg)
            hi = prove_ge(cap - st["new"], facts, bg)
            r2.instance("%s: in_use %s -> %r at %s" % (rn, st["op"], st["new"], st["where"]))
            if lo and hi:
                r2.ok()
            elif " ? " in repr(st["new"]) or "ghost:bal#" in repr(st["new"]):
                if not hasattr(rep, "deferred_broken"):
                    rep.deferred_broken = []
                msg_ = "%s: the value stored to in_use at %s is not expressible (%s)" % (rn, st["where"], repr(st["new"])[:80])
                if msg_ not in rep.deferred_broken:
                    rep.deferred_broken.append(msg_)
                r2.fail()
            else:
                rep.finding(r2, rn, "bounds:%s" % ("low" if not lo else "high"),
                            "store in_use %s (new value %r) is not dominated by facts keeping it within [0, capacity] "
                            "(known: %s)" % (st["op"], st["new"], [repr(x) for x in facts][:4]), where=st["where"])
                r2.fail()
    # exact outcome of acquire_inner
    acq = pf["cmi_pool_acquire_inner"]
    log = logs["cmi_pool_acquire_inner"]
    pool = acq.params[0]["name"]
    req = Aff.atom(acq.params[1]["name"])
    rk = "rec[%s->holders|cmb_process_current()]" % pool
    rec0 = Aff.atom(rk + "@entry")
    nret = 0
    for rt in log["returns"]:
        s = rt["state"]
        cur = s.d.get(("v", rk))
        had = s.d.get(("had", rk))
        base = rec0 if had is not False else Aff.const(0)
        if s.d.get(("has", rk)) is False:
            cur = Aff.const(0)
        if cur is None:
            cur = base
        val = rt["value"]
        eqs = [k[1] for k in s.d if k[0] == "eq"]
        if val == "0":
            kind = "success"
            want = base + req
        else:
            # which signal?  preempted paths leave nothing to check here (the preemptor removed the record)
            pre = any((e - (Aff.atom(val) + Aff.const(-SIG["CMB_PROCESS_PREEMPTED"]))).is_zero() or
                      (e + (Aff.atom(val) + Aff.const(-SIG["CMB_PROCESS_PREEMPTED"]))).is_zero() for e in eqs)
            if pre:
                r3.instance("acquire: return (preempted) at %s: record was removed by the preemptor" % rt["where"])
                r3.ok()
                continue
            kind = "interrupted"
            want = base
        nret += 1
        r3.instance("acquire: %s return at %s: holding %r, expected %r" % (kind, rt["where"], cur, want))
        fx = {"eq": eqs, "ge": [k[1] for k in s.d if k[0] == "ge"],
              "nonneg": [v for k, v in s.d.items() if k[0] == "v" and isinstance(v, Aff) and k[1] != "ghost:bal"]}
        if zero_mod(cur - want, fx):
            r3.ok()
        elif " ? " in repr(cur) or "ghost:bal#" in repr(cur):
            if not hasattr(rep, "deferred_broken"):
                rep.deferred_broken = []
            msg_ = "%s: the holding at the %s return at %s is not expressible (%s)" % (acq.name, kind, rt["where"], repr(cur)[:80])
            if msg_ not in rep.deferred_broken:
                rep.deferred_broken.append(msg_)
            r3.fail()
        else:
            rep.finding(r3, acq.name, "outcome:" + kind, "%s return leaves the caller holding %r; expected %r (holding at "
                        "entry %r, requested %r)" % (kind, cur, want, base, req), where=rt["where"])
            r3.fail()
    if nret < 3:
        raise AnalysisBroken("cmi_pool_acquire_inner: fewer than 3 non-preempted return paths analysed")
    # release
    rel = pf["cmb_resourcepool_release"]
    log = logs["cmb_resourcepool_release"]
    pool = rel.params[0]["name"]
    amt = Aff.atom(rel.params[1]["name"])
    rk = "rec[%s->holders|cmb_process_current()]" % pool
    for rt in log["returns"]:
        s = rt["state"]
        cur = s.d.get(("v", rk))
        eqs = [k[1] for k in s.d if k[0] == "eq"]
        want = Aff.atom(rk + "@entry") - amt
        d = (cur - want) if cur is not None else None
        ok = d is not None and (d.is_zero() or any((d - e).is_zero() or (d + e).is_zero() for e in eqs))
        r3.instance("release: holding %r, expected %r" % (cur, want))
        if ok:
            r3.ok()
        else:
            rep.finding(r3, rel.name, "outcome:release", "release leaves the caller holding %r; expected %r"
                        % (cur, want), where=rt["where"])
            r3.fail()

    # R-C07-4 ------------------------------------------------------------
    r4 = rep.rule("R-C07-4", "preemption takes units only from holders of strictly lower priority: the victim test is a "
                  "strict '<' between the head of the holders heap (ordered lowest priority first) and the caller's "
                  "priority; every victim loses its holdable tag and is sent the preempted signal in the same region; "
                  "holders are keyed and re-keyed by priority", floor=4)
    cmpf = common.installed_comparator(m, "cmb_resourcepool_initialize")
    res = ORD.check(cmpf, spec=None, total_on="key")
    r4.instance("holders comparator %s: %d cases" % (cmpf.name, res["obligations"]))
    r4.obligations += res["obligations"]
    r4.discharged += res["obligations"] - len(res["failures"])
    if res["failures"]:
        rep.finding(r4, cmpf.name, "order", "holders comparator is not a strict total order: %s" % (res["failures"][0],),
                    where=m.rel(cmpf.where))
    # lowest priority first
    c = ORD.Comparator(cmpf)
    lowfirst = c.eval({f: ("<" if f == "isortkey" else "=") for f in res["fields"]}) and \
        not c.eval({f: (">" if f == "isortkey" else "=") for f in res["fields"]})
    if not lowfirst:
        rep.finding(r4, cmpf.name, "order:direction", "the holders heap does not put the lowest priority first: the head "
                    "is not the most preemptable holder", where=m.rel(cmpf.where))
        r4.fail()
    else:
        r4.ok()
    acx = FuncCtx(m, acq)
    vloops = [x for x in walk(acq.body) if x["kind"] == "WhileStmt" and "peek_ikey" in render(kids(x)[0])]
    if len(vloops) != 1:
        raise AnalysisBroken("cmi_pool_acquire_inner: victim loop not found")
    vc = acx.canon(kids(vloops[0])[0])
    r4.instance("victim loop condition: %s" % vc)
    rep.sample({"rule": "R-C07-4", "victim_condition": vc})
    H = "&%s->holders" % acq.params[0]["name"]
    strict = re.search(r"\(%s\.heap\[1\]\.isortkey < cmb_process_current\(\)->priority\)" % re.escape(H[1:]), vc) or \
        re.search(r"\(cmi_hashheap_peek_ikey\(%s\) < cmb_process_current\(\)->priority\)" % re.escape(H), vc)
    # flow-sensitive: on every path the priority compared is the caller's *current* priority, read in the same
    # atomic region (a copy taken before a suspension is outdated: the priority may have been changed meanwhile)
    for cc_, wh in sorted(logs["cmi_pool_acquire_inner"].get("victim_conds", ())):
        r4.instance("victim test as evaluated on a path: %s" % cc_)
        fresh = re.fullmatch(r"\((cmi_hashheap_peek_ikey\(%s\)|%s\.heap\[1\]\.isortkey) < cmb_process_current\(\)->priority\)"
                             % (re.escape(H), re.escape(H[1:])), cc_)
        if not fresh:
            strict = None
            rep.finding(r4, acq.name, "victim:stale-or-weak-test", "on some path victims are selected by '%s': the caller's "
                        "priority must be its current one (read after the last suspension) and the comparison strict" % cc_,
                        where=wh)
            r4.fail()
        else:
            r4.ok()
    if strict is None:
        pass
    elif not strict:
        rep.finding(r4, acq.name, "victim:test", "victims are selected by '%s', not by 'head priority < caller priority' "
                    "(strictly lower)" % vc, where=m.rel(loc(vloops[0])))
        r4.fail()
    else:
        r4.ok()
    if not re.search(r"is_empty\(%s\)" % re.escape(H), vc) and "heap_count" not in vc:
        rep.finding(r4, acq.name, "victim:empty", "the victim loop peeks the head without testing for an empty heap",
                    where=m.rel(loc(vloops[0])))
        r4.fail()
    else:
        r4.ok()
    # only entered when preemption was requested
    chain = inv.enclosing_chain(acq, vloops[0])
    gated = any(a["kind"] == "IfStmt" and acx.canon(kids(a)[0]) == acq.params[2]["name"] for a in chain)
    if not gated:
        rep.finding(r4, acq.name, "victim:gate", "the victim loop is not guarded by the preempt flag: plain acquire "
                    "would take units from others", where=m.rel(loc(vloops[0])))
        r4.fail()
    else:
        r4.ok()
    body = kids(vloops[0])[1]
    deq = [x for x in walk(body) if x["kind"] == "CallExpr" and callee_ref(x) == "cmi_hashheap_dequeue"]
    untag = [x for x in walk(body) if x["kind"] == "CallExpr" and callee_ref(x) == "cmi_process_remove_holdable"]
    intr = [x for x in walk(body) if x["kind"] == "CallExpr" and callee_ref(x) == "cmb_process_interrupt"]
    okv = len(deq) == 1 and len(untag) == 1 and len(intr) == 1
    if okv:
        vic = acx.canon(kids(untag[0])[1])
        a = [acx.canon(z) for z in kids(intr[0])[1:]]
        okv = vic.startswith("cmi_hashheap_dequeue(%s)" % H) and a[0] == vic and \
            common.sigval(a[1]) == SIG["CMB_PROCESS_PREEMPTED"] and acx.canon(kids(untag[0])[2]) == acq.params[0]["name"]
        # none of them conditional inside the loop body
        for x in (deq[0], untag[0], intr[0]):
            ch2 = inv.enclosing_chain(acq, x)
            inner = ch2[ch2.index(vloops[0]) + 1:] if vloops[0] in ch2 else ch2
            if any(y["kind"] in ("IfStmt", "WhileStmt", "ForStmt") for y in inner):
                okv = False
    r4.instance("each victim is dequeued, untagged and sent PREEMPTED: %s" % okv)
    if not okv:
        rep.finding(r4, acq.name, "victim:notify", "a dequeued victim is not (unconditionally) removed from the victim's "
                    "holdings and notified with the preempted signal in the same region", where=m.rel(loc(vloops[0])))
        r4.fail()
    else:
        r4.ok()
    # the victim's pending wake-ups are withdrawn before it is notified: otherwise a wake-up of its own that is due in the
    # same instant (same time, same priority, scheduled earlier) resumes it with success before the preempted signal
    if len(untag) == 1 and len(intr) == 1:
        vic = acx.canon(kids(untag[0])[1])
        wd = [c_ for c_ in common.synchronous_withdrawals(m, acq, acx, vic) if any(y is c_ for y in walk(body))]
        okw_ = False
        for c_ in wd:
            ch2 = inv.enclosing_chain(acq, c_)
            inner = ch2[ch2.index(vloops[0]) + 1:] if vloops[0] in ch2 else ch2
            if not any(y["kind"] in ("IfStmt", "WhileStmt", "ForStmt") for y in inner):
                okw_ = True
        r4.instance("each victim's pending wake-ups are withdrawn in the region that takes its units: %s" % okw_)
        if not okw_:
            rep.finding(r4, acq.name, "victim:wakeups-left", "the victim is sent the preempted signal by a scheduled interrupt, but "
                        "its own pending wake-ups are not withdrawn in the same region: a hold of the victim that ends in this "
                        "very instant resumes it with success first, and it carries on (and releases) as the holder of units "
                        "it no longer has - it is not notified with the preempted signal at that instant",
                        where=m.rel(loc(intr[0])))
            r4.fail()
        else:
            r4.ok()
    # ... and that withdrawal is complete: the unwinding routine cancels every pending event addressed to the victim on
    # every path - also a plain resume that has no awaitable tag (shared with R-C09-3 / R-C05-4)
    from . import c09 as _c09
    okf_, txt_ = _c09.final_cancel_ok(m)
    r4.instance("the unwinding routine ends with a wildcard cancel of the process's events on every path: %s %s" % (okf_, txt_))
    if not okf_:
        rep.finding(r4, "cmi_process_cancel_awaiteds", "victim:withdrawal-incomplete", "the routine that withdraws a preemption "
                    "victim's pending wake-ups does not cancel every event addressed to it on every path (%s): a wake-up "
                    "without an awaitable tag - a resume scheduled for this instant - still runs first, and the victim goes on "
                    "with success while it holds nothing" % txt_, where=m.rel(m.need("cmi_process_cancel_awaiteds").where))
        r4.fail()
    else:
        r4.ok()
    # keyed by priority at creation and on priority change
    ur = pf["update_record"]
    ucx = FuncCtx(m, ur)
    enq = [x for x in walk(ur.body) if x["kind"] == "CallExpr" and callee_ref(x) == "cmi_hashheap_enqueue"]
    okk = len(enq) == 1
    if okk:
        a = [ucx.canon(z) for z in kids(enq[0])[1:]]
        pp = ur.params[1]["name"]
        okk = a[1] == pp and a[2] == ur.params[2]["name"] and a[5] == pp and a[7] == pp + "->priority"
        r4.instance("update_record enqueues (%s)" % ", ".join(a))
    if not okk:
        rep.finding(r4, ur.name, "record:key", "a new holder record is not keyed by the process with its priority and "
                    "the amount", where=m.rel(ur.where))
        r4.fail()
    else:
        r4.ok()
    rh = pf["reprioritize_holder"]
    rcx = FuncCtx(m, rh)
    rc = [x for x in walk(rh.body) if x["kind"] == "CallExpr" and callee_ref(x) == "cmi_hashheap_reprioritize"]
    okr = len(rc) == 1
    if okr:
        a = [rcx.canon(z) for z in kids(rc[0])[1:]]
        okr = a[0].endswith("->holders") and a[1] == rh.params[1]["name"] and a[3] == rh.params[2]["name"]
        r4.instance("reprioritize_holder -> (%s)" % ", ".join(a))
    if not okr:
        rep.finding(r4, rh.name, "record:rekey", "a priority change does not re-key the holder's record", where=m.rel(rh.where))
        r4.fail()
    else:
        r4.ok()
    # the priority change reaches the record in every pool the process holds units of: the walk over its holdings calls
    # the re-key callback of every holding that has one, and leaves only at the end of the list
    ps = m.need("cmb_process_priority_set")
    pcx = FuncCtx(m, ps)
    cbs = [x for x in walk(ps.body) if x["kind"] == "CallExpr" and callee_ref(x) is None and
           pcx.canon(kids(x)[0]).replace("*", "").replace("(", "").replace(")", "").endswith("->reprio")]
    r4.instance("cmb_process_priority_set: %d call(s) of the holdings' re-key callback" % len(cbs))
    okw = len(cbs) >= 1
    why = "no call of the re-key callback of the holdings"
    for c_ in cbs:
        chain = inv.enclosing_chain(ps, c_)
        loops = [a_ for a_ in chain if a_["kind"] in ("ForStmt", "WhileStmt", "DoStmt")]
        if not loops:
            okw, why = False, "the re-key callback is not called in a walk over the holdings"
            break
        lp = loops[-1]
        extra = [cd for cd in inv.dominating_conditions(pcx, ps, c_)
                 if not re.fullmatch(r"\(.*->reprio != NULL\)|!\(.*->reprio == NULL\)|\(.*->reprio != 0\)", cd)
                 and any(cd in (pcx.canon(kids(a_)[0]), "!" + pcx.canon(kids(a_)[0])) or True for a_ in chain if a_["kind"] == "IfStmt" and any(y is a_ for y in walk(lp)))
                 and cd not in inv.dominating_conditions(pcx, ps, lp)]
        # conditions that come from the loop's own guard are not extra
        if lp["kind"] in ("ForStmt", "WhileStmt"):
            extra = [cd for cd in extra if cd != pcx.canon(kids(lp)[2] if lp["kind"] == "ForStmt" else kids(lp)[0])]
        exits = []

        def find_exits(n_, inner_loop=False):
            for ch_ in kids(n_):
                if ch_["kind"] in ("ReturnStmt", "GotoStmt") or (ch_["kind"] == "BreakStmt" and not inner_loop):
                    exits.append(ch_)
                elif ch_["kind"] in ("ForStmt", "WhileStmt", "DoStmt", "SwitchStmt"):
                    find_exits(ch_, True)
                else:
                    find_exits(ch_, inner_loop)
        find_exits(kids(lp)[-1] if lp["kind"] != "DoStmt" else kids(lp)[0])
        if extra:
            okw, why = False, "the re-key callback is called only under %s" % extra
        if exits:
            okw, why = False, "the walk over the holdings is left early (%s at line %s): holdings further down the list keep the " \
                "old priority in their pool's record, so a later preemption picks its victims by stale priorities" % (
                    exits[0]["kind"].replace("Stmt", "").lower(), exits[0].get("line") or (loc(exits[0]) or "?").split(":")[-1])
    if not okw:
        rep.finding(r4, ps.name, "rekey:walk-incomplete", "cmb_process_priority_set: %s" % why, where=m.rel(ps.where))
        r4.fail()
    else:
        r4.ok()
    init = pf["cmb_resourcepool_initialize"]
    icx = FuncCtx(m, init)
    regs = {icx.canon(l).split(".")[-1]: render(r) for l, r, k, n in inv.stores(init) if ".drop" in icx.canon(l) or ".reprio" in icx.canon(l)}
    if regs.get("reprio") != "reprioritize_holder" or regs.get("drop") != "resourcepool_drop_holder":
        rep.finding(r4, init.name, "callbacks", "pool registers %s" % regs, where=m.rel(init.where))
        r4.fail()
    else:
        r4.ok()

    # R-C07-5 ------------------------------------------------------------
    r5 = rep.rule("R-C07-5", "a holder record is created together with the process-side holdable tag and deleted together "
                  "with it; the drop callback removes the record of exactly the ending process", floor=3)
    pushes = [x for x in walk(ur.body) if x["kind"] == "CallExpr" and callee_ref(x) == "cmi_slist_push"]
    same_branch = False
    for x in walk(ur.body):
        if x["kind"] == "IfStmt":
            for br in kids(x)[1:]:
                inside = list(walk(br))
                if enq and any(y is enq[0] for y in inside) and any(y is p for p in pushes for y in inside):
                    same_branch = True
    r5.instance("record creation pushes the holdable tag in the same branch: %s" % same_branch)
    if not same_branch:
        rep.finding(r5, ur.name, "create:tag", "a new holder record is created without pushing the pool on the process's "
                    "list of holdings", where=m.rel(ur.where))
        r5.fail()
    else:
        r5.ok()
    for fn in ("cmb_resourcepool_release", "cmi_pool_acquire_inner"):
        f = pf[fn]
        cx = FuncCtx(m, f)
        for x in walk(f.body):
            if x["kind"] == "CallExpr" and callee_ref(x) == "cmi_hashheap_cancel":
                # a remove_holdable on the same process must follow in the same block or a block guarded by its result
                par = inv.enclosing_chain(f, x)
                blk = [a for a in par if a["kind"] == "CompoundStmt"][-1]
                okp = any(y["kind"] == "CallExpr" and callee_ref(y) == "cmi_process_remove_holdable" for y in walk(blk))
                r5.instance("%s: record deletion paired with tag removal: %s" % (fn, okp))
                if not okp:
                    rep.finding(r5, fn, "delete:tag", "a holder record is deleted without removing the pool from the "
                                "process's list of holdings", where=m.rel(loc(x)))
                    r5.fail()
                else:
                    r5.ok()
    dh = pf["resourcepool_drop_holder"]
    dcx = FuncCtx(m, dh)
    canc = [x for x in walk(dh.body) if x["kind"] == "CallExpr" and callee_ref(x) in ("cmi_hashheap_cancel", "cmi_hashheap_remove")]
    okd = len(canc) == 1 and dcx.canon(kids(canc[0])[2]) == dh.params[1]["name"]
    r5.instance("drop callback deletes the record of the ending process: %s" % okd)
    if not okd:
        rep.finding(r5, dh.name, "drop:record", "the drop callback does not delete the ending process's record",
                    where=m.rel(dh.where))
        r5.fail()
    else:
        r5.ok()
    # held_by_process query reads the record (0 when absent)
    hb = m.need("cmb_resourcepool_held_by_process")
    hcx = FuncCtx(m, hb)
    rv = sorted(hcx.canon(kids(x)[0]) for x in walk(hb.body) if x["kind"] == "ReturnStmt")
    r5.instance("held_by_process returns %s" % rv)
    if len(rv) == 1:
        # one conditional expression instead of two returns: (found) ? record->amount : 0
        rn_ = [kids(x)[0] for x in walk(hb.body) if x["kind"] == "ReturnStmt" and kids(x)]
        t_ = common.as_ternary(hcx, hb, rn_[0]) if rn_ else ""
        mm_ = re.fullmatch(r"\((.+) \? (.+) : (.+)\)", t_)
        if mm_ and mm_.group(3).strip() in ("0", "0.0") and "amount" in mm_.group(2):
            recd = mm_.group(2)
            if not rec_key(recd):
                # the record pointer is a local given NULL (not found) or the located item: read through the located item
                mv = re.fullmatch(r"(\w+)->amount", recd)
                if mv:
                    vals_ = [hcx.canon(r_) for l_, r_, k_, n_ in inv.stores(hb)
                             if r_ is not None and k_ == "=" and render(strip(l_, casts=True)) == mv.group(1)]
                    vals_ += [hcx.canon(kids(d_)[0]) for d_ in walk(hb.body) if d_["kind"] == "VarDecl" and d_.get("name") == mv.group(1) and kids(d_)]
                    live_ = [v_ for v_ in vals_ if v_ not in ("NULL", "0")]
                    if len(live_) == 1:
                        recd = live_[0] + "->amount" if not live_[0].startswith("&") else live_[0][1:] + ".amount"
            rv = ["0", recd if rec_key(recd) else rv[0]]
            if not rec_key(rv[1]):
                raise AnalysisBroken("cmb_resourcepool_held_by_process: the record read (%s) is not understood" % mm_.group(2))
    if len(rv) != 2 or rv[0] != "0" or not rec_key(rv[1]):
        rep.finding(r5, hb.name, "query", "held-by query returns %s" % rv, where=m.rel(hb.where))
        r5.fail()
    else:
        r5.ok()


    # R-C07-6 ------------------------------------------------------------
    r6s = rep.rule("R-C07-6", "the sum over the holders' amounts visits every holder: the scan in sum_holder_items covers exactly "
                   "the slots 1 .. heap_count (shared with R-C02-9)", floor=1)
    from . import siftrules
    siftrules.check_scans(rep, r6s, m, only={"sum_holder_items"})

    # R-C07-7 ------------------------------------------------------------
    r7 = rep.rule("R-C07-7", "the unit accounting is the same in every documented build configuration: no state-changing call "
                  "(removing a holder record, dropping a holding tag, ...) sits inside the condition of an assertion or among "
                  "the arguments of a logging call, which NDEBUG / NASSERT / NLOGINFO compile out", floor=1)
    common.config_effects_rule(rep, r7, m, consequence=" - with the flag set, records and tags that should have been removed stay, "
                               "and the units in use no longer equal the sum of the holdings")



def run(tier="quick"):
    models = common.load_models(tier)
    rep = Report(PID, tier, models[0])
    rep.assumptions = ["ghost semantics of the container primitives (enqueue sets, cancel/remove zeroes, dequeue removes "
                       "the head's record, find_index == 0 means no record) as justified by cmi_hashheap.c and R-C02-*",
                       "a caller's record is changed by others only through preemption, which is delivered as the "
                       "PREEMPTED signal", "inductive hypothesis at region start: in_use = sum of holdings <= capacity",
                       "machine integers as mathematical integers; wrap excluded by the dominance obligations"]
    rep.not_decided = ["effects of a foreign change to the caller's record across a yield other than via PREEMPTED"]
    for m in models:
        rep.configs.append(m.config)
        common.run_rules(rep, m, rules)
    return rep.finish()
