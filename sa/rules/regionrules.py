"""Glue between the REGION engine's shared results and per-property reports."""
from ..engines import region


def file_findings(rep, rule, res, rid):
    n = 0
    for fd in res["findings"]:
        if fd.rule == rid:
            rep.finding(rule, fd.func, fd.construct, fd.msg, where=fd.where, path=fd.path)
            n += 1
    return n


def roots_summary(res):
    return "%d roots over %s" % (len(res["roots"]), ", ".join("%s:%d" % kv for kv in res["classes"].items()))
