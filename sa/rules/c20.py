"""C20 - Pool-allocated objects are distinct, aligned and stable at any population size."""
import re

from ..astutil import kids, strip, walk, callee_ref, render, loc, int_value, is_null_expr
from ..frontend import AnalysisBroken
from ..report import Report
from ..vals import FuncCtx, assert_condition
from .. import inv
from . import common

PID = "C20"


def realloc_discipline(rep, rule, m, scope_files=None):
    """Every realloc's result is stored back into the lvalue that was passed in, and its size is a byte count."""
    n = 0
    for f in m.funcs.values():
        rel = m.rel(f.file) or ""
        if not rel.startswith(("src/", "include/")):
            continue
        if scope_files and rel not in scope_files:
            continue
        cx = None
        for c in walk(f.body):
            if c["kind"] != "CallExpr" or callee_ref(c) not in ("cmi_realloc", "realloc", "cmi_aligned_realloc"):
                continue
            if f.name in ("cmi_realloc",):
                continue
            cx = cx or FuncCtx(m, f)
            n += 1
            ptr = render(kids(c)[1])
            size = cx.canon(kids(c)[-1])
            # is the call the right-hand side of an assignment / initialiser to the same lvalue?
            stored = None
            for l, r, k, node in inv.stores(f):
                if r is not None and any(y is c for y in walk(r)):
                    stored = render(l)
            for x in walk(f.body):
                if x["kind"] == "VarDecl" and kids(x) and any(y is c for y in walk(kids(x)[0])):
                    stored = x["name"]
            rule.instance("%s: %s = realloc(%s, %s)" % (f.name, stored, ptr, size))
            if stored is None:
                rep.finding(rule, f.name, "realloc:result-discarded", "the result of reallocating '%s' is discarded: the "
                            "block may have moved, so the old pointer dangles" % ptr, where=m.rel(loc(c)))
                rule.fail()
            elif stored != ptr and not f.name.endswith("_realloc"):
                # storing into a temporary is fine if the temporary is then stored back
                back = any(render(r) == stored and render(l) == ptr for l, r, k, node in inv.stores(f) if r is not None)
                if not back:
                    rep.finding(rule, f.name, "realloc:result-elsewhere", "the result of reallocating '%s' is stored in '%s' "
                                "and never back" % (ptr, stored), where=m.rel(loc(c)))
                    rule.fail()
                else:
                    rule.ok()
            else:
                rule.ok()
            if "sizeof(" not in size:
                rep.finding(rule, f.name, "realloc:size-units", "realloc of '%s' is given the size '%s', an element count "
                            "rather than a byte count" % (ptr, size), where=m.rel(loc(c)))
                rule.fail()
            else:
                rule.ok()
    return n


def threading_rules(rep, r2, m):
    """Free-list threading of a new chunk (engine IDX) and chunk geometry; returns names used by later rules."""
    ex = m.need("cmi_mempool_expand")
    ini = m.need("cmi_mempool_initialize")
    ex_x = FuncCtx(m, ex)
    mp = ex.params[0]["name"]
    allocs = [c for c in walk(ex.body) if c["kind"] == "CallExpr" and callee_ref(c) == "cmi_aligned_alloc"]
    if len(allocs) != 1:
        raise AnalysisBroken("expand: expected one aligned allocation")
    a = [ex_x.canon(z) for z in kids(allocs[0])[1:]]
    r2.instance("chunk = cmi_aligned_alloc(%s)" % ", ".join(a))
    if a[1] != mp + "->incr_sz":
        rep.finding(r2, ex.name, "chunk:size", "a chunk is allocated with %s bytes, not incr_sz" % a[1], where=m.rel(loc(allocs[0])))
        r2.fail()
    else:
        r2.ok()
    # object-index analysis of everything that follows the allocation (engine IDX)
    from ..engines import induct
    ix0 = FuncCtx(m, ini)
    n_ge_1 = any(ix0.canon(assert_condition(s_)) == "(%s > 0)" % ini.params[2]["name"]
                 for s_ in kids(ini.body) if assert_condition(s_) is not None)
    th = induct.Threading(m, ex, ex_x, mp, n_ge_1=n_ge_1)
    top = kids(ex.body)
    ai = inv.stmt_index_containing(ex, allocs[0])
    def real_loop(x_):
        return x_["kind"] in ("ForStmt", "WhileStmt") or (x_["kind"] == "DoStmt" and not is_assert_like(x_))
    loops = [i_ for i_, s_ in enumerate(top) if i_ >= ai and real_loop(s_)]
    if len(loops) != 1 or any(real_loop(x) and x is not top[loops[0]] for s_ in top[ai:] for x in walk(s_)):
        raise AnalysisBroken("expand: expected one threading loop after the allocation")
    th.run(top[ai:loops[0] + 1])
    th.run_after_loop(top[loops[0] + 1:])
    for lp_ in th.loops:
        r2.instance("threading loop at line %s: guard %s, induction steps %s" % (lp_["line"], lp_["guard"], lp_["induction"]))
        rep.sample({"rule": "R-C20-2", "loop": lp_})
    r2.instance("exit cases analysed: %d" % len(th.exit_cases))
    headok = th.head is not None and th.head.kind == "ptr" and not th.head.p
    r2.instance("free-list head = %s" % (th.head.show() if th.head else None))
    if not headok:
        rep.finding(r2, ex.name, "thread:head", "the free-list head is not set to the first object of the new chunk",
                    where=m.rel(ex.where))
        r2.fail()
    else:
        r2.ok()
    seen = set()
    for what, ok_, where_, why in th.obligations:
        if ok_:
            r2.ok()
            continue
        r2.fail()
        key = (what.split(" chunk+")[0], why[:40])
        if key in seen:
            continue
        seen.add(key)
        kind = "thread:count" if "object number" in why else ("thread:ends" if "NULL" in why else "thread:stride")
        rep.finding(r2, ex.name, kind, "%s: %s" % (what, why), where=m.rel(where_) if where_ else m.rel(ex.where))
    ix = FuncCtx(m, ini)
    ist = {ix.canon(l): ix.canon(r) for l, r, k, n_ in inv.stores(ini) if r is not None}
    imp = ini.params[0]["name"]
    r2.instance("initialize: incr_sz = %s; incr_num = %s" % (ist.get(imp + "->incr_sz"), ist.get(imp + "->incr_num")))
    rep.sample({"rule": "R-C20-2", "incr_sz": ist.get(imp + "->incr_sz"), "incr_num": ist.get(imp + "->incr_num")})
    szv = ist.get(imp + "->incr_sz", "?")
    osv = ist.get(imp + "->obj_sz", "?")
    fit_forms = {"(%s / %s)" % (a_, b_) for a_ in ("%s->incr_sz" % imp, szv) for b_ in ("%s->obj_sz" % imp, osv)}
    if ist.get(imp + "->incr_num") not in fit_forms:
        rep.finding(r2, ini.name, "fit", "incr_num = %s is not incr_sz / obj_sz: the objects threaded may not fit the chunk"
                    % ist.get(imp + "->incr_num"), where=m.rel(ini.where))
        r2.fail()
    else:
        r2.ok()
    osz, onum = ini.params[1]["name"], ini.params[2]["name"]
    page = r"(cmi_pagesize\(\)|sysconf\(\w+\))"
    tot = r"\((?:%s \* %s|%s \* %s)\)" % (onum, osz, osz, onum)
    padded = r"\(\(%s \+ %s\) - 1\)" % (tot, page)
    # obj_num * obj_sz rounded up to whole pages: ((t + p - 1) / p) * p   or   x - x % p with x = t + p - 1
    pats = [r"\(\(%s / %s\) \* %s\)" % (padded, page, page), r"\(%s - \(%s %% %s\)\)" % (padded, padded, page)]
    # ... or the remainder form: t if t % p == 0, else t + (p - t % p)   (also written with if / else on a local)
    rem = r"\(%s %% %s\)" % (tot, page)
    pats.append(r"\(\(%s == 0\) \? %s : \(%s \+ \(%s - %s\)\)\)" % (rem, tot, tot, page, rem))
    pats.append(r"\(\(%s != 0\) \? \(%s \+ \(%s - %s\)\) : %s\)" % (rem, tot, page, rem, tot))
    szforms = [ist.get(imp + "->incr_sz", "")]
    for l_, r_, k_, n_ in inv.stores(ini):
        if r_ is not None and ix.canon(l_) == imp + "->incr_sz":
            t_ = common.as_ternary(ix, ini, r_)
            if t_:
                szforms.append(t_)
    if not any(re.fullmatch(pt_, sf_) for pt_ in pats for sf_ in szforms) or ist.get(imp + "->obj_sz") != osz:
        rep.finding(r2, ini.name, "chunk:rounding", "incr_sz = %s is not obj_num * obj_sz rounded up to whole pages"
                    % ist.get(imp + "->incr_sz"), where=m.rel(ini.where))
        r2.fail()
    else:
        r2.ok()

    return ex_x, mp, allocs, a, ix, ist, imp, osz, page


def is_assert_like(x):
    """do { ... } while (0): the shape of the compiled-out assertion macros"""
    from ..astutil import int_value as _iv
    return x["kind"] == "DoStmt" and len(kids(x)) > 1 and _iv(strip(kids(x)[1], casts=True)) == 0


def chunk_list_bounds(rep, r5, m):
    """engine LSE on cmi_mempool_expand: slot index inside the (possibly just grown) list, count below length afterwards"""
    ex = m.need("cmi_mempool_expand")
    ex_x = FuncCtx(m, ex)
    mp = ex.params[0]["name"]
    # engine LSE: with cnt < len on entry (established by initialize: 0 < CHUNK_LIST_SIZE, and re-established by every
    # expansion), every path through expand writes a slot index in [0, len') where len' is the length after a possible
    # growth, leaves cnt' < len', and the growth is a realloc to len' elements
    from ..engines.lse import LSE
    from ..engines.induct import Poly, Facts
    cntk, lenk = "%s->chunk_list_cnt" % mp, "%s->chunk_list_len" % mp
    entry = Facts().add_le0(Poly.sym("c").scale(-1), "cnt >= 0").add_le0(Poly.sym("c") + Poly.const(1) - Poly.sym("L"), "cnt < len on entry")
    eng = LSE(ex_x, {cntk: "c", lenk: "L"}, entry)
    slots = []
    eng.on_store = lambda p_, base, idx, node: slots.append((p_, base, idx, node, dict(p_.state), p_.facts)) if base.endswith("chunk_list") else None
    # the static-pool branch re-initialises the pool (cnt = 0, len = CHUNK_LIST_SIZE): analyse from after it
    top_ = kids(ex.body)
    start = 0
    for i_, s_ in enumerate(top_):
        if s_["kind"] == "IfStmt" and any(callee_ref(y) == "cmi_mempool_initialize" for y in walk(s_) if y["kind"] == "CallExpr"):
            start = i_ + 1
    paths = eng.run(top_[start:])
    r5.instance("expand: %d path(s), %d slot store(s)" % (len(paths), len(slots)))
    okg = bool(slots)
    why = "no store into the chunk list found"
    for p_, base, idx, node, st_, facts_ in slots:
        if idx is None:
            okg, why = False, "the slot index is not a linear function of the count"
            continue
        lo = facts_.proves_le0(idx.scale(-1))
        # the length that the list has at the time of the store is the current value of len on this path
        hi = facts_.proves_le0(idx + Poly.const(1) - st_[lenk])
        if not (lo and hi):
            okg, why = False, "slot index %s is not provably below the list length %s (%s)" % (idx.show(), st_[lenk].show(), "; ".join(facts_.notes))
    for p_ in paths:
        if not p_.facts.proves_le0(p_.state[cntk] + Poly.const(1) - p_.state[lenk]):
            okg, why = False, "after expand cnt = %s is not provably below len = %s: the next expansion would write beyond the list" % (
                p_.state[cntk].show(), p_.state[lenk].show())
        if not (p_.state[cntk] - Poly.sym("c") == Poly.const(1)):
            okg, why = False, "the chunk count changes by %s per expansion" % (p_.state[cntk] - Poly.sym("c")).show()
    # a path on which len grows must reallocate the list with the new length (in elements * sizeof)
    grew = [p_ for p_ in paths if not (p_.state[lenk] - Poly.sym("L") == Poly())]
    reallocs = [c_ for c_ in walk(ex.body) if c_["kind"] == "CallExpr" and callee_ref(c_) in ("cmi_realloc", "realloc")]
    if grew and not reallocs:
        okg, why = False, "the length grows without a reallocation of the list"
    # the reallocation is given the NEW length (in elements times the pointer size): the count, or the old length, would
    # leave the list as short as it was while the stored length says it grew
    len_stores = [(l_, r_, k_, n_) for l_, r_, k_, n_ in inv.stores(ex) if ex_x.canon(l_) == lenk]
    for c_ in reallocs:
        size = ex_x.canon(kids(c_)[-1])
        mm_ = re.fullmatch(r"\((.+) \* sizeof\(void \*\)\)|\(sizeof\(void \*\) \* (.+)\)", size)
        cnt_txt = (mm_.group(1) or mm_.group(2)) if mm_ else None
        good = False
        for l_, r_, k_, n_ in len_stores:
            if cnt_txt == lenk and inv.executes_before(ex, n_, c_):
                good = True                       # the field, after it was raised
            if r_ is not None and k_ == "=" and cnt_txt == ex_x.canon(r_):
                good = True                       # the same new value that is stored into the field
            if k_ == "+=" and r_ is not None and cnt_txt == "(%s + %s)" % (lenk, ex_x.canon(r_)) and not inv.executes_before(ex, n_, c_):
                good = True
        if reallocs and grew and not good:
            okg, why = False, ("the list is reallocated with '%s' elements, which is not the new length stored in %s"
                               % (cnt_txt or size, lenk))
    rep.sample({"rule": getattr(r5, "id", "R-C20-5"), "paths": [{"cnt": p_.state[cntk].show(), "len": p_.state[lenk].show(), "facts": p_.facts.notes} for p_ in paths]})
    if not okg:
        rep.finding(r5, ex.name, "chunk-list:bounds", "the chunk list slot written is not provably inside the list on every path: "
                    "%s" % why, where=m.rel(ex.where))
        r5.fail()
    else:
        r5.ok()


def rules(rep, m):
    mp_files = ("src/cmi_mempool.c", "src/cmi_mempool.h")
    ex = m.need("cmi_mempool_expand")
    ini = m.need("cmi_mempool_initialize")
    al = m.need("cmi_mempool_alloc")
    fr = m.need("cmi_mempool_free")
    tm = m.need("cmi_mempool_terminate")
    r1 = rep.rule("R-C20-1", "the chunk list is grown with a realloc whose result is stored back and whose size is in bytes",
                  floor=1)
    n = realloc_discipline(rep, r1, m, mp_files)
    if n == 0:
        raise AnalysisBroken("no realloc found in the memory pool")

    # R-C20-2 ------------------------------------------------------------
    r2 = rep.rule("R-C20-2", "free-list threading: consecutive objects of a new chunk are obj_sz bytes apart (stride in words "
                  "with obj_sz a multiple of 8), exactly incr_num - 1 links are threaded and the last is NULL, and "
                  "incr_num * obj_sz fits in the chunk that was allocated", floor=3)
    ex_x, mp, allocs, a, ix, ist, imp, osz, page = threading_rules(rep, r2, m)

    # R-C20-3 ------------------------------------------------------------
    r3 = rep.rule("R-C20-3", "alignment: chunks are page-aligned and the object size is release-asserted to be a multiple of "
                  "8 on the one initialisation route (static pools reach it through expand)", floor=2)
    conds = [ix.canon(assert_condition(s)) for s in kids(ini.body) if assert_condition(s) is not None]
    r3.instance("initialize asserts %s" % conds)
    if not any(re.fullmatch(r"\(\(%s %% 8\) == 0\)" % osz, c) for c in conds):
        rep.finding(r3, ini.name, "align:assert", "object size is not release-asserted to be a multiple of 8", where=m.rel(ini.where))
        r3.fail()
    else:
        r3.ok()
    if not re.fullmatch(page, a[0]):
        rep.finding(r3, ex.name, "align:chunk", "chunks are allocated with alignment %s, not the page size" % a[0], where=m.rel(ex.where))
        r3.fail()
    else:
        r3.ok()
    # static pools: registered and initialised in expand before the first allocation
    reg = False
    for x in walk(ex.body):
        if x["kind"] == "IfStmt" and "CMI_THREAD_STATIC" in render(kids(x)[0]) or \
                (x["kind"] == "IfStmt" and re.search(r"cookie == \d+", ex_x.canon(kids(x)[0]))):
            names = [callee_ref(y) for y in walk(kids(x)[1]) if y["kind"] == "CallExpr"]
            # the push onto the registry list may be written out: N->next = L.next; L.next = N
            sts_ = [(ex_x.canon(l_), ex_x.canon(r_)) for l_, r_, k_, n_ in inv.stores(ex)
                    if r_ is not None and k_ == "=" and any(y is n_ for y in walk(kids(x)[1]))]
            open_push = any(l1.endswith(".next") and r1 == "&" + l0[:-len(".next")] and (l0, l1) in sts_ and
                            sts_.index((l0, l1)) < sts_.index((l1, r1))
                            for l1, r1 in sts_ for l0, _r0 in sts_ if l0.endswith(".next") and l0 != l1)
            if ("cmi_slist_push" in names or open_push) and "cmi_mempool_initialize" in names:
                ic = [y for y in walk(kids(x)[1]) if y["kind"] == "CallExpr" and callee_ref(y) == "cmi_mempool_initialize"][0]
                ia = [ex_x.canon(z) for z in kids(ic)[1:]]
                if ia == [mp, mp + "->obj_sz", mp + "->incr_num"] and \
                        (inv.stmt_index_containing(ex, x) or 0) < (inv.stmt_index_containing(ex, allocs[0]) or 0):
                    reg = True
    r3.instance("static pools registered for clean-up and initialised on first use: %s" % reg)
    if not reg:
        rep.finding(r3, ex.name, "static-init", "statically initialised pools are not initialised (object size check, chunk "
                    "geometry) and registered for clean-up before their first chunk", where=m.rel(ex.where))
        r3.fail()
    else:
        r3.ok()

    # R-C20-4 ------------------------------------------------------------
    r4 = rep.rule("R-C20-4", "push/pop symmetry: alloc pops by following the first word of the head (refilling when empty); "
                  "free pushes by writing the old head into the object's first word and making the object the head; nothing "
                  "else writes the head", floor=5)
    for f, l, r, k, n_ in inv.field_writers(m, "cmi_mempool", "next_obj"):
        r4.instance("%s writes next_obj" % f.name)
        from ..astutil import is_null_expr as _isnull
        empties = r is not None and k == "=" and _isnull(r) and f.name in ("cmi_mempool_destroy", "cmi_mempool_create")
        if empties:
            # a lifecycle routine that empties the list (destroy does what terminate does, then frees the pool)
            r4.ok()
            continue
        if f.name not in ("cmi_mempool_alloc", "cmi_mempool_free", "cmi_mempool_expand", "cmi_mempool_terminate",
                          "cmi_mempool_initialize"):
            rep.finding(r4, f.name, "head:writer", "%s writes a pool's free-list head" % f.name, where=m.rel(loc(n_)))
            r4.fail()
        else:
            r4.ok()
    def lin_exec(f, head_field, empty=None):
        """Sequential symbolic execution of a small push/pop routine: values are terms over the parameters, HEAD0 (the
        head on entry), HEAD1 (the head after a refill) and mem[x] (first word of x).  Returns (head, mem, ret, refilled)."""
        mpn = f.params[0]["name"]
        # empty: None = no case split (free); True / False = the path on which the free list is / is not empty on entry
        st = {"head": "NULL" if empty else "HEAD0", "mem": {}, "env": {}, "ret": None, "refill": None, "expanded_when": None}

        def ev(n):
            if is_null_expr(n):
                return "NULL"
            n = strip(n, casts=True)
            k = n["kind"]
            if k == "IntegerLiteral" and int(n["value"]) == 0:
                return "NULL"
            if k == "DeclRefExpr":
                if n["ref"]["id"] in st["env"]:
                    return st["env"][n["ref"]["id"]]
                return n["ref"]["name"]
            if k == "MemberExpr" and n.get("name") == head_field and render(strip(kids(n)[0], casts=True)) == mpn:
                return st["head"]
            if k == "UnaryOperator" and n.get("opcode") == "*":
                a_ = ev(kids(n)[0])
                return st["mem"].get(a_, "mem[%s]" % a_)
            if is_null_expr(n):
                return "NULL"
            return render(n)

        class _Ret(Exception):
            pass

        def do(s_, guarded=False):
            k = s_["kind"]
            if k == "CompoundStmt":
                for c_ in kids(s_):
                    do(c_, guarded)
            elif k == "DeclStmt":
                for d in kids(s_):
                    if d["kind"] == "VarDecl" and kids(d):
                        st["env"][d["id"]] = ev(kids(d)[0])
            elif k == "BinaryOperator" and s_.get("opcode") == "=":
                l = strip(kids(s_)[0], casts=True)
                v_ = ev(kids(s_)[1])
                if l["kind"] == "DeclRefExpr":
                    st["env"][l["ref"]["id"]] = v_
                elif l["kind"] == "MemberExpr" and l.get("name") == head_field:
                    st["head"] = v_
                elif l["kind"] == "UnaryOperator" and l.get("opcode") == "*":
                    st["mem"][ev(kids(l)[0])] = v_
                else:
                    raise AnalysisBroken("%s: store to %s not understood" % (f.name, render(l)))
            elif k == "IfStmt":
                c_ = ev_cond(kids(s_)[0])
                if c_ is None:
                    raise AnalysisBroken("%s: conditional %s not understood" % (f.name, render(kids(s_)[0])))
                st["refill"] = True if st["refill"] is None and any(callee_ref(y) == "cmi_mempool_expand" for y in walk(s_)
                                                                     if y["kind"] == "CallExpr") else st["refill"]
                if empty is None:
                    raise AnalysisBroken("%s: emptiness test in a routine without a case split" % f.name)
                taken = c_ if isinstance(c_, bool) else None
                branch = kids(s_)[1] if taken else (kids(s_)[2] if len(kids(s_)) > 2 else None)
                if branch is not None:
                    do(branch, True)
            elif k == "ReturnStmt":
                st["ret"] = ev(kids(s_)[0]) if kids(s_) else None
                raise _Ret()
            elif k == "CallExpr" and callee_ref(s_) == "cmi_mempool_expand" or \
                    (strip(s_, casts=True)["kind"] == "CallExpr" and callee_ref(strip(s_, casts=True)) == "cmi_mempool_expand"):
                # a refill: leaves a fresh, non-empty list; admissible only when the list is empty at that point
                st["expanded_when"] = st["head"]
                if st["refill"] is None:
                    st["refill"] = True
                st["head"] = "FRESH"
                st["mem"] = {}
            elif is_assert_stmt(s_) or k in ("NullStmt", "DoStmt", "ParenExpr", "ConditionalOperator", "CStyleCastExpr", "CallExpr"):
                return
            else:
                raise AnalysisBroken("%s: statement %s not understood" % (f.name, k))

        def ev_cond(c_):
            """truth of a test of the head against NULL in the current state (any spelling), else None"""
            c_ = strip(c_, casts=True)
            if c_["kind"] == "UnaryOperator" and c_.get("opcode") == "!":
                v_ = ev_cond(kids(c_)[0])
                if v_ is not None:
                    return not v_
                if ev(kids(c_)[0]) == st["head"]:
                    return st["head"] == "NULL"
                return None
            if c_["kind"] == "BinaryOperator" and c_.get("opcode") in ("==", "!="):
                a_, b_ = ev(kids(c_)[0]), ev(kids(c_)[1])
                if {a_, b_} == {st["head"], "NULL"} or (a_ == b_ == "NULL"):
                    is_empty = st["head"] == "NULL"
                    return is_empty if c_["opcode"] == "==" else not is_empty
            if ev(c_) == st["head"] and c_["kind"] in ("MemberExpr", "DeclRefExpr"):
                return st["head"] != "NULL"
            return None
        try:
            do(f.body)
        except _Ret:
            pass
        return st

    from ..vals import is_assert_stmt
    okpop = True
    for emp, top in ((False, "HEAD0"), (True, "FRESH")):
        sa_ = lin_exec(al, "next_obj", empty=emp)
        r4.instance("alloc (free list %s on entry): refill test present: %s; returns %s; head becomes %s" %
                    ("empty" if emp else "not empty", sa_["expanded_when"] is not None, sa_["ret"], sa_["head"]))
        rep.sample({"rule": "R-C20-4", "alloc": {"empty_on_entry": emp, "ret": sa_["ret"], "head": sa_["head"]}})
        wrong_refill = (emp and sa_["expanded_when"] != "NULL") or (not emp and sa_["expanded_when"] is not None)
        if wrong_refill or sa_["ret"] != top or sa_["head"] != "mem[%s]" % top:
            okpop = False
            rep.finding(r4, al.name, "pop", "alloc does not (refill when empty and then) hand out the head and advance to the head's "
                        "first word: with the free list %s on entry it returns %s and leaves the head at %s" %
                        ("empty" if emp else "not empty", sa_["ret"], sa_["head"]), where=m.rel(al.where))
    (r4.ok if okpop else r4.fail)()
    sf_ = lin_exec(fr, "next_obj")
    fop = fr.params[1]["name"]
    r4.instance("free: first word of the object becomes %s; head becomes %s" % (sf_["mem"].get(fop), sf_["head"]))
    rep.sample({"rule": "R-C20-4", "free": {"mem": sf_["mem"], "head": sf_["head"]}})
    if sf_["mem"].get(fop) != "HEAD0" or sf_["head"] != fop or len(sf_["mem"]) != 1:
        rep.finding(r4, fr.name, "push", "free leaves the object's first word = %s and the head = %s; expected the old head in "
                    "the object's first word and the object as the new head" % (sf_["mem"].get(fop), sf_["head"]), where=m.rel(fr.where))
        r4.fail()
    else:
        r4.ok()

    # R-C20-5 ------------------------------------------------------------
    r5 = rep.rule("R-C20-5", "chunk list: the slot written for a new chunk is dominated by the capacity test that grows the "
                  "list (length in elements, allocation in bytes); terminate frees every chunk and the list", floor=2)
    chunk_list_bounds(rep, r5, m)
    lenst = ist.get(imp + "->chunk_list_len")
    lal = ist.get(imp + "->chunk_list")
    if not (lal and re.fullmatch(r"cmi_malloc\(\((%s->chunk_list_len|%s) \* sizeof\(void \*\)\)\)" %
                         (imp, re.escape(lenst or "?")), lal)):
        rep.finding(r5, ini.name, "chunk-list:alloc", "the chunk list is allocated as %s" % lal, where=m.rel(ini.where))
        r5.fail()
    else:
        r5.ok()
    tx = FuncCtx(m, tm)
    tmp_ = tm.params[0]["name"]
    tl = [x for x in walk(tm.body) if x["kind"] in ("ForStmt", "WhileStmt")]
    okt = False
    if len(tl) == 1:
        ivs, gd = inv.induction_vars(tx, tm, tl[0])
        trip = inv.trip_count(ivs, gd)
        fc = [kids(y)[1] for y in walk(tl[0]) if y["kind"] == "CallExpr" and callee_ref(y) == "cmi_aligned_free"]
        okt = trip == tmp_ + "->chunk_list_cnt" and len(fc) == 1
        if okt:
            a0 = strip(fc[0], casts=True)
            if a0["kind"] == "ArraySubscriptExpr":
                ix = strip(kids(a0)[1], casts=True)
                okt = tx.canon(kids(a0)[0]) == tmp_ + "->chunk_list" and ix["kind"] == "DeclRefExpr" and ivs.get(ix["ref"]["name"]) == ("0", 1)
                if not okt and tx.canon(kids(a0)[0]) == tmp_ + "->chunk_list" and gd is not None:
                    # count-down `for (j = N; j > 0; j--)` freeing element N - j: 0 .. N-1 again
                    e_, d_ = ivs.get(gd[0], (None, None))
                    okt = d_ == -1 and tx.canon(ix) == "(%s - %s)" % (e_, gd[0]) and (gd[1], gd[2]) in ((">", "0"), ("!=", "0"), (">=", "1"))
            elif a0["kind"] == "UnaryOperator" and a0.get("opcode") == "*":
                q = strip(kids(a0)[0], casts=True)
                okt = q["kind"] == "DeclRefExpr" and ivs.get(q["ref"]["name"]) == (tmp_ + "->chunk_list", 1)
            else:
                okt = False
        okt = okt and any(callee_ref(y) == "cmi_free" and tx.canon(kids(y)[1]) == tmp_ + "->chunk_list"
                          for y in walk(tm.body) if y["kind"] == "CallExpr")
    r5.instance("terminate frees every chunk and the list: %s" % okt)
    if not okt:
        rep.finding(r5, tm.name, "terminate", "terminate does not free chunks [0, cnt) and the list", where=m.rel(tm.where))
        r5.fail()
    else:
        r5.ok()


    # R-C20-8 ------------------------------------------------------------
    r8 = rep.rule("R-C20-8", "the free list never outlives the chunks it is threaded through: initialize stores an empty free "
                  "list, and terminate empties it under the same conditions under which it frees the chunks (a pool that is "
                  "initialised again would otherwise hand out objects inside freed memory)", floor=2)
    r8.instance("initialize: next_obj = %s" % ist.get(imp + "->next_obj"))
    if ist.get(imp + "->next_obj") not in ("NULL", "0", "(void *)0"):
        rep.finding(r8, ini.name, "free-list:not-emptied", "cmi_mempool_initialize leaves next_obj as it was (%s): a pool that is "
                    "initialised again after terminate - or whose memory was not zeroed - starts with a free list that points "
                    "into memory it does not own" % ist.get(imp + "->next_obj"), where=m.rel(ini.where))
        r8.fail()
    else:
        r8.ok()
    tx8 = FuncCtx(m, tm)
    frees8 = [y for y in walk(tm.body) if y["kind"] == "CallExpr" and callee_ref(y) in ("cmi_aligned_free", "cmi_free")]
    nulls8 = [n_ for l, r_, k_, n_ in inv.stores(tm) if tx8.canon(l).endswith("->next_obj") and r_ is not None and
              tx8.canon(r_) in ("NULL", "0", "(void *)0")]
    r8.instance("terminate: %d free call(s), %d store(s) emptying the free list" % (len(frees8), len(nulls8)))
    okn = bool(frees8) and bool(nulls8)
    if okn:
        for fc_ in frees8:
            fcond = [cd for cd in inv.dominating_conditions(tx8, tm, fc_)]
            # conditions of the enclosing loop body do not count: take those of the outermost statement holding the call
            if not any(all(cd in fcond for cd in inv.dominating_conditions(tx8, tm, n_)) for n_ in nulls8):
                okn = False
    if not okn:
        rep.finding(r8, tm.name, "free-list:dangling", "cmi_mempool_terminate frees the chunks but does not (under the same "
                    "conditions) set next_obj to NULL: the free list keeps pointing into freed chunks, and the next "
                    "cmi_mempool_alloc after a re-initialisation pops objects from there", where=m.rel(tm.where))
        r8.fail()
    else:
        r8.ok()

    # R-C20-6 ------------------------------------------------------------
    r6 = rep.rule("R-C20-6", "every statically initialised pool starts in the state that expand's first-use route expects: "
                  "cookie CMI_THREAD_STATIC, object size field = sizeof the type its objects are used as, a positive "
                  "object count, and an empty free list / chunk list (so the first allocation goes through expand); "
                  "fields are matched by name against the initialiser clang resolved, not by position in the macro", floor=5)
    fields = [f_[0] for f_ in m.records.get("cmi_mempool", [])]
    if "obj_sz" not in fields or "incr_num" not in fields:
        raise AnalysisBroken("struct cmi_mempool no longer has obj_sz / incr_num")
    static_cookie = None
    for x in walk(ex.body):
        if x["kind"] == "IfStmt":
            mm = re.fullmatch(r"\(%s->cookie == (\d+)\)" % mp, ex_x.canon(kids(x)[0]))
            if mm and any(callee_ref(y) == "cmi_mempool_initialize" for y in walk(kids(x)[1]) if y["kind"] == "CallExpr"):
                static_cookie = int(mm.group(1))
    pools = {}
    for gk, g in m.globals.items():
        if (g.type or "").replace("const ", "").strip() != "struct cmi_mempool":
            continue
        if g.const or (g.type or "").strip().startswith("const "):
            continue            # a constant template that is copied from cannot serve as a pool (alloc / free write it)
        if not (m.rel(g.file) or "").startswith(("src/", "include/")):
            continue
        il = [c for c in kids(g.node) if c["kind"] == "InitListExpr"]
        if not il:
            continue
        vals = dict(zip(fields, kids(il[0])))
        pools[gk] = (g, vals)
    # how each pool's objects are used: the pointer type the result of alloc is converted to, the type freed
    uses = {}
    for f in m.funcs.values():
        for c in walk(f.body):
            if c["kind"] != "CallExpr" or callee_ref(c) not in ("cmi_mempool_alloc", "cmi_mempool_free"):
                continue
            a0 = strip(kids(c)[1], casts=True)
            if not (a0["kind"] == "UnaryOperator" and a0.get("opcode") == "&"):
                continue
            root = strip(kids(a0)[0], casts=True)
            if root["kind"] != "DeclRefExpr":
                continue
            gk = m.global_key(f.unit, f, root["ref"])
            if gk is None:
                continue
            if callee_ref(c) == "cmi_mempool_alloc":
                t = None
                chain = inv.enclosing_chain(f, c)
                for anc in reversed(chain):
                    if anc["kind"] in ("ImplicitCastExpr", "CStyleCastExpr") and (anc.get("type") or "").endswith("*"):
                        t = anc.get("type")
                        continue
                    if anc["kind"] == "VarDecl" and t is None:
                        t = anc.get("type")
                    break
                uses.setdefault(gk, []).append(("alloc", t, f.name, loc(c)))
            else:
                # the type of the pointer as it is passed (implicit conversions to void * aside): for a container_of
                # expression that is the type of its outer cast, not of the byte arithmetic inside
                a2 = kids(c)[2]
                while a2["kind"] in ("ImplicitCastExpr", "ParenExpr") and kids(a2):
                    a2 = kids(a2)[0]
                t = a2.get("type")
                uses.setdefault(gk, []).append(("free", t, f.name, loc(c)))
    for gk, (g, vals) in sorted(pools.items()):
        r6.instance("static pool %s (%s:%s)" % (g.name, m.rel(g.file), g.line))
        where = "%s:%s" % (m.rel(g.file), g.line)
        ck = strip(vals["cookie"], casts=True)
        okc = ck["kind"] == "IntegerLiteral" and static_cookie is not None and int(ck["value"]) == static_cookie
        empties = all(vals[f_]["kind"] == "ImplicitValueInitExpr" or is_null_expr(vals[f_]) or (strip(vals[f_], casts=True)["kind"] == "IntegerLiteral" and
                                                int(strip(vals[f_], casts=True)["value"]) == 0)
                      for f_ in ("chunk_list_len", "chunk_list_cnt", "chunk_list", "next_obj") if f_ in vals)
        szn = strip(vals["obj_sz"], casts=True)
        szt = szn.get("argType") if szn["kind"] == "UnaryExprOrTypeTraitExpr" else None
        numn = strip(vals["incr_num"], casts=True)
        oknum = (numn["kind"] == "IntegerLiteral" and int(numn["value"]) > 0) or numn["kind"] == "UnaryExprOrTypeTraitExpr"
        want = sorted({(t or "?").replace("const ", "").rstrip("* ").strip() for k_, t, fn, w_ in uses.get(gk, []) if k_ == "alloc"})
        rep.sample({"rule": "R-C20-6", "pool": g.name, "obj_sz": render(vals["obj_sz"]), "incr_num": render(vals["incr_num"]),
                    "objects_used_as": want})
        if not g.tls:
            rep.finding(r6, g.name, "static:not-thread-local", "static pool %s carries the CMI_THREAD_STATIC cookie but is not "
                        "thread-local: all threads share its free list without synchronisation, and the thread that first used "
                        "it frees all its chunks - including objects still live in other threads - when it exits" % g.name, where=where)
            r6.fail()
        else:
            r6.ok()
        if not okc or not empties:
            rep.finding(r6, g.name, "static:state", "static pool %s does not start as {CMI_THREAD_STATIC, ..., empty chunk list, "
                        "empty free list}: the first allocation would not initialise it" % g.name, where=where)
            r6.fail()
        else:
            r6.ok()
        okt_ = szt is not None and bool(want) and all(w_ == szt.replace("const ", "").strip() for w_ in want)
        if not okt_ and len(want) == 1 and want[0] != "?":
            # not literally sizeof(T): let clang evaluate both constants in the unit's own context
            from .. import frontend as fe_
            try:
                wn = fe_.witness_ast(m.repo, m.config, '#include "%s"\nenum { verif_witness_a = (%s), verif_witness_b = sizeof(%s) };\n'
                                     % (g.file, render(vals["obj_sz"]), want[0]), "verif_witness_")
            except AnalysisBroken:
                wn = []
            cv = {}
            def rw(n):
                yield n
                for c_ in n.get("inner", []) or []:
                    yield from rw(c_)
            for w_ in wn:
                for x in rw(w_):
                    if x.get("kind") == "EnumConstantDecl":
                        for y in rw(x):
                            if y.get("kind") == "ConstantExpr" and "value" in y:
                                cv[x["name"]] = int(y["value"])
            if "verif_witness_a" in cv and "verif_witness_b" in cv:
                r6.instance("%s: obj_sz = %d, sizeof(%s) = %d" % (g.name, cv["verif_witness_a"], want[0], cv["verif_witness_b"]))
                okt_ = cv["verif_witness_a"] >= cv["verif_witness_b"] and cv["verif_witness_a"] % 8 == 0
        if not okt_:
            rep.finding(r6, g.name, "static:obj_sz", "static pool %s: the object size field is initialised with '%s' but its "
                        "objects are used as %s: objects handed out would be smaller than (or unrelated to) what is stored "
                        "in them, so live objects overlap" % (g.name, render(vals["obj_sz"]), want or "(nothing)"), where=where)
            r6.fail()
        else:
            r6.ok()
        if not oknum:
            rep.finding(r6, g.name, "static:incr_num", "static pool %s: the object count field is initialised with '%s', not a "
                        "positive count" % (g.name, render(vals["incr_num"])), where=where)
            r6.fail()
        else:
            r6.ok()
    # the initialiser macro: its size argument lands in obj_sz and its count argument in incr_num (witness parsed by
    # clang against the tree's header: the positional macro and the field order of the struct have to agree)
    from .. import frontend
    wit = frontend.witness_ast(m.repo, m.config, '#include "cmi_mempool.h"\n'
                               'struct cmi_mempool verif_witness_pool = CMI_MEMPOOL_STATIC_INIT(1111u, 2222u);\n',
                               "verif_witness_pool")
    def raw_walk(n):
        yield n
        for c_ in n.get("inner", []) or []:
            yield from raw_walk(c_)
    ils = [x for w_ in wit for x in raw_walk(w_) if x.get("kind") == "InitListExpr"]
    if not ils:
        raise AnalysisBroken("R-C20-6: the witness for CMI_MEMPOOL_STATIC_INIT has no initialiser list")
    def raw_int(n):
        for x in raw_walk(n):
            if x.get("kind") == "IntegerLiteral":
                return int(x["value"])
        return None
    wv = dict(zip(fields, [raw_int(c_) for c_ in ils[0].get("inner", [])]))
    r6.instance("CMI_MEMPOOL_STATIC_INIT(1111, 2222) yields obj_sz=%s incr_num=%s cookie=%s" % (wv.get("obj_sz"), wv.get("incr_num"), wv.get("cookie")))
    rep.sample({"rule": "R-C20-6", "witness": {k_: v_ for k_, v_ in wv.items()}})
    if wv.get("obj_sz") != 1111 or wv.get("incr_num") != 2222 or wv.get("cookie") != static_cookie:
        rep.finding(r6, "CMI_MEMPOOL_STATIC_INIT", "static:macro", "CMI_MEMPOOL_STATIC_INIT(size, count) initialises obj_sz=%s and "
                    "incr_num=%s for size 1111 and count 2222: the positional initialiser does not match the field order of "
                    "struct cmi_mempool, so a static pool gets objects of the wrong size" % (wv.get("obj_sz"), wv.get("incr_num")),
                    where="src/cmi_mempool.h")
        r6.fail()
    else:
        r6.ok()
    # R-C20-7 ------------------------------------------------------------
    r7 = rep.rule("R-C20-7", "an object is returned to the pool it came from: for every pool all allocation sites convert the "
                  "result to one object type and all free sites pass a pointer of that same type (a tag pushed onto another "
                  "pool's free list would later be handed out with the wrong size)", floor=10)
    for gk, us in sorted(uses.items()):
        types = {}
        for k_, t, fn, w_ in us:
            tt = (t or "?").replace("const ", "").strip()
            types.setdefault(tt, []).append((k_, fn, w_))
            r7.instance("%s %s as %s in %s" % (k_, gk, tt, fn))
        if len(types) != 1:
            minority = sorted(types.items(), key=lambda kv: len(kv[1]))[0]
            rep.finding(r7, minority[1][0][1], "pool:type", "pool %s is used with objects of different types %s" %
                        (gk, sorted(types)), where=m.rel(minority[1][0][2]))
            r7.fail()
        else:
            r7.ok()


def run(tier="quick"):
    models = common.load_models(tier)
    rep = Report(PID, tier, models[0])
    rep.assumptions = ["sizeof(void *) == 8 on the analysed port", "cmi_aligned_alloc returns memory aligned as requested"]
    rep.not_decided = ["behaviour of arbitrary alloc/free histories beyond push/pop symmetry (double free is a caller error)"]
    for m in models:
        rep.configs.append(m.config)
        common.run_rules(rep, m, rules)
    if tier == "thorough":
        second_opinion(rep, models[0])
    return rep.finish()


def second_opinion(rep, m):
    """clang static analyzer unix.Malloc on the pool unit, as a cross-reference (thorough tier)."""
    import subprocess, os
    r = rep.rule("R-C20-1b", "second opinion: clang static analyzer (unix.Malloc) reports no use-after-free in the pool unit",
                 floor=1)
    src = os.path.join(m.repo, "src", "cmi_mempool.c")
    cmd = ["clang", "--analyze", "-Xanalyzer", "-analyzer-checker=unix.Malloc", "-Xanalyzer", "-analyzer-output=text",
           "-std=c17", "-D_POSIX_C_SOURCE=200809L", "-DNDEBUG", "-I" + os.path.join(m.repo, "include"),
           "-I" + os.path.join(m.repo, "src"), src, "-o", "/dev/null"]
    p = subprocess.run(cmd, capture_output=True, text=True)
    warns = [l for l in p.stderr.splitlines() if "warning:" in l]
    r.instance("clang --analyze cmi_mempool.c: %d warning(s)" % len(warns))
    for w in warns:
        if "after it is freed" in w or "Use of memory" in w:
            rep.finding(r, "cmi_mempool_expand", "csa:use-after-free", w.split("warning:")[1].strip(), where=w.split(": warning")[0].replace(m.repo + "/", ""))
            r.fail()
    if not warns:
        r.ok()
