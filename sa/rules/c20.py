"""C20 - Pool-allocated objects are distinct, aligned and stable at any population size."""
import re

from ..astutil import kids, strip, walk, callee_ref, render, loc, int_value, is_null_expr
from ..frontend import AnalysisBroken
from ..report import Report
from ..vals import FuncCtx, assert_condition
from .. import inv
from . import common

PID = "C20"


def realloc_discipline(rep, rule, m, scope_files=None):
    """Every realloc's result is stored back into the lvalue that was passed in, and its size is a byte count."""
    n = 0
    for f in m.funcs.values():
        rel = m.rel(f.file) or ""
        if not rel.startswith(("src/", "include/")):
            continue
        if scope_files and rel not in scope_files:
            continue
        cx = None
        for c in walk(f.body):
            if c["kind"] != "CallExpr" or callee_ref(c) not in ("cmi_realloc", "realloc", "cmi_aligned_realloc"):
                continue
            if f.name in ("cmi_realloc",):
                continue
            cx = cx or FuncCtx(m, f)
            n += 1
            ptr = render(kids(c)[1])
            size = cx.canon(kids(c)[-1])
            # is the call the right-hand side of an assignment / initialiser to the same lvalue?
            stored = None
            for l, r, k, node in inv.stores(f):
                if r is not None and any(y is c for y in walk(r)):
                    stored = render(l)
            for x in walk(f.body):
                if x["kind"] == "VarDecl" and kids(x) and any(y is c for y in walk(kids(x)[0])):
                    stored = x["name"]
            rule.instance("%s: %s = realloc(%s, %s)" % (f.name, stored, ptr, size))
            if stored is None:
                rep.finding(rule, f.name, "realloc:result-discarded", "the result of reallocating '%s' is discarded: the "
                            "block may have moved, so the old pointer dangles" % ptr, where=m.rel(loc(c)))
                rule.fail()
            elif stored != ptr and not f.name.endswith("_realloc"):
                # storing into a temporary is fine if the temporary is then stored back
                back = any(render(r) == stored and render(l) == ptr for l, r, k, node in inv.stores(f) if r is not None)
                if not back:
                    rep.finding(rule, f.name, "realloc:result-elsewhere", "the result of reallocating '%s' is stored in '%s' "
                                "and never back" % (ptr, stored), where=m.rel(loc(c)))
                    rule.fail()
                else:
                    rule.ok()
            else:
                rule.ok()
            if "sizeof(" not in size:
                rep.finding(rule, f.name, "realloc:size-units", "realloc of '%s' is given the size '%s', an element count "
                            "rather than a byte count" % (ptr, size), where=m.rel(loc(c)))
                rule.fail()
            else:
                rule.ok()
    return n


def rules(rep, m):
    mp_files = ("src/cmi_mempool.c", "src/cmi_mempool.h")
    ex = m.need("cmi_mempool_expand")
    ini = m.need("cmi_mempool_initialize")
    al = m.need("cmi_mempool_alloc")
    fr = m.need("cmi_mempool_free")
    tm = m.need("cmi_mempool_terminate")
    r1 = rep.rule("R-C20-1", "the chunk list is grown with a realloc whose result is stored back and whose size is in bytes",
                  floor=1)
    n = realloc_discipline(rep, r1, m, mp_files)
    if n == 0:
        raise AnalysisBroken("no realloc found in the memory pool")

    # R-C20-2 ------------------------------------------------------------
    r2 = rep.rule("R-C20-2", "free-list threading: consecutive objects of a new chunk are obj_sz bytes apart (stride in words "
                  "with obj_sz a multiple of 8), exactly incr_num - 1 links are threaded and the last is NULL, and "
                  "incr_num * obj_sz fits in the chunk that was allocated", floor=3)
    ex_x = FuncCtx(m, ex)
    mp = ex.params[0]["name"]
    allocs = [c for c in walk(ex.body) if c["kind"] == "CallExpr" and callee_ref(c) == "cmi_aligned_alloc"]
    if len(allocs) != 1:
        raise AnalysisBroken("expand: expected one aligned allocation")
    a = [ex_x.canon(z) for z in kids(allocs[0])[1:]]
    r2.instance("chunk = cmi_aligned_alloc(%s)" % ", ".join(a))
    if a[1] != mp + "->incr_sz":
        rep.finding(r2, ex.name, "chunk:size", "a chunk is allocated with %s bytes, not incr_sz" % a[1], where=m.rel(loc(allocs[0])))
        r2.fail()
    else:
        r2.ok()
    loops = [x for x in walk(ex.body) if x["kind"] == "ForStmt"]
    if len(loops) != 1:
        raise AnalysisBroken("expand: expected one threading loop")
    lp = loops[0]
    bound = ex_x.canon(kids(lp)[2])
    start = None
    for x in walk(kids(lp)[0]):
        if x["kind"] == "VarDecl" and kids(x):
            start = (x["name"], int_value(kids(x)[0]))
    body_st = [(render(l), render(r)) for l, r, k, n_ in
               [(kids(y)[0], kids(y)[1], "=", y) for y in walk(kids(lp)[4]) if y["kind"] == "BinaryOperator" and y.get("opcode") == "="]]
    r2.instance("threading loop: from %s while %s: %s" % (start, bound, body_st))
    rep.sample({"rule": "R-C20-2", "loop_bound": bound, "body": body_st})
    okb = start is not None and start[1] == 0 and bound == "(%s < (%s->incr_num - 1))" % (start[0], mp)
    if not okb:
        rep.finding(r2, ex.name, "thread:count", "the threading loop runs from %s while %s; expected incr_num - 1 links" % (start, bound),
                    where=m.rel(loc(lp)))
        r2.fail()
    else:
        r2.ok()
    # *vp = vp + stride; vp = *vp
    cur = None
    stride_ok = False
    for l, r in body_st:
        mm = re.fullmatch(r"\*(\w+)", l)
        if mm:
            cur = mm.group(1)
            mm2 = re.fullmatch(r"\(%s \+ (\w+)\)" % cur, r)
            if mm2:
                sv = mm2.group(1)
                for x in walk(ex.body):
                    if x["kind"] == "VarDecl" and x.get("name") == sv and kids(x):
                        sc = ex_x.canon(kids(x)[0])
                        vt = None
                        for y in walk(ex.body):
                            if y["kind"] == "VarDecl" and y.get("name") == cur:
                                vt = y.get("type")
                        # pointer arithmetic on void ** moves sizeof(void *) = 8 bytes per unit
                        if sc == "(%s->obj_sz / 8)" % mp and vt == "void **":
                            stride_ok = True
                        if sc == "%s->obj_sz" % mp and vt in ("unsigned char *", "char *"):
                            stride_ok = True
    advance = any(l == cur and r == "*" + cur for l, r in body_st) if cur else False
    if not (stride_ok and advance):
        rep.finding(r2, ex.name, "thread:stride", "consecutive free objects are not obj_sz bytes apart (loop body %s)" % body_st,
                    where=m.rel(loc(lp)))
        r2.fail()
    else:
        r2.ok()
    # last link NULL after the loop, first object is the chunk start
    li = inv.stmt_index_containing(ex, lp)
    tail = kids(ex.body)[li + 1:]
    last_null = any(s["kind"] == "BinaryOperator" and s.get("opcode") == "=" and render(kids(s)[0]) == "*" + (cur or "?")
                    and is_null_expr(kids(s)[1]) for s in tail)
    st = {ex_x.canon(l): ex_x.canon(r) for l, r, k, n_ in inv.stores(ex) if r is not None}
    first = st.get(mp + "->next_obj", "").startswith("cmi_aligned_alloc(")
    if not last_null or not first:
        rep.finding(r2, ex.name, "thread:ends", "the free list of a new chunk does not start at the chunk and end in NULL",
                    where=m.rel(ex.where))
        r2.fail()
    else:
        r2.ok()
    ix = FuncCtx(m, ini)
    ist = {ix.canon(l): ix.canon(r) for l, r, k, n_ in inv.stores(ini) if r is not None}
    imp = ini.params[0]["name"]
    r2.instance("initialize: incr_sz = %s; incr_num = %s" % (ist.get(imp + "->incr_sz"), ist.get(imp + "->incr_num")))
    rep.sample({"rule": "R-C20-2", "incr_sz": ist.get(imp + "->incr_sz"), "incr_num": ist.get(imp + "->incr_num")})
    if ist.get(imp + "->incr_num") != "(%s->incr_sz / %s->obj_sz)" % (imp, imp):
        rep.finding(r2, ini.name, "fit", "incr_num = %s is not incr_sz / obj_sz: the objects threaded may not fit the chunk"
                    % ist.get(imp + "->incr_num"), where=m.rel(ini.where))
        r2.fail()
    else:
        r2.ok()
    osz, onum = ini.params[1]["name"], ini.params[2]["name"]
    page = r"(cmi_pagesize\(\)|sysconf\(\w+\))"
    pat = r"\(\(\(\(\(%s \* %s\) \+ %s\) - 1\) / %s\) \* %s\)" % (onum, osz, page, page, page)
    if not re.fullmatch(pat, ist.get(imp + "->incr_sz", "")) or ist.get(imp + "->obj_sz") != osz:
        rep.finding(r2, ini.name, "chunk:rounding", "incr_sz = %s is not obj_num * obj_sz rounded up to whole pages"
                    % ist.get(imp + "->incr_sz"), where=m.rel(ini.where))
        r2.fail()
    else:
        r2.ok()

    # R-C20-3 ------------------------------------------------------------
    r3 = rep.rule("R-C20-3", "alignment: chunks are page-aligned and the object size is release-asserted to be a multiple of "
                  "8 on the one initialisation route (static pools reach it through expand)", floor=2)
    conds = [ix.canon(assert_condition(s)) for s in kids(ini.body) if assert_condition(s) is not None]
    r3.instance("initialize asserts %s" % conds)
    if not any(re.fullmatch(r"\(\(%s %% 8\) == 0\)" % osz, c) for c in conds):
        rep.finding(r3, ini.name, "align:assert", "object size is not release-asserted to be a multiple of 8", where=m.rel(ini.where))
        r3.fail()
    else:
        r3.ok()
    if not re.fullmatch(page, a[0]):
        rep.finding(r3, ex.name, "align:chunk", "chunks are allocated with alignment %s, not the page size" % a[0], where=m.rel(ex.where))
        r3.fail()
    else:
        r3.ok()
    # static pools: registered and initialised in expand before the first allocation
    reg = False
    for x in walk(ex.body):
        if x["kind"] == "IfStmt" and "CMI_THREAD_STATIC" in render(kids(x)[0]) or \
                (x["kind"] == "IfStmt" and re.search(r"cookie == \d+", ex_x.canon(kids(x)[0]))):
            names = [callee_ref(y) for y in walk(kids(x)[1]) if y["kind"] == "CallExpr"]
            if "cmi_slist_push" in names and "cmi_mempool_initialize" in names:
                ic = [y for y in walk(kids(x)[1]) if y["kind"] == "CallExpr" and callee_ref(y) == "cmi_mempool_initialize"][0]
                ia = [ex_x.canon(z) for z in kids(ic)[1:]]
                if ia == [mp, mp + "->obj_sz", mp + "->incr_num"] and \
                        (inv.stmt_index_containing(ex, x) or 0) < (inv.stmt_index_containing(ex, allocs[0]) or 0):
                    reg = True
    r3.instance("static pools registered for clean-up and initialised on first use: %s" % reg)
    if not reg:
        rep.finding(r3, ex.name, "static-init", "statically initialised pools are not initialised (object size check, chunk "
                    "geometry) and registered for clean-up before their first chunk", where=m.rel(ex.where))
        r3.fail()
    else:
        r3.ok()

    # R-C20-4 ------------------------------------------------------------
    r4 = rep.rule("R-C20-4", "push/pop symmetry: alloc pops by following the first word of the head (refilling when empty); "
                  "free pushes by writing the old head into the object's first word and making the object the head; nothing "
                  "else writes the head", floor=5)
    for f, l, r, k, n_ in inv.field_writers(m, "cmi_mempool", "next_obj"):
        r4.instance("%s writes next_obj" % f.name)
        if f.name not in ("cmi_mempool_alloc", "cmi_mempool_free", "cmi_mempool_expand", "cmi_mempool_terminate",
                          "cmi_mempool_initialize"):
            rep.finding(r4, f.name, "head:writer", "%s writes a pool's free-list head" % f.name, where=m.rel(loc(n_)))
            r4.fail()
        else:
            r4.ok()
    ax = FuncCtx(m, al)
    amp = al.params[0]["name"]
    ast_ = [(ax.canon(l), render(r)) for l, r, k, n_ in inv.stores(al) if r is not None]
    rv = [render(kids(x)[0]) for x in walk(al.body) if x["kind"] == "ReturnStmt"]
    refill = any(x["kind"] == "IfStmt" and ax.canon(kids(x)[0]) == "(%s->next_obj == NULL)" % amp and
                 any(callee_ref(y) == "cmi_mempool_expand" for y in walk(kids(x)[1]) if y["kind"] == "CallExpr")
                 for x in walk(al.body))
    pop_ok = False
    opv = None
    for x in walk(al.body):
        if x["kind"] == "VarDecl" and kids(x) and ax.canon(kids(x)[0]) == amp + "->next_obj":
            opv = x["name"]
    if opv:
        pop_ok = (amp + "->next_obj", "*%s" % opv) in ast_ and rv == [opv]
        # the head is read after the refill
        di = next((i for i, s in enumerate(kids(al.body)) for y in walk(s) if y["kind"] == "VarDecl" and y.get("name") == opv), None)
        ri = next((i for i, s in enumerate(kids(al.body)) if s["kind"] == "IfStmt" and "next_obj" in render(kids(s)[0])), None)
        pop_ok = pop_ok and di is not None and ri is not None and ri < di
    r4.instance("alloc: refill when empty %s; pop %s" % (refill, pop_ok))
    rep.sample({"rule": "R-C20-4", "alloc_stores": ast_, "returns": rv})
    if not (refill and pop_ok):
        rep.finding(r4, al.name, "pop", "alloc does not (refill when empty and then) hand out the head and advance to the "
                    "head's first word", where=m.rel(al.where))
        r4.fail()
    else:
        r4.ok()
    fx = FuncCtx(m, fr)
    fmp, fop = fr.params[0]["name"], fr.params[1]["name"]
    fst = [(render(l), render(r)) for l, r, k, n_ in inv.stores(fr) if r is not None]
    r4.instance("free stores %s" % fst)
    want = [("*%s" % fop, "%s->next_obj" % fmp), ("%s->next_obj" % fmp, fop)]
    if fst != want:
        rep.finding(r4, fr.name, "push", "free stores %s; expected the old head into the object's first word, then the object "
                    "as the new head (in this order)" % fst, where=m.rel(fr.where))
        r4.fail()
    else:
        r4.ok()

    # R-C20-5 ------------------------------------------------------------
    r5 = rep.rule("R-C20-5", "chunk list: the slot written for a new chunk is dominated by the capacity test that grows the "
                  "list (length in elements, allocation in bytes); terminate frees every chunk and the list", floor=2)
    grow = None
    for x in walk(ex.body):
        if x["kind"] == "IfStmt":
            c = ex_x.canon(kids(x)[0])
            if re.fullmatch(r"\(\+\+%s->chunk_list_cnt (==|>=) %s->chunk_list_len\)" % (mp, mp), c) or \
                    re.fullmatch(r"\(%s->chunk_list_cnt\+\+ (==|>=) %s->chunk_list_len\)" % (mp, mp), c) or \
                    re.fullmatch(r"\(%s->chunk_list_cnt (==|>=) %s->chunk_list_len\)" % (mp, mp), c):
                if any(y["kind"] == "CallExpr" and callee_ref(y) in ("cmi_realloc", "realloc") for y in walk(kids(x)[1])):
                    grow = x
    slot = [(ex_x.canon(l), n_) for l, r, k, n_ in inv.stores(ex) if "chunk_list[" in ex_x.canon(l)]
    r5.instance("grow test %s; slot store %s" % (ex_x.canon(kids(grow)[0]) if grow else None, [s[0] for s in slot]))
    okg = grow is not None and len(slot) == 1 and slot[0][0] == "%s->chunk_list[(%s->chunk_list_cnt - 1)]" % (mp, mp) and \
        (inv.stmt_index_containing(ex, grow) or 99) < (inv.stmt_index_containing(ex, slot[0][1]) or 0)
    if not okg:
        rep.finding(r5, ex.name, "chunk-list:bounds", "the chunk list slot written is not dominated by a test that grows the "
                    "list when it is full", where=m.rel(ex.where))
        r5.fail()
    else:
        r5.ok()
    lenst = ist.get(imp + "->chunk_list_len")
    lal = ist.get(imp + "->chunk_list")
    if not (lal and re.fullmatch(r"cmi_malloc\(\(%s->chunk_list_len \* sizeof\(void \*\)\)\)" % imp, lal)):
        rep.finding(r5, ini.name, "chunk-list:alloc", "the chunk list is allocated as %s" % lal, where=m.rel(ini.where))
        r5.fail()
    else:
        r5.ok()
    tx = FuncCtx(m, tm)
    tmp_ = tm.params[0]["name"]
    tl = [x for x in walk(tm.body) if x["kind"] == "ForStmt"]
    okt = False
    if len(tl) == 1:
        b = tx.canon(kids(tl[0])[2])
        fc = [tx.canon(kids(y)[1]) for y in walk(tl[0]) if y["kind"] == "CallExpr" and callee_ref(y) == "cmi_aligned_free"]
        okt = re.fullmatch(r"\((\w+) < %s->chunk_list_cnt\)" % tmp_, b) is not None and len(fc) == 1 and \
            re.fullmatch(r"%s->chunk_list\[\w+\]" % tmp_, fc[0]) is not None
        okt = okt and any(callee_ref(y) == "cmi_free" and tx.canon(kids(y)[1]) == tmp_ + "->chunk_list"
                          for y in walk(tm.body) if y["kind"] == "CallExpr")
    r5.instance("terminate frees every chunk and the list: %s" % okt)
    if not okt:
        rep.finding(r5, tm.name, "terminate", "terminate does not free chunks [0, cnt) and the list", where=m.rel(tm.where))
        r5.fail()
    else:
        r5.ok()


def run(tier="quick"):
    models = common.load_models(tier)
    rep = Report(PID, tier, models[0])
    rep.assumptions = ["sizeof(void *) == 8 on the analysed port", "cmi_aligned_alloc returns memory aligned as requested"]
    rep.not_decided = ["behaviour of arbitrary alloc/free histories beyond push/pop symmetry (double free is a caller error)"]
    for m in models:
        rep.configs.append(m.config)
        rules(rep, m)
    if tier == "thorough":
        second_opinion(rep, models[0])
    return rep.finish()


def second_opinion(rep, m):
    """clang static analyzer unix.Malloc on the pool unit, as a cross-reference (thorough tier)."""
    import subprocess, os
    r = rep.rule("R-C20-1b", "second opinion: clang static analyzer (unix.Malloc) reports no use-after-free in the pool unit",
                 floor=1)
    src = os.path.join(m.repo, "src", "cmi_mempool.c")
    cmd = ["clang", "--analyze", "-Xanalyzer", "-analyzer-checker=unix.Malloc", "-Xanalyzer", "-analyzer-output=text",
           "-std=c17", "-D_POSIX_C_SOURCE=200809L", "-DNDEBUG", "-I" + os.path.join(m.repo, "include"),
           "-I" + os.path.join(m.repo, "src"), src, "-o", "/dev/null"]
    p = subprocess.run(cmd, capture_output=True, text=True)
    warns = [l for l in p.stderr.splitlines() if "warning:" in l]
    r.instance("clang --analyze cmi_mempool.c: %d warning(s)" % len(warns))
    for w in warns:
        if "after it is freed" in w or "Use of memory" in w:
            rep.finding(r, "cmi_mempool_expand", "csa:use-after-free", w.split("warning:")[1].strip(), where=w.split(": warning")[0].replace(m.repo + "/", ""))
            r.fail()
    if not warns:
        r.ok()
