"""C08 - No lost wake-ups: nobody stays blocked while its demand can be met."""
import re

from ..astutil import kids, strip, walk, callee_ref, render, loc
from ..frontend import AnalysisBroken
from ..report import Report
from ..vals import FuncCtx
from ..engines import region
from .. import inv
from . import common, regionrules

PID = "C08"


def rules(rep, m):
    res = region.analyse(m)
    SIG = common.signal_table(m)
    # R-C08-1 ------------------------------------------------------------
    r1 = rep.rule("R-C08-1", "in every atomic region of every function of the five guard-based classes, a state "
                  "change in the direction that can satisfy a guard's demand (table derived from the registered "
                  "demand functions) is followed by cmb_resourceguard_signal on that guard before the region ends",
                  floor=14)
    ev = {}
    for root, obj, direction, what in res["events"]:
        if re.search(r"_(initialize|terminate|create|destroy|reset)$", root):
            continue
        ev.setdefault((root, direction), set()).add(what)
    for (root, d), whats in sorted(ev.items()):
        r1.instance("%s: %s (%d site(s))" % (root, d, len(whats)))
    n = regionrules.file_findings(rep, r1, res, "R-C08-1")
    r1.obligations += len(ev)
    bad_roots = {fd.func for fd in res["findings"] if fd.rule == "R-C08-1"}
    r1.discharged += len([1 for (root, d) in ev if root not in bad_roots])
    for cls, dm in res["demands"].items():
        for g, lst in dm.items():
            for waiter, dfn, fields in lst:
                rep.sample({"rule": "R-C08-1", "class": cls, "guard": g, "waiter": waiter, "demand": dfn,
                            "reads": fields, "enabled_by": region.CLASSES[cls]["guards"][g]})
    r1.notes.append(regionrules.roots_summary(res))
    r1.notes.append("%d region ends checked" % len(res["region_ends"]))

    # R-C08-2 ------------------------------------------------------------
    r2 = rep.rule("R-C08-2", "every wait on a guard is inside a loop that re-tests the state after a successful "
                  "return (a grant is only a wake-up; the state may have been taken in the same instant)", floor=8)
    for f, call in inv.calls_to(m, "cmb_resourceguard_wait"):
        if f.name == "cmb_condition_wait":
            # conditions document spurious wake-ups: the user loops on the predicate
            r2.instance("%s: user-level wait (spurious wake-ups documented)" % f.name)
            r2.ok()
            continue
        r2.instance("%s waits on %s" % (f.name, render(kids(call)[1])))
        loops = [a for a in inv.enclosing_chain(f, call) if a["kind"] in ("WhileStmt", "ForStmt", "DoStmt")]
        if not loops:
            rep.finding(r2, f.name, "wait-not-in-loop", "%s acts on a grant without re-testing the state in a loop"
                        % f.name, where=m.rel(loc(call)))
            r2.fail()
            continue
        # on the success path control must return to the loop head: no return/break whose guard says SUCCESS
        cx = FuncCtx(m, f)
        ok = True
        res_var = None
        for a in inv.enclosing_chain(f, call):
            if a["kind"] == "VarDecl":
                res_var = a.get("name")
        for x in walk(loops[-1]):
            if x["kind"] == "IfStmt" and res_var:
                c = cx.canon(kids(x)[0]) if False else render(kids(x)[0])
                if re.fullmatch(r"\(%s == 0\)" % re.escape(res_var), c.replace("CMB_PROCESS_SUCCESS", "0")):
                    if any(y["kind"] in ("ReturnStmt", "BreakStmt") for y in walk(kids(x)[1])):
                        ok = False
        if not ok:
            rep.finding(r2, f.name, "success-leaves-loop", "%s leaves its retry loop directly on a successful wait"
                        % f.name, where=m.rel(loc(call)))
            r2.fail()
        else:
            r2.ok()

    # R-C08-3 ------------------------------------------------------------
    r3 = rep.rule("R-C08-3", "a waiter that leaves cmb_resourceguard_wait with a signal other than success removes "
                  "itself from the queue, and if it had already been taken off (grant pending) withdraws the pending "
                  "wake-up and signals the guard again so the grant is passed on", floor=1)
    w = m.need("cmb_resourceguard_wait")
    wcx = FuncCtx(m, w)
    ylds = [n for n in walk(w.body) if n["kind"] == "CallExpr" and callee_ref(n) == "cmi_coroutine_yield"]
    if len(ylds) != 1:
        raise AnalysisBroken("cmb_resourceguard_wait: expected exactly one yield")
    yi = inv.stmt_index_containing(w, ylds[0])
    after = kids(w.body)[yi + 1:]
    found_cancel = found_handover = found_withdraw = False
    for s in after:
        if s["kind"] != "IfStmt":
            continue
        c = wcx.canon(kids(s)[0])
        if "!=" in c and ("NULL" in c or " 0)" in c):      # sig != SUCCESS
            body = kids(s)[1]
            for x in walk(body):
                if x["kind"] == "CallExpr":
                    nm = callee_ref(x)
                    if nm in ("cmi_hashheap_cancel", "cmi_hashheap_remove"):
                        found_cancel = True
                    if nm == "cmb_resourceguard_signal" and wcx.canon(kids(x)[1]) == w.params[0]["name"]:
                        found_handover = True
                    if nm == "cmb_event_pattern_cancel":
                        found_withdraw = True
    r3.instance("abnormal exit: dequeue self=%s, withdraw pending wake-up=%s, pass grant on=%s"
                % (found_cancel, found_withdraw, found_handover))
    rep.sample({"rule": "R-C08-3", "cancel": found_cancel, "withdraw": found_withdraw, "handover": found_handover})
    for ok, key, msg in ((found_cancel, "leave:no-dequeue", "a waiter leaving for another reason stays in the waiting list"),
                         (found_withdraw, "leave:no-withdraw", "a pending grant wake-up is not withdrawn when the waiter "
                          "leaves for another reason: it later resumes the process out of an unrelated wait"),
                         (found_handover, "leave:no-handover", "a grant made to a waiter that leaves for another reason in "
                          "the same instant is not passed on to the next waiter")):
        if ok:
            r3.ok()
        else:
            rep.finding(r3, w.name, key, msg, where=m.rel(w.where))
            r3.fail()

    # R-C08-4 ------------------------------------------------------------
    r4 = rep.rule("R-C08-4", "interrupting, stopping or ending a process removes it from every waiting list: the "
                  "unwinding routine handles the RESOURCE awaitable by removing the process from that guard", floor=1)
    ca = m.need("cmi_process_cancel_awaiteds")
    ccx = FuncCtx(m, ca)
    ok = False
    for x in walk(ca.body):
        if x["kind"] == "IfStmt" and "CMI_PROCESS_AWAITABLE_RESOURCE" in ccx.canon(kids(x)[0]):
            for y in walk(kids(x)[1]):
                if y["kind"] == "CallExpr" and callee_ref(y) in ("cmb_resourceguard_remove", "cmb_resourceguard_cancel"):
                    a = [ccx.canon(z) for z in kids(y)[1:]]
                    if a[1] == ca.params[0]["name"] and a[0].endswith("->ptr"):
                        ok = True
    r4.instance("cancel_awaiteds removes the process from its guard: %s" % ok)
    if not ok:
        rep.finding(r4, ca.name, "unwind:resource", "a process waiting on a guard is not removed from the waiting "
                    "list when it is interrupted / stopped / ends", where=m.rel(ca.where))
        r4.fail()
    else:
        r4.ok()


def run(tier="quick"):
    models = common.load_models(tier)
    rep = Report(PID, tier, models[0])
    rep.assumptions = ["demand predicates are pure functions of the state fields in the class table (cross-checked "
                       "for the built-in demand functions; user predicates for conditions are out of scope)",
                       "user callbacks do not yield inside library regions"]
    rep.not_decided = ["same-instant races between a grant and a timeout beyond the hand-over rule R-C08-3",
                       "liveness of the guard's own queue order (C06)"]
    for m in models:
        rep.configs.append(m.config)
        rules(rep, m)
    return rep.finish()
