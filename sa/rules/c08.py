"""C08 - No lost wake-ups: nobody stays blocked while its demand can be met."""
import re

from ..astutil import kids, strip, walk, callee_ref, render, loc
from ..frontend import AnalysisBroken
from ..report import Report
from ..vals import FuncCtx
from ..engines import region
from ..engines import trace as TR
from .. import inv
from . import common, regionrules

PID = "C08"


def guard_leave_rule(rep, r3, m, dequeue_only=False):
    """The unwinding of cmb_resourceguard_wait after the resume (shared: R-C08-3, and its dequeue clause R-C13-7)."""
    w = m.need("cmb_resourceguard_wait")
    rg = w.params[0]["name"]
    paths = {"n": 0}

    def after_resume(dom, flow, st, tr, why, where, ev):
        if not tr or tr[0][0] != "resume" or not why.startswith("return"):
            return
        # classify the path by the branch facts taken after the resume
        # the set of resume codes this path can be taken with, from its tests of the yielded value (any comparison)
        tests = []
        for e in tr:
            if e[0] != "assume":
                continue
            mm = re.fullmatch(r"\(cmi_coroutine_yield\(NULL\) (!=|==|<|<=|>|>=) (\S+)\)", e[1])
            flip = False
            if not mm:
                mm2 = re.fullmatch(r"\((\S+) (!=|==|<|<=|>|>=) cmi_coroutine_yield\(NULL\)\)", e[1])
                if mm2:
                    mm, flip = mm2, True
            if not mm:
                continue
            op, tok = (mm.group(1), mm.group(2)) if not flip else (mm.group(2), mm.group(1))
            k = 0 if tok == "NULL" else common.sigval(tok)
            if k is None:
                continue
            if flip:
                op = {"<": ">", ">": "<", "<=": ">=", ">=": "<="}.get(op, op)
            tests.append((op, k, bool(e[2])))
        if not tests:
            raise AnalysisBroken("cmb_resourceguard_wait: cannot find the test of the resume signal")
        import operator
        OPS = {"!=": operator.ne, "==": operator.eq, "<": operator.lt, "<=": operator.le, ">": operator.gt, ">=": operator.ge}
        cands = set(range(-8, 3)) | {17, 1 << 40, -(1 << 40)}
        for _, k, _t in tests:
            cands |= {k - 1, k, k + 1}
        allowed = {v for v in cands if all(OPS[op](v, k) == t for op, k, t in tests)}
        # a path that admits any code besides success has the obligations of an abnormal exit
        succ = allowed <= {0}
        calls = [e for e in tr if e[0] == "call"]
        names = [c[1] for c in calls]
        paths["n"] += 1
        if succ:
            return
        canc = [c for c in calls if c[1] in ("cmi_hashheap_cancel", "cmi_hashheap_remove") and
                (c[2][0] == rg or common.same_object(m, c[2][0], rg))]
        r3.instance("abnormal exit path: %s" % " ; ".join(TR.fmt(tr, 8)))
        if not canc:
            rep.finding(r3, w.name, "leave:no-dequeue", "a waiter leaving for another reason stays in the waiting list",
                        where=where)
            r3.fail()
            return
        r3.ok()
        if dequeue_only:
            return
        # was the process still queued?  (the cancel's result)
        still = None
        for e in tr:
            if e[0] == "assume" and e[1] in (canc[0][5], "!" + canc[0][5]):
                still = e[2]
        if still is None:
            # result ignored: treat as 'maybe not queued', the obligations below apply
            still = False
        if still:
            return
        # the withdrawal covers every wake-up the guard can have sent the process (a grant with the success code, a
        # cancellation with the cancelled code): the value slot is the wildcard
        withdraw = any(c[1] == "cmb_event_pattern_cancel" and len(c[2]) >= 3 and c[2][1] == "cmb_process_current()" and
                       re.search(r"18446744073709551615|ANY|^-1$", c[2][2]) for c in calls)
        narrow = [c for c in calls if c[1] == "cmb_event_pattern_cancel" and len(c[2]) >= 3 and c[2][1] == "cmb_process_current()"
                  and not re.search(r"18446744073709551615|ANY|^-1$", c[2][2])]
        handover = any(c[1] == "cmb_resourceguard_signal" and c[2][0] == rg for c in calls)
        rep.sample({"rule": "R-C08-3", "path": TR.fmt(tr, 10), "withdraw": withdraw, "handover": handover})
        if not withdraw and narrow:
            rep.finding(r3, w.name, "leave:withdraw-narrow", "on a path where the leaving waiter was no longer queued the pending "
                        "wake-up is withdrawn only if it carries the value %s: a wake-up sent with another code in the same "
                        "instant (a cancellation of the waiter that coincides with its time-out) stays scheduled and resumes "
                        "the process out of an unrelated wait" % narrow[0][2][2], where=where)
            r3.fail()
        elif not withdraw:
            rep.finding(r3, w.name, "leave:no-withdraw", "on a path where the leaving waiter was no longer queued (grant "
                        "pending) the pending wake-up is not withdrawn: it later resumes the process out of an unrelated "
                        "wait", where=where)
            r3.fail()
        else:
            r3.ok()
        if not handover:
            rep.finding(r3, w.name, "leave:no-handover", "on a path where the leaving waiter was no longer queued the "
                        "guard is not signalled again: a grant made to it in the same instant is lost instead of being "
                        "passed to the next waiter (path: %s)" % " ; ".join(TR.fmt(tr, 6)), where=where)
            r3.fail()
        else:
            r3.ok()

    TR.run_traces(m, w, after_resume)
    if paths["n"] < 2:
        raise AnalysisBroken("cmb_resourceguard_wait: fewer than two paths after the resume")



def rules(rep, m):
    res = region.analyse(m)
    SIG = common.signal_table(m)
    # R-C08-1 ------------------------------------------------------------
    r1 = rep.rule("R-C08-1", "in every atomic region of every function of the five guard-based classes, a state "
                  "change in the direction that can satisfy a guard's demand (table derived from the registered "
                  "demand functions) is followed by cmb_resourceguard_signal on that guard before the region ends",
                  floor=14)
    ev = {}
    for root, obj, direction, what in res["events"]:
        if re.search(r"_(initialize|terminate|create|destroy|reset)$", root):
            continue
        ev.setdefault((root, direction), set()).add(what)
    for (root, d), whats in sorted(ev.items()):
        r1.instance("%s: %s (%d site(s))" % (root, d, len(whats)))
    n = regionrules.file_findings(rep, r1, res, "R-C08-1")
    r1.obligations += len(ev)
    bad_roots = {fd.func for fd in res["findings"] if fd.rule == "R-C08-1"}
    r1.discharged += len([1 for (root, d) in ev if root not in bad_roots])
    for cls, dm in res["demands"].items():
        for g, lst in dm.items():
            for waiter, dfn, fields in lst:
                rep.sample({"rule": "R-C08-1", "class": cls, "guard": g, "waiter": waiter, "demand": dfn,
                            "reads": fields, "enabled_by": region.CLASSES[cls]["guards"][g]})
    r1.notes.append(regionrules.roots_summary(res))
    r1.notes.append("%d region ends checked" % len(res["region_ends"]))

    # R-C08-2 ------------------------------------------------------------
    r2 = rep.rule("R-C08-2", "every wait on a guard is inside a loop that re-tests the state after a successful "
                  "return (a grant is only a wake-up; the state may have been taken in the same instant)", floor=8)
    for f, call in inv.calls_to(m, "cmb_resourceguard_wait"):
        if f.name == "cmb_condition_wait":
            # conditions document spurious wake-ups: the user loops on the predicate
            r2.instance("%s: user-level wait (spurious wake-ups documented)" % f.name)
            r2.ok()
            continue
        r2.instance("%s waits on %s" % (f.name, render(kids(call)[1])))
        loops = [a for a in inv.enclosing_chain(f, call) if a["kind"] in ("WhileStmt", "ForStmt", "DoStmt")]
        if not loops:
            rep.finding(r2, f.name, "wait-not-in-loop", "%s acts on a grant without re-testing the state in a loop"
                        % f.name, where=m.rel(loc(call)))
            r2.fail()
            continue
        # on the success path control must return to the loop head: no return/break whose guard says SUCCESS
        cx = FuncCtx(m, f)
        ok = True
        res_var = None
        for a in inv.enclosing_chain(f, call):
            if a["kind"] == "VarDecl":
                res_var = a.get("name")
        for x in walk(loops[-1]):
            if x["kind"] == "IfStmt" and res_var:
                c = cx.canon(kids(x)[0]) if False else render(kids(x)[0])
                if re.fullmatch(r"\(%s == 0\)" % re.escape(res_var), c.replace("CMB_PROCESS_SUCCESS", "0")):
                    if any(y["kind"] in ("ReturnStmt", "BreakStmt") for y in walk(kids(x)[1])):
                        ok = False
        if not ok:
            rep.finding(r2, f.name, "success-leaves-loop", "%s leaves its retry loop directly on a successful wait"
                        % f.name, where=m.rel(loc(call)))
            r2.fail()
        else:
            r2.ok()

    # R-C08-3 ------------------------------------------------------------
    r3 = rep.rule("R-C08-3", "a waiter that leaves cmb_resourceguard_wait with a signal other than success removes "
                  "itself from the queue, and if it had already been taken off (grant pending) withdraws the pending "
                  "wake-up and signals the guard again so the grant is passed on", floor=1)
    guard_leave_rule(rep, r3, m)

    # R-C08-4 ------------------------------------------------------------
    r4 = rep.rule("R-C08-4", "interrupting, stopping or ending a process removes it from every waiting list: the "
                  "unwinding routine handles the RESOURCE awaitable by removing the process from that guard", floor=1)
    ca = m.need("cmi_process_cancel_awaiteds")
    ccx = FuncCtx(m, ca)
    ok = False
    for x in walk(ca.body):
        if x["kind"] == "IfStmt" and "CMI_PROCESS_AWAITABLE_RESOURCE" in ccx.canon(kids(x)[0]):
            for y in walk(kids(x)[1]):
                if y["kind"] == "CallExpr" and callee_ref(y) in ("cmb_resourceguard_remove", "cmb_resourceguard_cancel"):
                    a = [ccx.canon(z) for z in kids(y)[1:]]
                    if a[1] == ca.params[0]["name"] and a[0].endswith("->ptr"):
                        ok = True
    r4.instance("cancel_awaiteds removes the process from its guard: %s" % ok)
    if not ok:
        rep.finding(r4, ca.name, "unwind:resource", "a process waiting on a guard is not removed from the waiting "
                    "list when it is interrupted / stopped / ends", where=m.rel(ca.where))
        r4.fail()
    else:
        r4.ok()


    # R-C08-5 ------------------------------------------------------------
    r5 = rep.rule("R-C08-5", "when a process that may itself be blocked is ended (stop), it is removed from every "
                  "waiting list and its pending events are cancelled *before* its holdings are dropped: dropping signals "
                  "the guards, and a grant made to the ending process would be lost", floor=1)
    stop_ordering(rep, r5, m)

    config_rule(rep, m)
    demand_rule(rep, m)

    # R-C08-6 ------------------------------------------------------------
    r6 = rep.rule("R-C08-6", "a signal wakes only the first waiter: a process that is served from availability of several "
                  "units and returns with success passes what is left on to the next waiter of its own kind - on every "
                  "success return of a multi-unit take (buffer put / get, pool acquire) the guard the caller itself waits at "
                  "is signalled again, unconditionally or under 'something is left'", floor=3)
    # 'something is left' for the caller's own kind, as a predicate on (amount field, capacity): the extra condition of the
    # signal must hold in every state where something is left (it is evaluated, not matched: any spelling is accepted)
    SIGNAL_ON = (("cmb_buffer_put", "rear_guard", "level", lambda lv, cap: lv < cap),
                 ("cmb_buffer_get", "front_guard", "level", lambda lv, cap: lv > 0),
                 ("cmi_pool_acquire_inner", "guard", "in_use", lambda lv, cap: lv < cap))

    def holds_whenever_left(cond, field, left):
        e = re.sub(r"[A-Za-z_]\w*->%s\b" % field, " AMT ", cond)
        e = re.sub(r"[A-Za-z_]\w*->capacity\b", " CAP ", e)
        e = e.replace("&&", " and ").replace("||", " or ")
        e = re.sub(r"!(?!=)", " not ", e)
        e = re.sub(r"(?<=\d)[uUlL]+\b", "", e)
        if not re.fullmatch(r"[\sAMTCP()<>=!+\-*\dandortn]*", e) or re.search(r"[A-Za-z_]\w*", re.sub(r"\b(AMT|CAP|and|or|not)\b", "", e)):
            return None
        for cap in (1, 2, 5, 100, 2 ** 64 - 1):
            for amt in sorted({0, 1, cap // 2, cap - 1, cap}):
                if amt > cap or not left(amt, cap):
                    continue
                try:
                    v = eval(e, {"__builtins__": {}}, {"AMT": amt, "CAP": cap})
                except Exception:
                    return None
                if not v:
                    return False
        return True
    for fn, gname, field, left in SIGNAL_ON:
        f = m.need(fn)
        fx = FuncCtx(m, f)
        waits_here = [c for c in walk(f.body) if c["kind"] == "CallExpr" and callee_ref(c) == "cmb_resourceguard_wait" and
                      fx.canon(kids(c)[1]).endswith(gname)]
        if not waits_here:
            raise AnalysisBroken("%s does not wait at '%s'" % (fn, gname))
        sigs = [c for c in walk(f.body) if c["kind"] == "CallExpr" and callee_ref(c) == "cmb_resourceguard_signal" and
                fx.canon(kids(c)[1]).endswith(gname)]
        rets = [y for y in walk(f.body) if y["kind"] == "ReturnStmt" and kids(y) and common.sigval(fx.canon(kids(y)[0])) == 0]
        for rt in rets:
            rc = inv.dominating_conditions(fx, f, rt)
            ok = False
            order = {id(y): i for i, y in enumerate(walk(f.body))}
            for sg in sigs:
                sc = inv.dominating_conditions(fx, f, sg)
                extra = [cd for cd in sc if cd not in rc]
                if all(cd in sc for cd in rc) and all(holds_whenever_left(cd, field, left) is True for cd in extra) and \
                        order[id(sg)] < order[id(rt)]:
                    ok = True
            r6.instance("%s: success return at line %s hands leftovers on to '%s': %s" % (fn, rt.get("line") or (loc(rt) or "").split(":")[-1], gname, ok))
            if not ok:
                rep.finding(r6, fn, "handover:leftover:" + gname, "%s returns success without signalling '%s', the guard its own kind "
                            "waits at: the signal that woke it reached only the first waiter, so when it leaves units (space) "
                            "behind, the next waiter of the same kind stays blocked although it could be served"
                            % (fn, gname), where=m.rel(loc(rt)))
                r6.fail()
            else:
                r6.ok()


def config_rule(rep, m):
    r7 = rep.rule("R-C08-7", "signals are sent in every documented build configuration: no guard signal (or any other state-"
                  "changing call) sits inside the condition of an assertion or among the arguments of a logging call, which "
                  "NDEBUG / NASSERT / NLOGINFO compile out", floor=1)
    common.config_effects_rule(rep, r7, m, consequence=" - with the flag set the signal is never sent and the first waiter stays "
                               "blocked although its demand can be met")


def _bool_env_eval(text, env):
    """Evaluate a canonical C condition over small integers; None when it mentions something outside `env`."""
    t = text
    names = sorted(env, key=len, reverse=True)
    for i, nm in enumerate(names):
        t = t.replace(nm, " __v%d__ " % i)
    t = t.replace("NULL", " 0 ")
    t = re.sub(r"(?<=\d)[uU][lL]*", "", t)
    t = t.replace("&&", " and ").replace("||", " or ")
    t = re.sub(r"!(?!=)", " not ", t)
    if re.search(r"[A-Za-z_](?<!__v)\w*", re.sub(r"__v\d+__|\band\b|\bor\b|\bnot\b", "", t)):
        return None
    if not re.fullmatch(r"[\s\w()<>=!+\-*]*", t):
        return None
    try:
        return bool(eval(t, {"__builtins__": {}}, {"__v%d__" % i: env[nm] for i, nm in enumerate(names)}))
    except Exception:
        return None


def _state_ok(env, obj):
    """states of a guarded object: the amount in use / the level / the length never exceeds the capacity"""
    cap = env.get("%s->capacity" % obj)
    if cap is None:
        return True
    return all(v <= cap for k, v in env.items()
               if k in ("%s->in_use" % obj, "%s->level" % obj, "%s->length" % obj, "%s->queue.heap_count" % obj))


def demand_rule(rep, m):
    """R-C08-8: the demand a waiter registers covers the condition it waits for."""
    import itertools
    r8 = rep.rule("R-C08-8", "the demand function registered with a wait is true whenever the condition the caller waits under "
                  "is false: for every state of the object's fields, 'not (conditions that dominate the wait)' implies the "
                  "demand (decided by enumeration over small field values; a waiter whose demand can be false while it could "
                  "go on is passed over by the signal that was meant for it - a lost wake-up)", floor=6)
    for f, c in inv.calls_to(m, "cmb_resourceguard_wait"):
        rel = m.rel(f.file) or ""
        if not rel.startswith(("src/", "include/")):
            continue
        cx = FuncCtx(m, f)
        g_arg, d_arg = cx.canon(kids(c)[1]), cx.canon(kids(c)[2])
        mm = re.fullmatch(r"&\(?(\w+)\)?->\w+", g_arg)
        dn = d_arg.lstrip("&")
        dk = m.resolve(f.unit, dn) if dn.isidentifier() else None
        g = m.funcs.get(dk) if dk else None
        if g is None or not mm:
            r8.notes.append("%s: demand %s is not a named function of the library (forwarded from the caller)" % (f.name, d_arg))
            continue
        obj = mm.group(1)
        gx = FuncCtx(m, g)
        rets = [gx.canon(kids(x)[0]) for x in walk(g.body) if x["kind"] == "ReturnStmt" and kids(x)]
        if len(rets) != 1 or not g.params:
            r8.notes.append("%s: demand %s has %d return statements" % (f.name, dn, len(rets)))
            continue
        dtext = re.sub(r"\b%s->" % re.escape(g.params[0]["name"]), obj + "->", rets[0])
        W = [cd for cd in inv.dominating_conditions(cx, f, c) if (obj + "->") in cd]
        r8.instance("%s waits at %s under %s with demand %s: %s" % (f.name, g_arg, W, dn, dtext))
        if not W:
            r8.notes.append("%s: no state condition dominates the wait" % f.name)
            continue
        fields = sorted(set(re.findall(r"%s->[\w.]+" % re.escape(obj), " ".join(W) + " " + dtext)), key=len, reverse=True)
        others = sorted(set(re.findall(r"\b[A-Za-z_]\w*\b", re.sub(r"%s->[\w.]+" % re.escape(obj), "", " ".join(W) + " " + dtext)))
                        - {"NULL"})
        bad = None
        decided = True
        dom_f = (0, 1, 2, 3)
        dom_o = (1, 2, 3)            # a claim that is waited for is at least one unit
        if len(fields) + len(others) > 6:
            decided = False
        else:
            for vals in itertools.product(*([dom_f] * len(fields) + [dom_o] * len(others))):
                env = dict(zip(fields + others, vals))
                ws = [_bool_env_eval(w_, env) for w_ in W]
                dv = _bool_env_eval(dtext, env)
                if dv is None or any(w_ is None for w_ in ws):
                    decided = False
                    break
                if not _state_ok(env, obj):
                    continue
                # unsigned differences that would wrap are not states of the object
                if any(env[a_] < env[b_] for a_, b_ in re.findall(r"\((%s->[\w.]+) - (%s->[\w.]+)\)" % (re.escape(obj), re.escape(obj)),
                                                                   " ".join(W) + " " + dtext) if a_ in env and b_ in env):
                    continue
                if not all(ws) and not dv:
                    bad = env
                    break
        if not decided:
            r8.notes.append("%s: the wait condition / demand %s is not a plain condition on the object's fields" % (f.name, dn))
            continue
        # the guard waited at is the one that is signalled when the demand can become true: the class table says in which
        # direction a change of the state field serves each guard (front: up, rear: down, resource: holder becomes NULL);
        # the demand may turn from false to true only through a change in that direction
        gname = re.fullmatch(r"&\(?\w+\)?->(\w+)", g_arg).group(1)
        cls = next((c_ for c_, inf in region.CLASSES.items() if inf["unit"] == rel or inf["header"] == rel), None)
        direction = region.CLASSES[cls]["guards"].get(gname) if cls else None
        if direction is not None and bad is None:
            inf = region.CLASSES[cls]
            main = [fl for fl in fields if fl in ("%s->%s" % (obj, inf["field"]), "%s->%s.heap_count" % (obj, inf["field"]))
                    or any(fl == "%s->%s" % (obj, a_) for a_ in inf.get("also", []))]
            wrong = None
            if main and len(fields) + len(others) <= 6:
                for vals in itertools.product(*([dom_f] * len(fields) + [dom_o] * len(others))):
                    env = dict(zip(fields + others, vals))
                    if not _state_ok(env, obj) or _bool_env_eval(dtext, env):
                        continue
                    for fl in main:
                        for nv in dom_f:
                            if nv == env[fl]:
                                continue
                            env2 = dict(env)
                            env2[fl] = nv
                            if not _state_ok(env2, obj) or not _bool_env_eval(dtext, env2):
                                continue
                            served = (direction == "up" and nv > env[fl]) or (direction == "down" and nv < env[fl]) or \
                                (direction == "null" and nv == 0)
                            if not served:
                                wrong = (fl, env[fl], nv)
                                break
                        if wrong:
                            break
                    if wrong:
                        break
            r8.instance("%s: demand %s at %s, which is signalled when %s goes %s" % (f.name, dn, gname, inf["field"], direction))
            if wrong:
                rep.finding(r8, f.name, "demand:wrong-guard", "%s waits at %s, the guard that is signalled when %s goes '%s', with the "
                            "demand %s (%s), which becomes true when %s changes from %s to %s: the signals that could satisfy the "
                            "waiter go to the other guard and it is never woken" %
                            (f.name, g_arg, inf["field"], direction, dn, dtext, wrong[0], wrong[1], wrong[2]), where=m.rel(loc(c)))
                r8.fail()
            else:
                r8.ok()
        if bad is not None:
            rep.finding(r8, f.name, "demand:does-not-cover", "%s waits at %s while %s, but registers the demand %s (%s): in the state "
                        "%s the caller could go on and the demand is false, so a signal sent in that state passes the waiter over"
                        % (f.name, g_arg, " and ".join(W), dn, dtext, {k_: v_ for k_, v_ in bad.items()}), where=m.rel(loc(c)))
            r8.fail()
        else:
            r8.ok()


def stop_ordering(rep, rule, m):
    """Shared by C08 and C09: unwind a possibly blocked process before dropping its holdings."""
    r5 = rule
    for f in m.funcs.values():
        cx = None
        ca_ = [c for c in walk(f.body) if c["kind"] == "CallExpr" and callee_ref(c) == "cmi_process_cancel_awaiteds"]
        dr_ = [c for c in walk(f.body) if c["kind"] == "CallExpr" and callee_ref(c) == "cmi_process_drop_resources"]
        if not dr_:
            continue
        cx = FuncCtx(m, f)
        for d in dr_:
            who = cx.canon(kids(d)[1])
            r5.instance("%s drops the holdings of %s" % (f.name, who))
            if who == "cmb_process_current()":
                r5.ok()            # the running process is in no waiting list
                continue
            before = [c for c in ca_ if cx.canon(kids(c)[1]) == who and inv.executes_before(f, c, d)]
            if not before:
                rep.finding(r5, f.name, "drop-before-unwind", "%s drops the holdings of %s before removing it from its "
                            "waiting lists: the freed units can be granted to the process that is being ended and are "
                            "then lost for the next waiter" % (f.name, who), where=m.rel(loc(d)))
                r5.fail()
            else:
                r5.ok()




def run(tier="quick"):
    models = common.load_models(tier)
    rep = Report(PID, tier, models[0])
    rep.assumptions = ["demand predicates are pure functions of the state fields in the class table (cross-checked "
                       "for the built-in demand functions; user predicates for conditions are out of scope)",
                       "user callbacks do not yield inside library regions"]
    rep.not_decided = ["same-instant races between a grant and a timeout beyond the hand-over rule R-C08-3",
                       "liveness of the guard's own queue order (C06)"]
    for m in models:
        rep.configs.append(m.config)
        common.run_rules(rep, m, rules)
    return rep.finish()
