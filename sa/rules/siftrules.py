"""Exhaustive check of one round of the hashheap's sift loops (hole style: a working copy of the moving tag sits in
the scratch slot heap_count + 1, tags are pulled into the hole).

heap_down: positions K (hole), L = 2k, R = 2k + 1, W (working copy).  Over which children exist (in the heap, exactly
the last slot, beyond it) and all strict orders of (W, L, R) under the installed comparator 'x goes before y' (ties
between distinct entries do not occur: every installable comparator is total on distinct keys, R-C02-1):
  - the loop runs exactly when a left child exists,
  - the child pulled up is an existing child that the other existing child does not go before,
  - the round stops only if no existing child goes before W, and pulls a child up only if W does not go before it,
  - the hole moves to the position the child came from, no slot beyond heap_count is read.
heap_up: positions K, P = k / 2, W: the loop runs exactly when a parent exists; the parent is pulled down iff W goes
before it.  After either loop the working copy is stored into the hole.
Shared by C02 (the container), C01 / C06 / C12 (the orders built on it).
"""
import itertools
import re

from ..astutil import kids, strip, walk, callee_ref, render, loc
from ..frontend import AnalysisBroken
from ..vals import FuncCtx, is_assert_stmt


def _norm(t):
    return re.sub(r"[\s()]", "", re.sub(r"(?<=\d)[uU][lL]*\b", "", t))


class _Stop(Exception):
    pass


class HoleSift:
    def __init__(self, m, f):
        self.m, self.f = m, f
        self.cx = FuncCtx(m, f)
        self.k = f.params[1]["name"]
        self.hp = f.params[0]["name"]

    # -- one abstract round -----------------------------------------------------------
    def round(self, body, env, where, rank):
        self.env = dict(env)
        self.where, self.rank = where, rank
        self.moves = []
        self.new_hole = None
        self.oob = None
        self.stopped = False
        try:
            self.stmt(body)
        except _Stop:
            self.stopped = True
        return self

    def pos(self, n):
        n = strip(n, casts=True)
        if n["kind"] == "DeclRefExpr":
            nm = n["ref"]["name"]
            if nm in self.env:
                return self.env[nm]
        txt = _norm(render(n))
        for nm, p in list(self.env.items()):
            if txt in ("%s<<1" % nm, "2*%s" % nm, "%s*2" % nm) and p == "K":
                return "L"
            if txt in ("%s+1" % nm, "1+%s" % nm) and p == "L":
                return "R"
            if txt in ("%s<<1+1" % nm, "2*%s+1" % nm, "%s<<1|1" % nm) and p == "K":
                return "R"
            if txt in ("%s>>1" % nm, "%s/2" % nm) and p == "K":
                return "P"
        raise AnalysisBroken("%s: index expression %s not understood" % (self.f.name, render(n)))

    def slot(self, n):
        """position of &heap[i] / heap[i]"""
        n = strip(n, casts=True)
        if n["kind"] == "UnaryOperator" and n.get("opcode") == "&":
            n = strip(kids(n)[0], casts=True)
        if n["kind"] == "ArraySubscriptExpr":
            return self.pos(kids(n)[1])
        raise AnalysisBroken("%s: %s is not a heap slot" % (self.f.name, render(n)))

    def read(self, p):
        if p in ("L", "R", "P") and self.where.get(p) not in ("in", "edge"):
            self.oob = "reads slot %s although it lies outside heap[1..heap_count]" % p

    def cond(self, n):
        n = strip(n, casts=True)
        k = n["kind"]
        if k == "UnaryOperator" and n.get("opcode") == "!":
            return not self.cond(kids(n)[0])
        if k == "CallExpr":
            if callee_ref(n) is not None:
                raise AnalysisBroken("%s: call %s in a sift condition" % (self.f.name, callee_ref(n)))
            cal = self.cx.canon(kids(n)[0]).lstrip("*(").rstrip(")")
            if not cal.endswith("heap_compare"):
                raise AnalysisBroken("%s: compares with %s, not the heap's comparator" % (self.f.name, cal))
            a, b = self.slot(kids(n)[1]), self.slot(kids(n)[2])
            self.read(a)
            self.read(b)
            return self.rank[a] < self.rank[b]
        if k == "BinaryOperator":
            op = n["opcode"]
            if op == "&&":
                return self.cond(kids(n)[0]) and self.cond(kids(n)[1])
            if op == "||":
                return self.cond(kids(n)[0]) or self.cond(kids(n)[1])
            if op in ("<", "<=", ">", ">="):
                a, b = kids(n)[0], kids(n)[1]
                bt = self.cx.canon(b)
                at = self.cx.canon(a)
                if at.endswith("heap_count"):
                    a, b, bt = b, a, at
                    op = {"<": ">", "<=": ">=", ">": "<", ">=": "<="}[op]
                mm = re.fullmatch(r".*heap_count(?: ([+-]) (\d+))?\)?", bt)
                if mm and "heap_count" in bt:
                    c = int(mm.group(2) or 0) * (1 if mm.group(1) != "-" else -1)
                    st = self.where[self.pos(a)]       # in (d <= -1), edge (d == 0), out (d == +1) with d = index - count
                    if st == "in":
                        # d <= -1
                        if op in ("<=", "<"):
                            if (op == "<=" and c >= -1) or (op == "<" and c >= 0):
                                return True
                        else:
                            if (op == ">" and c >= -1) or (op == ">=" and c >= 0):
                                return False
                        raise AnalysisBroken("%s: %s cannot be decided for an interior slot" % (self.f.name, render(n)))
                    d = 0 if st == "edge" else 1
                    return {"<": d < c, "<=": d <= c, ">": d > c, ">=": d >= c}[op]
        raise AnalysisBroken("%s: condition %s not understood" % (self.f.name, render(n)))

    def stmt(self, n):
        k = n["kind"]
        if k == "CompoundStmt":
            for c in kids(n):
                self.stmt(c)
        elif k == "DeclStmt":
            for d in kids(n):
                if d["kind"] == "VarDecl" and kids(d):
                    ini = strip(kids(d)[0], casts=True)
                    if ini["kind"] == "MemberExpr":       # khash = heap[k].hash_index
                        continue
                    self.env[d["name"]] = self.pos(ini)
        elif k == "IfStmt":
            ch = kids(n)
            if self.cond(ch[0]):
                self.stmt(ch[1])
            elif len(ch) > 2:
                self.stmt(ch[2])
        elif k == "BreakStmt":
            raise _Stop()
        elif k == "BinaryOperator" and n.get("opcode") == "=":
            l = strip(kids(n)[0], casts=True)
            r = strip(kids(n)[1], casts=True)
            if l["kind"] == "DeclRefExpr":
                nm = l["ref"]["name"]
                p = self.pos(r)
                if nm == self.k:
                    self.new_hole = p
                self.env[nm] = p
            elif l["kind"] == "ArraySubscriptExpr" and r["kind"] == "ArraySubscriptExpr" and \
                    render(kids(l)[0]) == render(kids(r)[0]):
                src, dst = self.pos(kids(r)[1]), self.pos(kids(l)[1])
                self.read(src)
                self.moves.append((src, dst))
            elif l["kind"] == "MemberExpr":
                return          # back pointer in the hash map (R-C02-2)
            else:
                raise AnalysisBroken("%s: store %s not understood" % (self.f.name, render(n)))
        elif is_assert_stmt(n) or k == "NullStmt":
            return
        else:
            raise AnalysisBroken("%s: unsupported statement %s at line %s" % (self.f.name, k, n.get("line")))


def check_sifts(rep, rule, m):
    """Run the exhaustive one-round evaluation for heap_up and heap_down; report into `rule`."""
    for fname, mode in (("heap_down", "down"), ("heap_up", "up")):
        fs = m.func_named(fname)
        if not fs:
            raise AnalysisBroken("%s not found" % fname)
        f = fs[0]
        hs = HoleSift(m, f)
        cx = hs.cx
        loops = [x for x in kids(f.body) if x["kind"] in ("WhileStmt", "ForStmt")]
        if len(loops) != 1:
            raise AnalysisBroken("%s: expected one sift loop" % fname)
        lp = loops[0]
        cond = kids(lp)[0] if lp["kind"] == "WhileStmt" else kids(lp)[2]
        body = kids(lp)[-1]
        # working copy: a local equal to heap_count + 1 used as heap[iwc] = heap[k] before the loop
        wname = None
        for x in walk(f.body):
            if x["kind"] == "VarDecl" and kids(x) and _norm(cx.canon(kids(x)[0])) in ("%s->heap_count+1" % hs.hp, "1+%s->heap_count" % hs.hp):
                wname = x["name"]
        pre = [(render(strip(kids(s)[0], casts=True)), render(strip(kids(s)[1], casts=True))) for s in kids(f.body)[:kids(f.body).index(lp)]
               if s["kind"] == "BinaryOperator" and s.get("opcode") == "="]
        post = [(render(strip(kids(s)[0], casts=True)), render(strip(kids(s)[1], casts=True))) for s in kids(f.body)[kids(f.body).index(lp) + 1:]
                if s["kind"] == "BinaryOperator" and s.get("opcode") == "="]
        saved = wname is not None and any(re.fullmatch(r"\w+\[%s\]" % wname, l_) and re.fullmatch(r"\w+\[%s\]" % hs.k, r_) for l_, r_ in pre)
        restored = wname is not None and any(re.fullmatch(r"\w+\[%s\]" % hs.k, l_) and re.fullmatch(r"\w+\[%s\]" % wname, r_) for l_, r_ in post)
        rule.instance("%s: working copy in heap[%s] saved before / stored into the hole after the loop: %s / %s" % (fname, wname, saved, restored))
        if not (saved and restored):
            rep.finding(rule, fname, "sift:working-copy", "%s does not keep the moving tag in the scratch slot heap_count + 1 and "
                        "store it into the final hole" % fname, where=m.rel(f.where))
            rule.fail()
            continue
        rule.ok()
        env0 = {hs.k: "K", wname: "W"}
        # -- the loop guard
        gtxt = _norm(cx.canon(cond))
        if mode == "down":
            cnt = "%s->heap_count" % hs.hp
            ok_guard = gtxt in ("%s<=%s>>1" % (hs.k, cnt), "%s<<1<=%s" % (hs.k, cnt), "2*%s<=%s" % (hs.k, cnt), "%s<=%s/2" % (hs.k, cnt))
            bad_guard = gtxt in ("%s<%s>>1" % (hs.k, cnt), "%s<<1<%s" % (hs.k, cnt), "%s<%s/2" % (hs.k, cnt))
        else:
            # ((l = k >> 1) > 0)
            mm = re.fullmatch(r"(\w+)=%s(>>1|/2)>0" % hs.k, _norm(render(cond)))
            ok_guard = mm is not None
            bad_guard = re.fullmatch(r"(\w+)=%s(>>1|/2)>1" % hs.k, _norm(render(cond))) is not None
            if mm:
                env0[mm.group(1)] = "P"
        rule.instance("%s: loop guard %s" % (fname, render(cond)))
        if bad_guard:
            rep.finding(rule, fname, "sift:guard", "%s: the loop guard %s stops one level early (the %s is not considered)" %
                        (fname, render(cond), "last parent's child" if mode == "down" else "root"), where=m.rel(loc(lp)))
            rule.fail()
            continue
        if not ok_guard:
            raise AnalysisBroken("%s: loop guard %s not understood" % (fname, render(cond)))
        rule.ok()
        cases = 0
        bad = {}
        if mode == "down":
            shapes = (("in", "in"), ("in", "edge"), ("edge", "out"))
            for shp in shapes:
                where = {"K": "in", "W": "scratch", "L": shp[0], "R": shp[1]}
                live = [p for p in "LR" if where[p] in ("in", "edge")]
                for ranks in itertools.permutations(range(3)):
                    rank = dict(zip("WLR", ranks))
                    cases += 1
                    r_ = hs.round(body, env0, where, rank)
                    desc = "children %s, order %s" % ("+".join(live), " ".join("%s=%d" % (p, rank[p]) for p in ["W"] + live))
                    if r_.oob:
                        bad.setdefault("sift:out-of-range", (r_.oob, desc))
                        continue
                    best = min(rank[p] for p in live)
                    if r_.stopped and not r_.moves:
                        if best < rank["W"]:
                            bad.setdefault("sift:stops-early", ("stops although a child goes before the moving tag", desc))
                        continue
                    if len(r_.moves) != 1 or r_.moves[0][1] != "K" or r_.moves[0][0] not in live or r_.new_hole != r_.moves[0][0] or r_.stopped:
                        bad.setdefault("sift:move", ("does not pull one existing child into the hole and continue at that child's "
                                                     "slot (moves %s, continues at %s)" % (r_.moves, r_.new_hole), desc))
                        continue
                    c = r_.moves[0][0]
                    if rank[c] != best:
                        bad.setdefault("sift:wrong-child", ("pulls up a child that the other child goes before: the heap order is "
                                                            "broken at the hole's old position", desc))
                        continue
                    if rank["W"] < rank[c]:
                        bad.setdefault("sift:moves-past", ("pulls a child up although the moving tag goes before it", desc))
        else:
            where = {"K": "in", "W": "scratch", "P": "in"}
            for ranks in itertools.permutations(range(2)):
                rank = dict(zip("WP", ranks))
                cases += 1
                r_ = hs.round(body, env0, where, rank)
                desc = "order W=%d P=%d" % (rank["W"], rank["P"])
                if r_.stopped and not r_.moves:
                    if rank["W"] < rank["P"]:
                        bad.setdefault("sift:stops-early", ("stops although the moving tag goes before its parent", desc))
                    continue
                if len(r_.moves) != 1 or r_.moves[0] != ("P", "K") or r_.new_hole != "P" or r_.stopped:
                    bad.setdefault("sift:move", ("does not pull the parent into the hole and continue at the parent's slot "
                                                 "(moves %s, continues at %s)" % (r_.moves, r_.new_hole), desc))
                    continue
                if not rank["W"] < rank["P"]:
                    bad.setdefault("sift:moves-past", ("pulls the parent down although the moving tag does not go before it "
                                                       "(equal keys lose their first-in order)", desc))
        rule.instance("%s: %d abstract rounds (children present x weak orders)" % (fname, cases))
        rep.sample({"rule": rule.id if hasattr(rule, "id") else "sift", "function": fname, "cases": cases, "failures": sorted(bad)})
        for kind, (why, desc) in bad.items():
            rep.finding(rule, fname, kind, "%s %s (case: %s)" % (fname, why, desc), where=m.rel(f.where))
            rule.fail()
        for _ in range(cases - len(bad)):
            rule.ok()
