"""Exhaustive check of one round of the hashheap's sift loops (hole style: a working copy of the moving tag sits in
the scratch slot heap_count + 1, tags are pulled into the hole).

heap_down: positions K (hole), L = 2k, R = 2k + 1, W (working copy).  Over which children exist (in the heap, exactly
the last slot, beyond it) and all strict orders of (W, L, R) under the installed comparator 'x goes before y' (ties
between distinct entries do not occur: every installable comparator is total on distinct keys, R-C02-1):
  - the loop runs exactly when a left child exists,
  - the child pulled up is an existing child that the other existing child does not go before,
  - the round stops only if no existing child goes before W, and pulls a child up only if W does not go before it,
  - the hole moves to the position the child came from, no slot beyond heap_count is read.
heap_up: positions K, P = k / 2, W: the loop runs exactly when a parent exists; the parent is pulled down iff W goes
before it.  After either loop the working copy is stored into the hole.
Shared by C02 (the container), C01 / C06 / C12 (the orders built on it).
"""
import itertools
import re

from ..astutil import kids, strip, walk, callee_ref, render, loc
from ..frontend import AnalysisBroken
from ..vals import FuncCtx, is_assert_stmt


def _norm(t):
    return re.sub(r"[\s()]", "", re.sub(r"(?<=\d)[uU][lL]*\b", "", t))


class _Stop(Exception):
    pass


class HoleSift:
    def __init__(self, m, f):
        self.m, self.f = m, f
        self.cx = FuncCtx(m, f)
        self.k = f.params[1]["name"]
        self.hp = f.params[0]["name"]
        self.k0 = self.k
        # `uint64_t hole = k;` with k itself never assigned: the local is the moving index
        kid = f.params[1]["id"]
        assigned = set()
        for x in walk(f.body):
            if (x["kind"] in ("BinaryOperator", "CompoundAssignOperator") and (x.get("opcode") == "=" or
                                                                                x["kind"] == "CompoundAssignOperator")) or \
                    (x["kind"] == "UnaryOperator" and x.get("opcode") in ("++", "--", "&")):
                t = strip(kids(x)[0], casts=True)
                if t["kind"] == "DeclRefExpr":
                    assigned.add(t["ref"]["id"])
        if kid not in assigned:
            cps = [d for s_ in kids(f.body) if s_["kind"] == "DeclStmt" for d in kids(s_)
                   if d["kind"] == "VarDecl" and kids(d) and d.get("id") in assigned and
                   strip(kids(d)[0], casts=True)["kind"] == "DeclRefExpr" and strip(kids(d)[0], casts=True)["ref"].get("id") == kid]
            if len(cps) == 1:
                self.k = cps[0]["name"]
        # single-definition locals that merely copy another variable must not be taken for the index variables by name
        self.shadow = set()
        for x in walk(f.body):
            if x["kind"] == "VarDecl" and str(x.get("id", "")).startswith("inl"):
                self.shadow.add(x["id"])

    # -- one abstract round -----------------------------------------------------------
    def round(self, body, env, where, rank):
        self.env = dict(env)
        self.where, self.rank = where, rank
        self.moves = []
        self.new_hole = None
        self.oob = None
        self.stopped = False
        try:
            self.stmt(body)
        except _Stop:
            self.stopped = True
        return self

    def pos(self, n):
        n = strip(n, casts=True)
        if n["kind"] == "DeclRefExpr":
            nm = n["ref"]["name"]
            if nm in self.env and n["ref"].get("id") not in self.shadow:
                return self.env[nm]
            d = self.cx.single_def(n["ref"]["id"])
            if d is not None:
                return self.pos(d)           # a copy of an index (e.g. the parameter of an inlined helper)
        txt = _norm(render(n))
        for nm, p in list(self.env.items()):
            if txt in ("%s<<1" % nm, "2*%s" % nm, "%s*2" % nm) and p == "K":
                return "L"
            if txt in ("%s+1" % nm, "1+%s" % nm) and p == "L":
                return "R"
            if txt in ("%s<<1+1" % nm, "2*%s+1" % nm, "%s<<1|1" % nm) and p == "K":
                return "R"
            if txt in ("%s>>1" % nm, "%s/2" % nm) and p == "K":
                return "P"
        raise AnalysisBroken("%s: index expression %s not understood" % (self.f.name, render(n)))

    def slot(self, n):
        """position of &heap[i] / heap[i]"""
        n = strip(n, casts=True)
        if n["kind"] == "UnaryOperator" and n.get("opcode") == "&":
            n = strip(kids(n)[0], casts=True)
        if n["kind"] == "ArraySubscriptExpr":
            return self.pos(kids(n)[1])
        raise AnalysisBroken("%s: %s is not a heap slot" % (self.f.name, render(n)))

    def read(self, p):
        if p in ("L", "R", "P") and self.where.get(p) not in ("in", "edge"):
            self.oob = "reads slot %s although it lies outside heap[1..heap_count]" % p

    def cond(self, n):
        n = strip(n, casts=True)
        k = n["kind"]
        if k == "UnaryOperator" and n.get("opcode") == "!":
            return not self.cond(kids(n)[0])
        if k == "CallExpr":
            if callee_ref(n) is not None:
                raise AnalysisBroken("%s: call %s in a sift condition" % (self.f.name, callee_ref(n)))
            cal = self.cx.canon(kids(n)[0]).lstrip("*(").rstrip(")")
            if not cal.endswith("heap_compare"):
                raise AnalysisBroken("%s: compares with %s, not the heap's comparator" % (self.f.name, cal))
            a, b = self.slot(kids(n)[1]), self.slot(kids(n)[2])
            self.read(a)
            self.read(b)
            return self.rank[a] < self.rank[b]
        if k == "BinaryOperator":
            op = n["opcode"]
            if op == "&&":
                return self.cond(kids(n)[0]) and self.cond(kids(n)[1])
            if op == "||":
                return self.cond(kids(n)[0]) or self.cond(kids(n)[1])
            if op in ("<", "<=", ">", ">="):
                a, b = kids(n)[0], kids(n)[1]
                bt = self.cx.canon(b)
                at = self.cx.canon(a)
                if at.endswith("heap_count"):
                    a, b, bt = b, a, at
                    op = {"<": ">", "<=": ">=", ">": "<", ">=": "<="}[op]
                mm = re.fullmatch(r".*heap_count(?: ([+-]) (\d+))?\)?", bt)
                if mm and "heap_count" in bt:
                    c = int(mm.group(2) or 0) * (1 if mm.group(1) != "-" else -1)
                    st = self.where[self.pos(a)]       # in (d <= -1), edge (d == 0), out (d == +1) with d = index - count
                    if st == "in":
                        # d <= -1
                        if op in ("<=", "<"):
                            if (op == "<=" and c >= -1) or (op == "<" and c >= 0):
                                return True
                        else:
                            if (op == ">" and c >= -1) or (op == ">=" and c >= 0):
                                return False
                        raise AnalysisBroken("%s: %s cannot be decided for an interior slot" % (self.f.name, render(n)))
                    d = 0 if st == "edge" else 1
                    return {"<": d < c, "<=": d <= c, ">": d > c, ">=": d >= c}[op]
        raise AnalysisBroken("%s: condition %s not understood" % (self.f.name, render(n)))

    def stmt(self, n):
        k = n["kind"]
        if k == "CompoundStmt":
            for c in kids(n):
                self.stmt(c)
        elif k == "DeclStmt":
            for d in kids(n):
                if d["kind"] == "VarDecl" and kids(d):
                    ini = strip(kids(d)[0], casts=True)
                    if ini["kind"] == "MemberExpr" or "*" in (d.get("type") or ""):   # khash = heap[k].hash_index; array aliases
                        continue
                    self.env[d["name"]] = self.pos(ini)
        elif k == "IfStmt":
            ch = kids(n)
            if self.cond(ch[0]):
                self.stmt(ch[1])
            elif len(ch) > 2:
                self.stmt(ch[2])
        elif k == "BreakStmt":
            raise _Stop()
        elif k == "BinaryOperator" and n.get("opcode") == "=":
            l = strip(kids(n)[0], casts=True)
            r = strip(kids(n)[1], casts=True)
            if l["kind"] == "DeclRefExpr":
                nm = l["ref"]["name"]
                p = self.pos(r)
                if nm == self.k:
                    self.new_hole = p
                self.env[nm] = p
            elif l["kind"] == "ArraySubscriptExpr" and r["kind"] == "ArraySubscriptExpr" and \
                    render(kids(l)[0]) == render(kids(r)[0]):
                src, dst = self.pos(kids(r)[1]), self.pos(kids(l)[1])
                self.read(src)
                self.moves.append((src, dst))
            elif l["kind"] == "MemberExpr":
                return          # back pointer in the hash map (R-C02-2)
            else:
                raise AnalysisBroken("%s: store %s not understood" % (self.f.name, render(n)))
        elif is_assert_stmt(n) or k == "NullStmt":
            return
        elif k == "UnaryOperator" and n.get("opcode") == "++" and strip(kids(n)[0], casts=True)["kind"] == "DeclRefExpr" and \
                self.env.get(strip(kids(n)[0], casts=True)["ref"]["name"]) == "L":
            nm = strip(kids(n)[0], casts=True)["ref"]["name"]          # left child + 1: the right child
            self.env[nm] = "R"
            if nm == self.k:
                self.new_hole = "R"
        else:
            raise AnalysisBroken("%s: unsupported statement %s at line %s" % (self.f.name, k, n.get("line")))


def check_sifts(rep, rule, m):
    """Run the exhaustive one-round evaluation for heap_up and heap_down; report into `rule`."""
    for fname, mode in (("heap_down", "down"), ("heap_up", "up")):
        fs = m.func_named(fname)
        if not fs:
            raise AnalysisBroken("%s not found" % fname)
        f = fs[0]
        hs = HoleSift(m, f)
        cx = hs.cx
        loops = [x for x in kids(f.body) if x["kind"] in ("WhileStmt", "ForStmt")]
        if len(loops) != 1:
            raise AnalysisBroken("%s: expected one sift loop" % fname)
        lp = loops[0]
        cond = kids(lp)[0] if lp["kind"] == "WhileStmt" else kids(lp)[2]
        body = kids(lp)[-1]
        # working copy: a local equal to heap_count + 1 used as heap[iwc] = heap[k] before the loop
        wname = None
        for x in walk(f.body):
            if x["kind"] == "VarDecl" and kids(x) and wname is None and x["id"] not in hs.shadow and \
                    _norm(cx.canon(kids(x)[0])) in ("%s->heap_count+1" % hs.hp, "1+%s->heap_count" % hs.hp):
                wname = x["name"]
        def slot_moves(stmts):
            out = []
            hs.env = {hs.k: "K", wname: "W"} if wname else {hs.k: "K"}
            for s_ in stmts:
                if s_["kind"] == "BinaryOperator" and s_.get("opcode") == "=":
                    l_, r_ = strip(kids(s_)[0], casts=True), strip(kids(s_)[1], casts=True)
                    if l_["kind"] == "ArraySubscriptExpr" and r_["kind"] == "ArraySubscriptExpr":
                        try:
                            out.append((hs.pos(kids(l_)[1]), hs.pos(kids(r_)[1])))
                        except AnalysisBroken:
                            pass
            return out
        top_ = kids(f.body)
        pre = slot_moves(top_[:top_.index(lp)])
        post = slot_moves(top_[top_.index(lp) + 1:])
        saved = wname is not None and ("W", "K") in pre
        restored = wname is not None and ("K", "W") in post
        rule.instance("%s: working copy in heap[%s] saved before / stored into the hole after the loop: %s / %s" % (fname, wname, saved, restored))
        if not (saved and restored):
            rep.finding(rule, fname, "sift:working-copy", "%s does not keep the moving tag in the scratch slot heap_count + 1 and "
                        "store it into the final hole" % fname, where=m.rel(f.where))
            rule.fail()
            continue
        rule.ok()
        env0 = {hs.k: "K", wname: "W"}
        # -- the loop guard
        gtxt = _norm(cx.canon(cond))
        if mode == "down":
            cnt = "%s->heap_count" % hs.hp
            ok_guard = gtxt in ("%s<=%s>>1" % (hs.k, cnt), "%s<<1<=%s" % (hs.k, cnt), "2*%s<=%s" % (hs.k, cnt), "%s<=%s/2" % (hs.k, cnt))
            bad_guard = gtxt in ("%s<%s>>1" % (hs.k, cnt), "%s<<1<%s" % (hs.k, cnt), "%s<%s/2" % (hs.k, cnt))
        else:
            # ((l = k >> 1) > 0)
            mm = re.fullmatch(r"(\w+)=%s(>>1|/2)>0" % hs.k, _norm(render(cond)))
            ok_guard = mm is not None
            bad_guard = re.fullmatch(r"(\w+)=%s(>>1|/2)>1" % hs.k, _norm(render(cond))) is not None
            if mm:
                env0[mm.group(1)] = "P"
            elif lp["kind"] == "ForStmt":
                # for (parent = k / 2; parent > 0; parent = k / 2)
                init_, inc_ = kids(lp)[0], kids(lp)[3]
                pv = [d for d in walk(init_) if d["kind"] == "VarDecl" and kids(d)]
                g2 = re.fullmatch(r"(\w+)>(0|1)", _norm(render(cond)))
                if len(pv) == 1 and g2 and g2.group(1) == pv[0]["name"] and \
                        _norm(render(kids(pv[0])[0])) in ("%s>>1" % hs.k, "%s/2" % hs.k) and \
                        _norm(render(inc_)) in ("%s=%s>>1" % (pv[0]["name"], hs.k), "%s=%s/2" % (pv[0]["name"], hs.k)):
                    ok_guard = g2.group(2) == "0"
                    bad_guard = g2.group(2) == "1"
                    env0[pv[0]["name"]] = "P"
                elif len(pv) == 1 and g2 and g2.group(1) == pv[0]["name"] and \
                        _norm(render(kids(pv[0])[0])) in ("%s>>1" % hs.k0, "%s/2" % hs.k0, "%s>>1" % hs.k, "%s/2" % hs.k) and \
                        _norm(render(inc_)) in ("%s>>=1" % pv[0]["name"], "%s/=2" % pv[0]["name"],
                                                "%s=%s>>1" % (pv[0]["name"], pv[0]["name"]), "%s=%s/2" % (pv[0]["name"], pv[0]["name"])) and \
                        not any(x["kind"] == "ContinueStmt" for x in walk(body)):
                    # for (up = k >> 1; up > 0; up >>= 1): up is the hole's parent at every loop head because every round
                    # that does not leave the loop continues at the parent (checked below: the hole moves to P)
                    ok_guard = g2.group(2) == "0"
                    bad_guard = g2.group(2) == "1"
                    env0[pv[0]["name"]] = "P"
        rule.instance("%s: loop guard %s" % (fname, render(cond)))
        if bad_guard:
            rep.finding(rule, fname, "sift:guard", "%s: the loop guard %s stops one level early (the %s is not considered)" %
                        (fname, render(cond), "last parent's child" if mode == "down" else "root"), where=m.rel(loc(lp)))
            rule.fail()
            continue
        if not ok_guard:
            raise AnalysisBroken("%s: loop guard %s not understood" % (fname, render(cond)))
        rule.ok()
        cases = 0
        bad = {}
        if mode == "down":
            shapes = (("in", "in"), ("in", "edge"), ("edge", "out"))
            for shp in shapes:
                where = {"K": "in", "W": "scratch", "L": shp[0], "R": shp[1]}
                live = [p for p in "LR" if where[p] in ("in", "edge")]
                for ranks in itertools.permutations(range(3)):
                    rank = dict(zip("WLR", ranks))
                    cases += 1
                    r_ = hs.round(body, env0, where, rank)
                    desc = "children %s, order %s" % ("+".join(live), " ".join("%s=%d" % (p, rank[p]) for p in ["W"] + live))
                    if r_.oob:
                        bad.setdefault("sift:out-of-range", (r_.oob, desc))
                        continue
                    best = min(rank[p] for p in live)
                    if r_.stopped and not r_.moves:
                        if best < rank["W"]:
                            bad.setdefault("sift:stops-early", ("stops although a child goes before the moving tag", desc))
                        continue
                    if len(r_.moves) != 1 or r_.moves[0][1] != "K" or r_.moves[0][0] not in live or r_.new_hole != r_.moves[0][0] or r_.stopped:
                        bad.setdefault("sift:move", ("does not pull one existing child into the hole and continue at that child's "
                                                     "slot (moves %s, continues at %s)" % (r_.moves, r_.new_hole), desc))
                        continue
                    c = r_.moves[0][0]
                    if rank[c] != best:
                        bad.setdefault("sift:wrong-child", ("pulls up a child that the other child goes before: the heap order is "
                                                            "broken at the hole's old position", desc))
                        continue
                    if rank["W"] < rank[c]:
                        bad.setdefault("sift:moves-past", ("pulls a child up although the moving tag goes before it", desc))
        else:
            where = {"K": "in", "W": "scratch", "P": "in"}
            for ranks in itertools.permutations(range(2)):
                rank = dict(zip("WP", ranks))
                cases += 1
                r_ = hs.round(body, env0, where, rank)
                desc = "order W=%d P=%d" % (rank["W"], rank["P"])
                if r_.stopped and not r_.moves:
                    if rank["W"] < rank["P"]:
                        bad.setdefault("sift:stops-early", ("stops although the moving tag goes before its parent", desc))
                    continue
                if len(r_.moves) != 1 or r_.moves[0] != ("P", "K") or r_.new_hole != "P" or r_.stopped:
                    bad.setdefault("sift:move", ("does not pull the parent into the hole and continue at the parent's slot "
                                                 "(moves %s, continues at %s)" % (r_.moves, r_.new_hole), desc))
                    continue
                if not rank["W"] < rank["P"]:
                    bad.setdefault("sift:moves-past", ("pulls the parent down although the moving tag does not go before it "
                                                       "(equal keys lose their first-in order)", desc))
        rule.instance("%s: %d abstract rounds (children present x weak orders)" % (fname, cases))
        rep.sample({"rule": rule.id if hasattr(rule, "id") else "sift", "function": fname, "cases": cases, "failures": sorted(bad)})
        for kind, (why, desc) in bad.items():
            rep.finding(rule, fname, kind, "%s %s (case: %s)" % (fname, why, desc), where=m.rel(f.where))
            rule.fail()
        for _ in range(cases - len(bad)):
            rule.ok()



# ---------------------------------------------------------------------------------------------------------------
def heap_walks(m):
    """[(func, loop node, heap owner text)] for every loop that indexes a hashheap's heap array (subscript or pointer
    walk) with a variable the loop itself advances."""
    out = []
    for f in m.funcs.values():
        rel = m.rel(f.file) or ""
        if not rel.startswith(("src/", "include/")):
            continue
        cx = None
        for x in walk(f.body):
            if x["kind"] not in ("ForStmt", "WhileStmt", "DoStmt") or is_assert_stmt(x):
                continue
            ch = kids(x)
            body = ch[4] if x["kind"] == "ForStmt" else ch[1] if x["kind"] == "WhileStmt" else ch[0]
            cx = cx or FuncCtx(m, f)
            lvars = set()
            for part in ch:
                for y in walk(part):
                    t = None
                    if y["kind"] == "UnaryOperator" and y.get("opcode") in ("++", "--"):
                        t = strip(kids(y)[0], casts=True)
                    elif y["kind"] == "CompoundAssignOperator" or (y["kind"] == "BinaryOperator" and y.get("opcode") == "="):
                        t = strip(kids(y)[0], casts=True)
                    elif y["kind"] == "VarDecl" and part is ch[0]:
                        lvars.add(y["name"])
                    if t is not None and t["kind"] == "DeclRefExpr":
                        lvars.add(t["ref"]["name"])
            H = None
            for y in walk(body):
                if y["kind"] != "ArraySubscriptExpr":
                    continue
                base = cx.canon(kids(y)[0])
                mm = re.fullmatch(r"(.+?)(->|\.)heap", base)
                if mm and any(z["kind"] == "DeclRefExpr" and z["ref"]["name"] in lvars for z in walk(kids(y)[1])):
                    H = mm.group(1) if mm.group(2) == "->" else "&" + mm.group(1)
                    break
            if H is None and x["kind"] == "ForStmt":
                # pointer walk: the loop variable is a pointer initialised from &H->heap[k] or H->heap + k
                for d in walk(ch[0]):
                    if d["kind"] == "VarDecl" and "cmi_heap_tag" in (d.get("type") or "") and "*" in (d.get("type") or "") and kids(d):
                        mm = re.search(r"&?\(?(\w[\w>.-]*?)(->|\.)heap\b", cx.canon(kids(d)[0]))
                        if mm:
                            H = mm.group(1) if mm.group(2) == "->" else "&" + mm.group(1)
            if H is None:
                # a tag pointer advanced by the loop, declared anywhere with an initialiser inside some heap array
                for d in walk(f.body):
                    if d["kind"] == "VarDecl" and d.get("name") in lvars and "cmi_heap_tag" in (d.get("type") or "") and \
                            "*" in (d.get("type") or "") and kids(d):
                        mm = re.search(r"&?\(?(\w[\w>.-]*?)(->|\.)heap\b", cx.canon(kids(d)[0]))
                        if mm and any(y["kind"] == "DeclRefExpr" and y["ref"]["name"] == d["name"] for y in walk(body)):
                            H = mm.group(1) if mm.group(2) == "->" else "&" + mm.group(1)
            if H is not None:
                out.append((f, x, H.lstrip("(")))
    return out


def scan_range_general(m, f, loop, H):
    """(first, last, step) for loops of any kind: the slot cursor (an index into the heap array or a tag pointer) and the
    number of rounds are read off the loop's induction variables - the rounds may be counted by another variable than
    the cursor (a count-down counter).  Raises AnalysisBroken when not understood."""
    from ..engines.induct import Poly
    from .. import inv
    cx = FuncCtx(m, f)
    ivars, guard = inv.induction_vars(cx, f, loop, allow_conjunct=True)      # a search may also stop on "found"
    gnode = inv.induction_vars.last_guard_node
    body = kids(loop)[0] if loop["kind"] == "DoStmt" else kids(loop)[-1]

    inside = {id(y) for y in walk(loop)}

    def decl_of(nm):
        # the declaration that is in force when the loop is entered: outside the loop (a same-named copy made for an
        # inlined helper inside the body is another object), or in the for-initialiser
        found = None
        if loop["kind"] == "ForStmt":
            for d in walk(kids(loop)[0]):
                if d["kind"] == "VarDecl" and d.get("name") == nm and kids(d):
                    return d
        for d in walk(f.body):
            if d is loop:
                break                         # declarations after the loop (a later loop's own variable) are other objects
            if d["kind"] == "VarDecl" and d.get("name") == nm and kids(d):
                if id(d) in inside:
                    continue
                found = d
        return found

    def off(n, depth=0):
        n = strip(n, casts=True)
        k = n["kind"]
        if k == "IntegerLiteral":
            return Poly.const(int(n["value"]))
        c = cx.canon(n)
        if c.endswith("heap_count") and ("heap" in c):
            return Poly.sym("N")
        if k == "DeclRefExpr":
            d = cx.single_def(n["ref"]["id"])
            if d is not None and depth < 6:
                return off(d, depth + 1)
            if n["ref"]["name"] in ivars and depth < 6:
                # used in an expression evaluated before the loop starts: the variable still has its entry value
                dd = decl_of(n["ref"]["name"])
                return off(kids(dd)[0], depth + 1) if dd is not None else None
            return None
        if k == "CallExpr" and callee_ref(n) == "cmi_hash_find_index":
            return Poly.sym("K")     # the slot of one entry looked up by its key: some slot, not a function of heap_count
        if k == "MemberExpr" and n.get("name") == "heap":
            return Poly()
        if k == "UnaryOperator" and n.get("opcode") == "&":
            a = strip(kids(n)[0], casts=True)
            if a["kind"] == "ArraySubscriptExpr":
                b, i = off(kids(a)[0], depth + 1), off(kids(a)[1], depth + 1)
                return None if b is None or i is None else b + i
            return None
        if k == "BinaryOperator" and n.get("opcode") in ("+", "-"):
            a, b = off(kids(n)[0], depth + 1), off(kids(n)[1], depth + 1)
            if a is None or b is None:
                return None
            return a + b if n["opcode"] == "+" else a - b
        return None
    # the cursor: an induction variable used to subscript the heap array, or a tag pointer dereferenced in the body
    cursor = None
    for y in walk(body):
        if y["kind"] == "ArraySubscriptExpr" and re.fullmatch(r"(.+?)(->|\.)heap", cx.canon(kids(y)[0]) or ""):
            i = strip(kids(y)[1], casts=True)
            if i["kind"] == "DeclRefExpr" and i["ref"]["name"] in ivars:
                cursor = i["ref"]["name"]
            elif i["kind"] == "BinaryOperator" and i.get("opcode") in ("+", "-"):
                for z in (strip(kids(i)[0], casts=True), strip(kids(i)[1], casts=True)):
                    if z["kind"] == "DeclRefExpr" and z["ref"]["name"] in ivars and _index_offset(cx, body, z["ref"]["name"]) is not None:
                        cursor = z["ref"]["name"]
        if y["kind"] == "DeclRefExpr" and y["ref"]["name"] in ivars and "cmi_heap_tag" in (y.get("type") or "") and "*" in (y.get("type") or ""):
            cursor = cursor or y["ref"]["name"]
    if cursor is None or guard is None:
        raise AnalysisBroken("%s: heap scan without a recognisable slot cursor / guard" % f.name)
    scan_range_general.last_cursor = cursor
    # the text of the subscript through which the entries are reached (the cursor, or cursor + constant)
    scan_range_general.last_index = cursor
    for y in walk(body):
        if y["kind"] == "ArraySubscriptExpr" and re.fullmatch(r"(.+?)(->|\.)heap", cx.canon(kids(y)[0]) or "") and \
                any(z["kind"] == "DeclRefExpr" and z["ref"]["name"] == cursor for z in walk(kids(y)[1])):
            scan_range_general.last_index = cx.canon(kids(y)[1])
            break
    cd = decl_of(cursor)
    if cd is None:
        raise AnalysisBroken("%s: the slot cursor '%s' has no initial value" % (f.name, cursor))
    first = off(kids(cd)[0])
    step = ivars[cursor][1]
    if first is None or step not in (1, -1):
        raise AnalysisBroken("%s: heap scan cursor '%s' starts at %s with step %s" % (f.name, cursor, render(kids(cd)[0]), step))
    gname, op, bound = guard
    one = Poly.const(1)
    if gname == cursor:
        # bound as an AST node: take it from the loop condition
        c0 = gnode
        a_, b_ = strip(kids(c0)[0], casts=True), strip(kids(c0)[1], casts=True)
        bn = b_ if (a_["kind"] == "DeclRefExpr" and a_["ref"]["name"] == cursor) else a_
        bp = off(bn)
        if bp is None:
            raise AnalysisBroken("%s: heap scan bound %s not understood" % (f.name, render(bn)))
        if step == 1 and op in ("<", "!="):
            last = bp - one
        elif step == 1 and op == "<=":
            last = bp
        elif step == -1 and op in (">", "!="):
            last = bp + one
        elif step == -1 and op == ">=":
            last = bp
        else:
            raise AnalysisBroken("%s: heap scan guard with step %d not understood" % (f.name, step))
        io_ = _index_offset(cx, body, cursor)
        if io_:
            first, last = first + Poly.const(io_), last + Poly.const(io_)
        return first, last, step
    # rounds counted by another variable
    gd = decl_of(gname)
    g_entry = off(kids(gd)[0]) if gd is not None else None
    gstep = ivars[gname][1]
    trips = None
    try:
        bval = int(bound)
    except ValueError:
        bval = None
    if g_entry is not None and gstep == -1 and bval is not None:
        if op in (">", "!=") and bval == 0:
            trips = g_entry
        elif op == ">=" and bval == 1:
            trips = g_entry
    if g_entry is not None and gstep == 1 and bval is None:
        bp = None
        c0 = gnode
        a_, b_ = strip(kids(c0)[0], casts=True), strip(kids(c0)[1], casts=True)
        bn = b_ if (a_["kind"] == "DeclRefExpr" and a_["ref"]["name"] == gname) else a_
        bp = off(bn)
        if bp is not None and op in ("<", "!="):
            trips = bp - g_entry
        elif bp is not None and op == "<=":
            trips = bp - g_entry + one
    if trips is None:
        raise AnalysisBroken("%s: the number of rounds of the heap scan (counter '%s') is not understood" % (f.name, gname))
    if loop["kind"] == "DoStmt":
        # the body runs before the first test: the count is only right if the loop is entered with at least one round to go
        conds = inv.dominating_conditions(cx, f, loop)
        gtxt = cx.canon(kids(gd)[0]) if gd is not None else gname
        if not any(cd in ("(%s > 0)" % gtxt, "(%s != 0)" % gtxt, "!(%s == 0)" % gtxt, "(%s >= 1)" % gtxt,
                          "(%s > 0)" % gname, "(%s != 0)" % gname, "!(%s == 0)" % gname, "(%s >= 1)" % gname) or
                   re.fullmatch(r"\(.*heap_count (>|!=) 0\)|!\(.*heap_count == 0\)|!cmi_hashheap_is_empty\(.*\)", cd) for cd in conds):
            raise AnalysisBroken("%s: a do-while heap scan that is not guarded by 'there are entries'" % f.name)
    last = first + (trips - one).scale(step)
    io_ = _index_offset(cx, body, cursor)
    if io_:
        first, last = first + Poly.const(io_), last + Poly.const(io_)
    return first, last, step


def _index_offset(cx, body, vname):
    """c if every subscript of a heap array in `body` that mentions the variable has the form heap[v + c] / heap[v - c] / heap[v]
    with one literal c; None if there is no such subscript or they disagree"""
    offs = set()
    for y in walk(body):
        if y["kind"] != "ArraySubscriptExpr" or not re.fullmatch(r"(.+?)(->|\.)heap", cx.canon(kids(y)[0]) or ""):
            continue
        i = strip(kids(y)[1], casts=True)
        if i["kind"] == "DeclRefExpr" and i["ref"]["name"] == vname:
            offs.add(0)
        elif i["kind"] == "BinaryOperator" and i.get("opcode") in ("+", "-"):
            a, b = strip(kids(i)[0], casts=True), strip(kids(i)[1], casts=True)
            from ..astutil import int_value as _iv
            if a["kind"] == "DeclRefExpr" and a["ref"]["name"] == vname and _iv(b) is not None:
                offs.add(_iv(b) if i["opcode"] == "+" else -_iv(b))
            elif i["opcode"] == "+" and b["kind"] == "DeclRefExpr" and b["ref"]["name"] == vname and _iv(a) is not None:
                offs.add(_iv(a))
            elif any(z["kind"] == "DeclRefExpr" and z["ref"]["name"] == vname for z in walk(i)):
                return None
    return next(iter(offs)) if len(offs) == 1 else None


def scan_range(m, f, loop, H):
    """(first, last, step) of the slots a for-loop visits, as strings over N = heap_count ('1', 'N', 'N-1', ...), or
    raises AnalysisBroken.  Index loops and pointer walks over the heap array."""
    from ..engines.induct import Poly
    cx = FuncCtx(m, f)
    if loop["kind"] != "ForStmt":
        raise AnalysisBroken("%s: heap scan is not a for loop" % f.name)
    ch = kids(loop)
    v = [d for d in walk(ch[0]) if d["kind"] == "VarDecl" and kids(d)]
    if len(v) != 1:
        raise AnalysisBroken("%s: heap scan without a single loop variable" % f.name)
    v = v[0]
    cnt_txt = ("%s->heap_count" % H) if not H.startswith("&") else None

    def off(n, depth=0):
        """slot number denoted by an index or pointer expression"""
        n = strip(n, casts=True)
        k = n["kind"]
        if k == "IntegerLiteral":
            return Poly.const(int(n["value"]))
        c = cx.canon(n)
        if c.endswith("heap_count") and ("heap" in c):
            return Poly.sym("N")
        if k == "DeclRefExpr":
            d = cx.single_def(n["ref"]["id"])
            if d is not None and depth < 6:
                return off(d, depth + 1)
            return None
        if k == "CallExpr" and callee_ref(n) == "cmi_hash_find_index":
            return Poly.sym("K")     # the slot of one entry looked up by its key: some slot, not a function of heap_count
        if k == "MemberExpr" and n.get("name") == "heap":
            return Poly()            # the array itself = slot 0
        if k == "UnaryOperator" and n.get("opcode") == "&":
            a = strip(kids(n)[0], casts=True)
            if a["kind"] == "ArraySubscriptExpr":
                b = off(kids(a)[0], depth + 1)
                i = off(kids(a)[1], depth + 1)
                return None if b is None or i is None else b + i
            return None
        if k == "BinaryOperator" and n.get("opcode") in ("+", "-"):
            a, b = off(kids(n)[0], depth + 1), off(kids(n)[1], depth + 1)
            if a is None or b is None:
                return None
            return a + b if n["opcode"] == "+" else a - b
        return None

    first = off(kids(v)[0])
    inc = _norm(render(ch[3]))
    step = 1 if inc in (v["name"] + "++", "++" + v["name"], v["name"] + "+=1") else \
        -1 if inc in (v["name"] + "--", "--" + v["name"], v["name"] + "-=1") else None
    cond = strip(ch[2], casts=True)
    if first is None or step is None or cond["kind"] != "BinaryOperator":
        raise AnalysisBroken("%s: heap scan '%s; %s; %s' not understood" % (f.name, render(ch[0]), render(ch[2]), render(ch[3])))
    a, b = strip(kids(cond)[0], casts=True), strip(kids(cond)[1], casts=True)
    op = cond["opcode"]
    if b["kind"] == "DeclRefExpr" and b["ref"]["name"] == v["name"]:
        a, b = b, a
        op = {"<": ">", "<=": ">=", ">": "<", ">=": "<=", "!=": "!="}.get(op, op)
    if not (a["kind"] == "DeclRefExpr" and a["ref"]["name"] == v["name"]):
        raise AnalysisBroken("%s: heap scan guard %s not understood" % (f.name, render(cond)))
    bound = off(b)
    if bound is None:
        raise AnalysisBroken("%s: heap scan bound %s not understood" % (f.name, render(b)))
    one = Poly.const(1)
    if step == 1 and op in ("<", "!="):
        last = bound - one
    elif step == 1 and op == "<=":
        last = bound
    elif step == -1 and op in (">", "!="):
        last = bound + one
    elif step == -1 and op == ">=":
        last = bound
    else:
        raise AnalysisBroken("%s: heap scan guard %s with step %d not understood" % (f.name, render(cond), step))
    io_ = _index_offset(cx, ch[4], v["name"])
    if io_:
        first, last = first + Poly.const(io_), last + Poly.const(io_)
    return first, last, step


SCAN_EXEMPT = {"heap_up", "heap_down", "hash_rehash"}


def check_scans(rep, rule, m, only=None, skip_prints=True):
    """Every loop that walks a heap array to find / count / collect entries visits exactly the slots 1..heap_count."""
    from ..engines.induct import Poly
    N, one = Poly.sym("N"), Poly.const(1)
    n = 0
    # a scan that restructures the heap it walks (removal inside the loop) cannot be said to visit "every slot once":
    # the refill entry can sift up into the part already scanned
    from . import c02 as _c02
    for f_, lp_, H_, bad_ in _c02.heap_loops(m):
        if f_.name in SCAN_EXEMPT or (skip_prints and f_.name.endswith("_print")) or (only is not None and f_.name not in only):
            continue
        if bad_:
            n += 1
            rule.instance("%s: loop over the slots of %s->heap calls %s" % (f_.name, H_, sorted(set(bad_))))
            rep.finding(rule, f_.name, "scan:restructures-heap", "%s calls %s inside its loop over the slots of %s->heap: a removal "
                        "refills the slot with the last entry, which can sift up into the part already scanned, so a matching "
                        "entry is never looked at" % (f_.name, sorted(set(bad_)), H_), where=m.rel(loc(lp_)))
            rule.fail()
    for f, loop, H in heap_walks(m):
        if f.name in SCAN_EXEMPT or (skip_prints and f.name.endswith("_print")):
            continue
        if only is not None and f.name not in only:
            continue
        try:
            try:
                first, last, step = scan_range(m, f, loop, H)
            except AnalysisBroken:
                first, last, step = scan_range_general(m, f, loop, H)
        except AnalysisBroken as e:
            # not decidable for this loop: analysis-broken unless some rule reports a concrete finding
            if not hasattr(rep, "deferred_broken"):
                rep.deferred_broken = []
            if str(e) not in rep.deferred_broken:
                rep.deferred_broken.append(str(e))
            continue
        n += 1
        rule.instance("%s: visits slots %s .. %s of %s->heap (step %+d)" % (f.name, first.show(), last.show(), H, step))
        rep.sample({"rule": getattr(rule, "id", "scan"), "function": f.name, "first": first.show(), "last": last.show(), "step": step})
        ok = (step == 1 and first == one and last == N) or (step == -1 and first == N and last == one)
        if not ok:
            rep.finding(rule, f.name, "scan:range", "%s walks the heap of %s over slots %s .. %s (step %+d); the entries live in slots "
                        "1 .. heap_count, so %s" % (f.name, H, first.show(), last.show(), step,
                                                   "an entry is never looked at" if ((step == 1 and (first - one).get((), 0) > 0) or
                                                                                     (last - N).get((), 0) < 0 or (step == -1 and (last - one).get((), 0) > 0))
                                                   else "a slot outside the live heap is read"), where=m.rel(loc(loop)))
            rule.fail()
        else:
            rule.ok()
    return n


# ---------------------------------------------------------------------------------------------------------------
# repositioning an entry after its keys were changed

def check_reposition(rep, rule, m):
    """cmi_hashheap_reprioritize stores new keys into the entry at idx and must then restore the heap order: heap_up(idx) is
    needed exactly when the new keys sort before the parent's (idx > 1), heap_down(idx) when they sort after a child's.
    Decided by running every path of the routine over all scenarios of a small model: heap size N <= 7, position idx,
    new keys before / equal / after the old ones, and - consistent with the heap order that held before - whether the
    parent / a child is now out of order.  Tests are read as atoms: the comparator applied to (old copy, entry), (entry,
    old copy), (entry, parent slot idx >> 1) - for idx == 1 that slot is the scratch slot 0, whose content is arbitrary, so
    both outcomes are explored - and conditions over idx and heap_count, which are evaluated.  Any other test is
    explored both ways.  A scenario in which a needed sift is not called is a violation."""
    import itertools
    from .. import inv
    from ..astutil import int_value
    f = m.need("cmi_hashheap_reprioritize")
    cx = FuncCtx(m, f)
    hp = f.params[0]["name"]
    dparam, iparam = f.params[2]["name"], f.params[3]["name"]
    IDXS = {"cmi_hash_find_index(%s, %s)" % (hp, f.params[1]["name"])}

    def is_entry(c):
        mm_ = re.fullmatch(r"\(\(.+\) \? (.+) : NULL\)", c)
        if mm_:
            c = mm_.group(1)                       # (test ? &entry : NULL): the entry where it is used at all
        c = c.lstrip("&")
        for ix in IDXS:
            forms = ("%s->heap[%s]" % (hp, ix), "(%s->heap + %s)" % (hp, ix), "*(%s->heap + %s)" % (hp, ix), "%s->heap + %s" % (hp, ix))
            if c in forms or (c.startswith("(") and c.endswith(")") and c[1:-1] in forms):
                return True
        return False

    def is_parent(c):
        c = c.lstrip("&")
        for ix in IDXS:
            if re.fullmatch(r"\(?%s->heap\[\(%s (>> 1|/ 2)\)\]\)?" % (re.escape(hp), re.escape(ix)), c) or \
                    re.fullmatch(r"\(%s->heap \+ \(%s (>> 1|/ 2)\)\)" % (re.escape(hp), re.escape(ix)), c):
                return True
        return False

    class Abort(Exception):
        pass
    findings = []
    scenarios = 0

    def positional(c, idx, N):
        e = c
        for ix in IDXS:
            e = e.replace(ix, " IDX ")
        e = e.replace("%s->heap_count" % hp, " N ")
        e = e.replace("&&", " and ").replace("||", " or ")
        e = re.sub(r"!(?!=)", " not ", e)
        e = re.sub(r"(?<=\d)[uUlL]+\b", "", e)
        if re.search(r"[A-Za-z_]\w*", re.sub(r"\b(IDX|N|and|or|not)\b", "", e)):
            return None
        try:
            return bool(eval(e, {"__builtins__": {}}, {"IDX": idx, "N": N}))
        except Exception:
            return None

    def run(N, idx, rel, p, c):
        """all executions for one scenario: returns list of (called set) per completed path"""
        results = []

        def classify(opnd, st):
            cs = cx.canon(opnd)
            n0 = strip(opnd, casts=True)
            if n0["kind"] == "UnaryOperator" and n0.get("opcode") == "&":
                n0 = strip(kids(n0)[0], casts=True)
            if n0["kind"] == "DeclRefExpr" and n0["ref"]["id"] in st["snap"]:
                return st["snap"][n0["ref"]["id"]]
            if n0["kind"] == "DeclRefExpr" and n0["ref"]["id"] in st["alias_entry"]:
                return "new" if st["stored"] >= 2 else "old"
            if is_entry(cs):
                return "new" if st["stored"] >= 2 else "old"
            if is_parent(cs):
                return "parent"
            return None

        def atom_value(call, st):
            a, b = kids(call)[1], kids(call)[2]
            ka, kb = classify(a, st), classify(b, st)
            if (ka, kb) == ("old", "new"):
                return [rel == ">"]
            if (ka, kb) == ("new", "old"):
                return [rel == "<"]
            if (ka, kb) == ("new", "parent"):
                return [p] if idx > 1 else [True, False]
            if (ka, kb) == ("parent", "new"):
                return [not p] if idx > 1 else [True, False]
            return [True, False]

        def cond_values(cnode, st):
            c0 = strip(cnode, casts=True)
            if c0["kind"] == "UnaryOperator" and c0.get("opcode") == "!":
                return [not v for v in cond_values(kids(c0)[0], st)]
            if c0["kind"] == "BinaryOperator" and c0.get("opcode") in ("&&", "||"):
                out = set()
                for va in cond_values(kids(c0)[0], st):
                    if c0["opcode"] == "&&" and not va:
                        out.add(False)
                    elif c0["opcode"] == "||" and va:
                        out.add(True)
                    else:
                        out |= set(cond_values(kids(c0)[1], st))
                return sorted(out)
            if c0["kind"] == "DeclRefExpr" and c0["ref"]["id"] in st["bools"]:
                return st["bools"][c0["ref"]["id"]]       # the outcome as it was when the comparison was made
            # (flag ? a : b) == k  with literals: the test of an index computed from a comparison
            if c0["kind"] == "BinaryOperator" and c0.get("opcode") in ("==", "!="):
                for u_, v_ in ((kids(c0)[0], kids(c0)[1]), (kids(c0)[1], kids(c0)[0])):
                    u0, kv = strip(u_, casts=True), int_value(strip(v_, casts=True))
                    if u0["kind"] == "ConditionalOperator" and kv is not None:
                        a_, b_ = int_value(strip(kids(u0)[1], casts=True)), int_value(strip(kids(u0)[2], casts=True))
                        if a_ is not None and b_ is not None:
                            outs = set()
                            for cv in cond_values(kids(u0)[0], st):
                                val = a_ if cv else b_
                                outs.add((val == kv) if c0["opcode"] == "==" else (val != kv))
                            return sorted(outs)
            r0 = cx.resolve(c0)
            if r0["kind"] == "CallExpr" and callee_ref(r0) is None and "heap_compare" in cx.canon(kids(r0)[0]):
                return atom_value(r0, st)
            pv = positional(cx.canon(c0), idx, N)
            if pv is not None:
                return [pv]
            return [True, False]

        def exec_stmts(stmts, st, cont):
            if not stmts:
                return cont(st)
            s, rest = stmts[0], stmts[1:]
            k = s["kind"]
            if k == "CompoundStmt":
                return exec_stmts(list(kids(s)) + rest, st, cont)
            if is_assert(s) or k in ("NullStmt",):
                return exec_stmts(rest, st, cont)
            if k == "DeclStmt":
                for vd in kids(s):
                    if vd["kind"] != "VarDecl" or not kids(vd):
                        continue
                    ini = kids(vd)[0]
                    t = vd.get("type") or ""
                    ic = cx.canon(ini)
                    if "struct cmi_heap_tag" in t and "*" not in t and strip(ini, casts=True)["kind"] == "DeclRefExpr" and \
                            strip(ini, casts=True)["ref"]["id"] in st["snap"]:
                        # a copy of a copy keeps what the first copy held
                        st = dict(st, snap=dict(st["snap"], **{vd["id"]: st["snap"][strip(ini, casts=True)["ref"]["id"]]}))
                    elif "struct cmi_heap_tag" in t and "*" not in t:
                        if is_entry(ic) or (strip(ini, casts=True)["kind"] == "DeclRefExpr" and False):
                            st = dict(st, snap=dict(st["snap"], **{vd["id"]: ("new" if st["stored"] >= 2 else "old")}))
                        else:
                            r_ = strip(ini, casts=True)
                            if r_["kind"] == "UnaryOperator" and r_.get("opcode") == "*":
                                q_ = strip(kids(r_)[0], casts=True)
                                if q_["kind"] == "DeclRefExpr" and q_["ref"]["id"] in st["alias_entry"]:
                                    st = dict(st, snap=dict(st["snap"], **{vd["id"]: ("new" if st["stored"] >= 2 else "old")}))
                    elif "*" in t and "cmi_heap_tag" in t:
                        if is_entry(ic):
                            st = dict(st, alias_entry=st["alias_entry"] | {vd["id"]})
                    elif re.fullmatch(r"\((.+) - %s->heap\)" % re.escape(hp), ic) and \
                            is_entry(re.fullmatch(r"\((.+) - %s->heap\)" % re.escape(hp), ic).group(1)):
                        IDXS.add(ic)                      # the position recomputed from the entry's address
                    elif t.replace("const ", "").strip() in ("bool", "_Bool", "int"):
                        r0 = strip(ini, casts=True)
                        if r0["kind"] == "CallExpr" and callee_ref(r0) is None and "heap_compare" in cx.canon(kids(r0)[0]):
                            vals = atom_value(r0, st)
                            outs = []
                            for v in vals:
                                st2 = dict(st, bools=dict(st["bools"], **{vd["id"]: [v]}))
                                outs.append(exec_stmts(rest, st2, cont))
                            return None
                return exec_stmts(rest, st, cont)
            if k == "BinaryOperator" and s.get("opcode") == "=":
                l = strip(kids(s)[0], casts=True)
                if l["kind"] == "MemberExpr" and l.get("name") in ("dsortkey", "isortkey"):
                    base = strip(kids(l)[0], casts=True)
                    rv = cx.canon(kids(s)[1])
                    tgt_entry = is_entry(cx.canon(base)) or (base["kind"] == "DeclRefExpr" and base["ref"]["id"] in st["alias_entry"])
                    if tgt_entry:
                        st = dict(st, stored=st["stored"] + 1)
                    elif base["kind"] == "DeclRefExpr" and base["ref"]["id"] in st["snap"] and rv in (dparam, iparam):
                        cnt = st["snapw"].get(base["ref"]["id"], 0) + 1
                        st = dict(st, snapw=dict(st["snapw"], **{base["ref"]["id"]: cnt}))
                        if cnt >= 2:
                            st = dict(st, snap=dict(st["snap"], **{base["ref"]["id"]: "new"}))
                return exec_stmts(rest, st, cont)
            if k == "IfStmt":
                ch = kids(s)
                for v in cond_values(ch[0], st):
                    br = ch[1] if v else (ch[2] if len(ch) > 2 else None)
                    exec_stmts(([br] if br is not None else []) + rest, st, cont)
                return None
            if k == "ReturnStmt":
                return cont(st)
            c0 = strip(s, casts=True)
            if c0["kind"] == "CallExpr" and callee_ref(c0) in ("heap_up", "heap_down"):
                a = [cx.canon(z) for z in kids(c0)[1:]]
                if len(a) == 2 and a[0] == hp and a[1] in IDXS:
                    st = dict(st, called=st["called"] | {callee_ref(c0)})
                return exec_stmts(rest, st, cont)
            if k in ("ForStmt", "WhileStmt", "DoStmt", "SwitchStmt"):
                raise AnalysisBroken("cmi_hashheap_reprioritize: a loop in the repositioning routine is not modelled")
            return exec_stmts(rest, st, cont)
        st0 = {"stored": 0, "snap": {}, "snapw": {}, "alias_entry": frozenset(), "bools": {}, "called": frozenset()}
        exec_stmts(list(kids(f.body)), st0, lambda st: results.append(st))
        return results

    from ..vals import is_assert_stmt as is_assert
    bad = {}
    for N in range(1, 8):
        for idx in range(1, N + 1):
            for rel in ("<", "=", ">"):
                for p in (False, True):
                    if p and not (idx > 1 and rel == "<"):
                        continue
                    for c in (False, True):
                        if c and not (2 * idx <= N and rel == ">"):
                            continue
                        scenarios += 1
                        for st in run(N, idx, rel, p, c):
                            if st["stored"] < 2:
                                bad.setdefault("keys", (N, idx, rel))
                            if p and "heap_up" not in st["called"]:
                                bad.setdefault("up", (N, idx, rel))
                            if c and "heap_down" not in st["called"]:
                                bad.setdefault("down", (N, idx, rel))
    rule.instance("cmi_hashheap_reprioritize: %d scenarios (heap sizes 1..7, every position, new keys before / equal / after "
                  "the old ones, parent / child out of order where the old order allows it)" % scenarios)
    if scenarios < 50:
        raise AnalysisBroken("reposition model: too few scenarios")
    for kind, (N, idx, rel) in sorted(bad.items()):
        what = {"up": "the entry is not sifted up although its new keys sort before its parent's",
                "down": "the entry is not sifted down although its new keys sort after a child's",
                "keys": "a path does not store both new keys in the entry"}[kind]
        rep.finding(rule, f.name, "resift:" + kind, "cmi_hashheap_reprioritize: with %d entries, the entry at position %d and new "
                    "keys that sort %s the old ones, %s on some path: the heap order is broken and the front is no longer "
                    "the minimum (for position 1 the 'parent' slot is the scratch slot 0, whose content is arbitrary)"
                    % (N, idx, {"<": "before", "=": "like", ">": "after"}[rel], what), where=m.rel(f.where))
        rule.fail()
    if not bad:
        rule.ok()
