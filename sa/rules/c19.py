"""C19 - An experiment runs every trial exactly once, isolated and schedule-independent."""
import re

from ..astutil import kids, strip, walk, callee_ref, render, loc, int_value
from ..frontend import AnalysisBroken
from ..report import Report
from ..vals import FuncCtx
from .. import inv
from . import common
from .c15 import unconditional_writes, PURE_MATH

PID = "C19"
# thread-locals that persist from one trial to the next on the same worker and cannot influence results,
# each with the reason (reviewed by reading); anything not listed must be reset by a per-trial initialiser
NEUTRAL_TLS = {
    "coroutine_main": "identity of the worker's main coroutine; created once per thread, carries no trial data",
    "coroutine_current": "equals coroutine_main whenever no trial is running (every transfer chain ends in main)",
    "cmi_process_awaitabletags": "allocation pool of recycled tags; contents are overwritten on allocation",
    "cmi_process_holdabletags": "allocation pool", "cmi_process_waitertags": "allocation pool",
    "objectqueue_tags": "allocation pool", "observer_tagpool": "allocation pool",
    "static_pools": "registry of the thread's static pools for clean-up",
    "cmi_logger_mask": "logging verbosity only", "timeformatter": "logging format only",
    "timestrbuf": "scratch buffer for log lines", "cmi_logger_trial_idx": "set by the worker for every trial",
    "initial_seed": "written by cmb_random_initialize",
}


def rules(rep, m):
    direct, eff = inv.global_effects(m)
    written_by = {}
    read_by = {}
    for k, e in direct.items():
        for g in e["writes"]:
            written_by.setdefault(g, set()).add(k)
        for g in e["reads"]:
            read_by.setdefault(g, set()).add(k)
    run = m.need("cimba_run_experiment")
    wk = m.need(m.resolve(run.unit, "worker_thread_func"))

    # atomic accesses
    atomic_refs = {}
    plain_refs = {}
    for f in m.funcs.values():
        inside = set()
        for x in walk(f.body):
            if x["kind"] == "AtomicExpr" or (x["kind"] == "CallExpr" and (callee_ref(x) or "").startswith("__atomic_")):
                for y in walk(x):
                    if y["kind"] == "DeclRefExpr" and y.get("ref", {}).get("kind") == "VarDecl":
                        inside.add(id(y))
                        gk = m.global_key(f.unit, f, y["ref"])
                        if gk:
                            atomic_refs.setdefault(gk, set()).add(f.key)
        for y in walk(f.body):
            if y["kind"] == "DeclRefExpr" and y.get("ref", {}).get("kind") == "VarDecl" and id(y) not in inside:
                gk = m.global_key(f.unit, f, y["ref"])
                if gk:
                    plain_refs.setdefault(gk, set()).add(f.key)

    r1 = rep.rule("R-C19-1", "every static-storage variable that is not thread-local and not const is either accessed only "
                  "through atomic builtins (the trial dispenser), or written only by cimba_run_experiment before the first "
                  "pthread_create and merely read by the workers, or a mutex, or never written", floor=8)
    cx = FuncCtx(m, run)
    pc = [c for c in walk(run.body) if c["kind"] == "CallExpr" and callee_ref(c) == "pthread_create"]
    if len(pc) != 1:
        raise AnalysisBroken("cimba_run_experiment: expected one pthread_create call")
    pc_idx = inv.stmt_index_containing(run, pc[0])
    for g, gv in sorted(m.globals.items()):
        if gv.tls or gv.const or gv.extern_only:
            continue
        if not (m.rel(gv.file) or "").startswith(("src/", "include/")):
            continue
        ws = written_by.get(g, set())
        r1.instance("%s (%s): writers %s" % (gv.name, gv.type, sorted(m.funcs[k].name for k in ws)))
        if "mutex" in gv.type:
            r1.ok()
            continue
        if not ws and g not in atomic_refs:
            r1.ok()
            continue
        plain = plain_refs.get(g, set())
        if g in atomic_refs and not (ws - {run.key}) and plain <= {run.key}:
            # atomic everywhere except the set-up in run_experiment
            set_up = [inv.stmt_index_containing(run, n) for l, r, k, n in inv.stores(run)
                      if strip(l, casts=True).get("ref", {}).get("name") == gv.name]
            if all(i is not None and i < pc_idx for i in set_up):
                r1.ok()
                continue
        if ws == {run.key}:
            idxs = [inv.stmt_index_containing(run, n) for l, r, k, n in inv.stores(run)
                    if strip(l, casts=True).get("ref", {}).get("name") == gv.name]
            if all(i is not None and i < pc_idx for i in idxs):
                r1.ok()
                continue
            rep.finding(r1, run.name, "shared-write-after-spawn:" + gv.name, "shared variable '%s' is written after worker "
                        "threads were started" % gv.name, where=m.rel(run.where))
            r1.fail()
            continue
        rep.finding(r1, gv.name, "shared-unsynchronised:" + gv.name, "'%s' is shared between worker threads (not thread-local, "
                    "not const) and is written by %s without atomics: trials are not isolated and results depend on the "
                    "schedule" % (gv.name, sorted(m.funcs[k].name for k in ws)), where="%s:%s" % (m.rel(gv.file), gv.line))
        r1.fail()

    # R-C19-2 ------------------------------------------------------------
    r2 = rep.rule("R-C19-2", "dispenser: the trial index is the value returned by an atomic fetch-add of 1; the bound test "
                  "'index >= total -> leave' precedes its use; the trial pointer is base + index * element size; the trial "
                  "function is called exactly once per loop iteration with that pointer", floor=1)
    wx = FuncCtx(m, wk)
    loops = [x for x in walk(wk.body) if x["kind"] in ("WhileStmt", "ForStmt")]
    if not loops:
        raise AnalysisBroken("worker_thread_func: no dispatch loop")
    outer = loops[0]
    body = kids(outer)[-1]
    idx_decl = None

    def fetch_sites():
        """declarations `T v = fetch_add(...)` and assignments `v = fetch_add(...)` to a local, as pseudo declarations"""
        for x in walk(body):
            if x["kind"] == "VarDecl" and kids(x):
                yield x
            if x["kind"] == "BinaryOperator" and x.get("opcode") == "=":
                l_ = strip(kids(x)[0], casts=True)
                if l_["kind"] == "DeclRefExpr" and l_["ref"].get("kind") == "VarDecl":
                    yield {"kind": "VarDecl", "name": l_["ref"]["name"], "id": l_["ref"]["id"], "inner": [kids(x)[1]],
                           "file": x.get("file"), "line": x.get("line"), "endline": x.get("endline"), "col": x.get("col"),
                           "_stmt": x}
    for x in fetch_sites():
        if True:
            ini = strip(kids(x)[0], casts=True)
            if ini["kind"] in ("AtomicExpr", "CallExpr"):
                # clang 14's JSON omits the atomic operation's name: read it from the source line(s) of the node
                try:
                    src = open(x["file"]).read().splitlines()
                    txt = " ".join(src[(x.get("line") or 1) - 1:(x.get("endline") or x.get("line") or 1)])
                except OSError:
                    txt = ""
                if re.search(r"__atomic_fetch_add|atomic_fetch_add", txt):
                    idx_decl = x
    ok = idx_decl is not None
    r2.instance("index from atomic fetch-add: %s" % ok)
    if not ok:
        rep.finding(r2, wk.name, "dispenser:atomic", "the trial index is not obtained from an atomic fetch-add: two workers can "
                    "take the same trial or skip one", where=m.rel(wk.where))
        r2.fail()
    else:
        r2.ok()
        fname = idx_decl["name"]
        ic = wx.canon(kids(idx_decl)[0])          # canonical value of the fetched index
        ini = strip(kids(idx_decl)[0], casts=True)
        args = [wx.canon(a) for a in kids(ini)]
        step = args[2] if len(args) == 3 else "?"
        rep.sample({"rule": "R-C19-2", "fetch_add": args})
        if not (len(args) == 3 and args[0] == "&cmg_next_trial_idx"):
            rep.finding(r2, wk.name, "dispenser:counter", "the dispenser does not advance the shared trial counter (%s)" % args,
                        where=m.rel(loc(idx_decl)))
            r2.fail()
        else:
            r2.ok()
        names_f = (fname, ic)
        stmts = kids(body)
        anchor = idx_decl.get("_stmt", idx_decl)
        di = next(i for i, s_ in enumerate(stmts) if any(y is anchor for y in walk(s_)))
        # exit test: the worker leaves only when the *first* fetched index is already past the end
        bi = None
        exit_conds = []
        for i, s_ in enumerate(stmts[di + 1:], di + 1):
            if s_["kind"] == "IfStmt" and any(y["kind"] in ("BreakStmt", "ReturnStmt") for y in walk(kids(s_)[1])):
                exit_conds.append((i, wx.canon(kids(s_)[0])))
        good_exit = [i for i, c in exit_conds if c in tuple("(%s >= cmg_total_trials)" % n_ for n_ in names_f)]
        r2.instance("exit test(s): %s" % [c for i, c in exit_conds])
        if not good_exit or len(exit_conds) != len(good_exit):
            rep.finding(r2, wk.name, "dispenser:bound", "the worker leaves the dispatch loop on %s; the only sound exit is "
                        "'fetched index >= total' (any other test drops or repeats trials near the end)"
                        % [c for i, c in exit_conds], where=m.rel(loc(idx_decl)))
            r2.fail()
        else:
            r2.ok()
            bi = good_exit[0]
        # which indices are executed for one fetch?
        inner = [x for x in walk(body) if x["kind"] == "ForStmt"]
        if step == "1" and not inner:
            run_idx = names_f
            okrange = True
        else:
            okrange = False
            run_idx = ()
            if len(inner) == 1:
                ich = kids(inner[0])
                iv = None
                for x in walk(ich[0]):
                    if x["kind"] == "VarDecl" and kids(x):
                        iv = (x["name"], wx.canon(kids(x)[0]))
                cond = wx.canon(ich[2])
                inc = strip(ich[3], casts=True)
                if iv and iv[1] in names_f and inc["kind"] == "UnaryOperator" and inc.get("opcode") == "++":
                    run_idx = (iv[0],)
                    lim = "(%s + %s)" % (ic, step)
                    limn = "(%s + %s)" % (fname, step)
                    pats = []
                    for L in (lim, limn):
                        pats += ["((%s < %s) && (%s < cmg_total_trials))" % (iv[0], L, iv[0]),
                                 "((%s < cmg_total_trials) && (%s < %s))" % (iv[0], iv[0], L),
                                 "(%s < ((%s < cmg_total_trials) ? %s : cmg_total_trials))" % (iv[0], L, L),
                                 "(%s < ((cmg_total_trials < %s) ? cmg_total_trials : %s))" % (iv[0], L, L)]
                    okrange = cond in pats
                    r2.instance("batch of %s: inner loop %s from %s while %s" % (step, iv[0], iv[1], cond))
                    if not okrange:
                        rep.finding(r2, wk.name, "dispenser:batch-range", "a batch of %s indices is fetched but the inner loop "
                                    "runs while %s: it must cover [first, min(first + batch, total)) so that a final partial "
                                    "batch is neither dropped nor overrun" % (step, cond), where=m.rel(loc(inner[0])))
                        r2.fail()
            if not run_idx:
                rep.finding(r2, wk.name, "dispenser:batch-shape", "the counter is advanced by %s per fetch but the indices "
                            "[first, first + %s) are not each executed by one simple inner loop" % (step, step),
                            where=m.rel(loc(idx_decl)))
                r2.fail()
        if okrange:
            r2.ok()
        # uses of the fetched index before the exit test
        if bi is not None:
            def only_the_test(s_):
                """a statement that just evaluates 'index < / >= total' into a local (the test itself, kept in a temporary)"""
                t_ = strip(s_, casts=True)
                rhs = None
                if t_["kind"] == "BinaryOperator" and t_.get("opcode") == "=" and strip(kids(t_)[0], casts=True)["kind"] == "DeclRefExpr":
                    rhs = kids(t_)[1]
                elif t_["kind"] == "DeclStmt" and len(kids(t_)) == 1 and kids(kids(t_)[0]):
                    rhs = kids(kids(t_)[0])[0]
                if rhs is None:
                    return False
                c_ = wx.canon(rhs)
                return any(c_ in ("(%s < cmg_total_trials)" % n_, "(%s >= cmg_total_trials)" % n_) for n_ in names_f)
            uses = [i for i, s_ in enumerate(stmts[di + 1:], di + 1) if i != bi and not only_the_test(s_)
                    for y in walk(s_) if y["kind"] == "DeclRefExpr" and y.get("ref", {}).get("id") == idx_decl["id"]]
            if uses and min(uses) < bi:
                rep.finding(r2, wk.name, "dispenser:bound", "the fetched index is used before the test 'index >= total'",
                            where=m.rel(loc(idx_decl)))
                r2.fail()
        tp = None
        for x in walk(body):
            if x["kind"] == "VarDecl" and x is not idx_decl and kids(x):
                c = wx.canon(kids(x)[0])
                if c in tuple("(cmg_experiment_arr + (%s * cmg_trial_struct_sz))" % n_ for n_ in run_idx):
                    tp = x
        if tp is None:
            rep.finding(r2, wk.name, "dispenser:pointer", "the trial pointer is not base + index * element size",
                        where=m.rel(wk.where))
            r2.fail()
        else:
            r2.ok()
            ind = [c for c in walk(body) if c["kind"] == "CallExpr" and callee_ref(c) is None]
            per_path_ok = bool(ind)
            for c in ind:
                if render(kids(c)[1]) != tp["name"]:
                    per_path_ok = False
            scope = kids(inner[0])[4] if inner and step != "1" else body
            top_if = [s_ for s_ in kids(scope) if s_["kind"] == "IfStmt" and any(c in list(walk(s_)) for c in ind)]
            if top_if:
                for br in kids(top_if[0])[1:]:
                    if sum(1 for c in ind if any(y is c for y in walk(br))) != 1:
                        per_path_ok = False
                if any(x["kind"] in ("WhileStmt", "ForStmt") for x in walk(top_if[0])):
                    per_path_ok = False
            elif len(ind) != 1:
                per_path_ok = False
            r2.instance("trial function called once per index with that trial's own element: %s" % per_path_ok)
            if not per_path_ok:
                rep.finding(r2, wk.name, "dispenser:call", "the trial function is not called exactly once per dispensed index "
                            "with that trial's own element", where=m.rel(wk.where))
                r2.fail()
            else:
                r2.ok()

    # R-C19-3 ------------------------------------------------------------
    r3 = rep.rule("R-C19-3", "every thread created in the spawn loop is joined by a loop over the same bound before "
                  "cimba_run_experiment returns", floor=1)
    LOOPS = ("ForStmt", "WhileStmt")
    cl = [x for x in walk(run.body) if x["kind"] in LOOPS and any(y is pc[0] for y in walk(x))]
    pj = [c for c in walk(run.body) if c["kind"] == "CallExpr" and callee_ref(c) == "pthread_join"]
    jl = [x for x in walk(run.body) if x["kind"] in LOOPS and pj and any(y is pj[0] for y in walk(x))]
    okj = False
    if cl and jl:
        # both loops visit the same elements of the same handle array: element k for k = 0 .. trips-1, as an index loop or
        # a pointer walk (induction variables)
        def visited(lp, argnode, want_addr):
            iv_, g_ = inv.induction_vars(cx, run, lp)
            tc = inv.trip_count(iv_, g_)
            if tc is None and g_ is not None:
                e_, d_ = iv_[g_[0]]
                mm = re.fullmatch(r"\(%s \+ (.+)\)" % re.escape(e_), g_[2])
                if d_ == 1 and g_[1] in ("!=", "<") and mm:
                    tc = mm.group(1)
            n_ = strip(argnode, casts=True)
            root = inv.storage_root(cx, run, n_)
            # the element designated: &A[i] / A[i] with i the counter from 0, or p / *p with p the walking pointer from A
            elem_ok = False
            core = n_
            if core["kind"] == "UnaryOperator" and core.get("opcode") in ("&", "*"):
                core = strip(kids(core)[0], casts=True)
            if core["kind"] == "ArraySubscriptExpr":
                i_ = strip(kids(core)[1], casts=True)
                elem_ok = i_["kind"] == "DeclRefExpr" and iv_.get(i_["ref"]["name"]) == ("0", 1)
                if not elem_ok:
                    # a count-down loop `for (j = N; j > 0; j--)` that designates element N - j: 0 .. N-1 again
                    ic = cx.canon(i_)
                    for nm_, (e_, d_) in iv_.items():
                        if d_ == -1 and ic == "(%s - %s)" % (e_, nm_) and g_ is not None and g_[0] == nm_ and \
                                (g_[1], g_[2]) in ((">", "0"), ("!=", "0"), (">=", "1")):
                            elem_ok = True
            elif core["kind"] == "DeclRefExpr" and core["ref"]["name"] in iv_:
                e_, d_ = iv_[core["ref"]["name"]]
                elem_ok = d_ == 1 and inv.storage_root(cx, run, core) == root
            return root, tc, elem_ok
        r1_, t1_, e1_ = visited(cl[0], kids(pc[0])[1], True)
        r2_, t2_, e2_ = visited(jl[0], kids(pj[0])[1], False)
        r3.instance("create: %s elements of %s; join: %s elements of %s" % (t1_, r1_, t2_, r2_))
        order_ok = inv.executes_before(run, cl[0], jl[0])
        no_ret = not any(x["kind"] == "ReturnStmt" and inv.executes_before(run, x, jl[0]) for x in walk(run.body))
        okj = e1_ and e2_ and r1_ is not None and r1_ == r2_ and t1_ is not None and t1_ == t2_ and order_ok and no_ret
        okj = okj and cx.canon(kids(pc[0])[3]) == "worker_thread_func"
    if not okj:
        rep.finding(r3, run.name, "join", "worker threads are not all joined (same bound, same handles) before the experiment "
                    "returns", where=m.rel(run.where))
        r3.fail()
    else:
        r3.ok()
    # set-up copies the caller's arguments
    st = {cx.canon(l): cx.canon(r) for l, r, k, n in inv.stores(run)}
    pn = [p["name"] for p in run.params]
    want = {"cmg_next_trial_idx": "0", "cmg_experiment_arr": pn[0], "cmg_total_trials": pn[1], "cmg_trial_struct_sz": pn[2],
            "cmg_trial_func": pn[3]}
    for k_, v_ in want.items():
        if st.get(k_) != v_:
            rep.finding(r3, run.name, "setup:" + k_, "%s is set to %s, expected %s" % (k_, st.get(k_), v_), where=m.rel(run.where))
            r3.fail()
        else:
            r3.ok()

    # R-C19-4 ------------------------------------------------------------
    r4 = rep.rule("R-C19-4", "every thread-local that is written at run time is either reset unconditionally by a per-trial "
                  "initialiser (*_initialize), a parameter memo of a sampler, or listed as result-neutral with a reason; "
                  "a new thread-local outside these classes carries state from one trial into the next on the same worker",
                  floor=10)
    inits = [f for f in m.funcs.values() if f.name.endswith("_initialize") and not f.static]
    reset_by = {}
    for f in inits:
        for g in unconditional_writes(m, f):
            reset_by.setdefault(g, set()).add(f.name)
    from . import c15
    for g, gv in sorted(m.globals.items()):
        if not gv.tls or not (m.rel(gv.file) or "").startswith(("src/", "include/")):
            continue
        ws = written_by.get(g, set())
        if not ws:
            continue
        if g in reset_by:
            r4.instance("%s: reset by %s" % (gv.name, sorted(reset_by[g])))
            r4.ok()
            continue
        if gv.name in NEUTRAL_TLS:
            r4.instance("%s: neutral (%s)" % (gv.name, NEUTRAL_TLS[gv.name]))
            r4.ok()
            continue
        # parameter memo (same test as C15): written only by sampling functions of the random module, from their parameters
        memo = bool(ws) and all((m.rel(m.funcs[k].file) or "") in ("src/cmb_random.c", "include/cmb_random.h") for k in ws)
        if memo:
            memo, _why = common.parameter_memo(m, g, ws)
        if memo:
            r4.instance("%s: parameter memo" % gv.name)
            r4.ok()
            continue
        r4.instance("%s: NOT reset" % gv.name)
        rep.finding(r4, gv.local_to and m.funcs[gv.local_to].name or gv.name, "state-not-reset:" + gv.name,
                    "thread-local '%s' is written at run time (%s) and neither reset by a per-trial initialiser nor result-"
                    "neutral: a trial's results depend on which trial ran before it on the same worker thread"
                    % (gv.name, sorted(m.funcs[k].name for k in ws)), where="%s:%s" % (m.rel(gv.file), gv.line))
        r4.fail()
    rep.sample({"rule": "R-C19-4", "reset_by": {k: sorted(v) for k, v in reset_by.items() if k in m.globals and m.globals[k].tls}})

    # R-C19-5 ------------------------------------------------------------
    r5 = rep.rule("R-C19-5", "the thread-local parameter memos that R-C19-4 accepts as result-neutral are neutral only if they are "
                  "exact: the cached values are reused only for a parameter equal to the stored key, and key and values are "
                  "updated together (shared with R-C15-6) - a memo reused for a merely close parameter makes a trial's results "
                  "depend on the parameters of the trial that ran before it on the same worker", floor=2)
    api_, S_ = c15.memo_state(m)
    c15.memo_coherence(rep, r5, m, api_, S_)



def run(tier="quick"):
    models = common.load_models(tier)
    rep = Report(PID, tier, models[0])
    rep.assumptions = ["trial functions initialise the event queue and the generator themselves (per-trial initialisers)",
                       "the neutral table is reviewed by reading (reasons recorded in the checker)"]
    rep.not_decided = ["bit-identity with a sequential run as such"]
    for m in models:
        rep.configs.append(m.config)
        common.run_rules(rep, m, rules)
    return rep.finish()
