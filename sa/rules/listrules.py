"""Shared rule: list-removal routines unlink and recycle exactly the node they matched."""
import re

from ..astutil import kids, walk, callee_ref
from ..frontend import AnalysisBroken
from ..engines import trace as TR

NODE = re.compile(r"^\((.+)->next - &NULL->(\w+)\)$")
POPPED = re.compile(r"^\(cmi_slist_pop\((.+)\) - &NULL->(\w+)\)$")


def check_list_removal(rep, rule, m, fname, must_free=True, _depth=0):
    """Every path of `fname` that returns a tag to a pool must (i) pop the list position whose successor it
    matched and (ii) free exactly the popped node."""
    f = m.need(fname)
    stats = {"paths": 0, "frees": 0}

    def region(dom, flow, st, tr, why, where, ev):
        stats["paths"] += 1
        calls = [e for e in tr if e[0] == "call"]
        frees = [c for c in calls if c[1] == "cmi_mempool_free"]
        pops = [c for c in calls if c[1] == "cmi_slist_pop"]
        matched = []
        for e in tr:
            if e[0] == "assume" and e[2]:
                for mm in re.finditer(r"\(([^()]+)->next - &NULL->\w+\)->(\w+) == ", e[1]):
                    matched.append(mm.group(1))
        # the pointer-to-link idiom: a cursor C of type node** ; the node under inspection is *C
        link_matched = []
        for e in tr:
            if e[0] == "assume":
                for mm in re.finditer(r"\((\*\w+(?:#L\d+)?) - &NULL->\w+\)->(\w+) (==|!=) ", e[1]):
                    if (mm.group(3) == "==") == bool(e[2]):
                        link_matched.append(mm.group(1))
        for fr in frees:
            stats["frees"] += 1
            tag = fr[2][1]
            ok = False
            why_not = "freed tag '%s' is not the node unlinked on this path" % tag
            mm = NODE.match(tag)
            pm = POPPED.match(tag)
            lm = re.match(r"^\((\*\w+(?:#L\d+)?)(?:@\d+)? - &NULL->\w+\)$", tag)
            if lm and not mm and not pm:
                cur = lm.group(1)
                before = tr[:tr.index(fr)] if fr in tr else tr
                unlinked = any(e[0] == "store" and e[1] == cur and e[2] == "=" and e[3] == cur + "->next" for e in before)
                ok = unlinked and (not link_matched or cur in link_matched)
                if not unlinked:
                    why_not = "the tag under the cursor '%s' is recycled but the link is not set to its successor first" % cur
                elif not ok:
                    why_not = "the node matched is under '%s' but the node unlinked and recycled is under '%s'" % (link_matched[-1], cur)
                rule.instance("%s: frees %s after '%s = %s->next' (matched under %s)" % (fname, tag, cur, cur, link_matched))
                if ok:
                    rule.ok()
                else:
                    rep.finding(rule, fname, "list-remove:wrong-node", "%s: %s; the list then keeps a stale entry and loses a "
                                "live one" % (fname, why_not), where=fr[3])
                    rule.fail()
                continue
            # the open-coded pop of the first node: n = H.next; H.next = n->next; ... free(container_of(n))
            hm = re.match(r"^\((.+(?:\.|->)next)@(\d+) - &NULL->\w+\)$", tag)
            if hm and not pm and not lm:
                link = hm.group(1)
                before = tr[:tr.index(fr)] if fr in tr else tr
                unl = [e for e in before if e[0] == "store" and e[1] == link and e[2] == "=" and e[3] == link + "->next"
                       and str(e[4]).endswith(":" + hm.group(2))]
                if unl:
                    rule.instance("%s: frees %s after '%s = %s->next'" % (fname, tag, link, link))
                    if matched and link[:-len("->next")] not in matched and link[:-len(".next")] not in matched:
                        rep.finding(rule, fname, "list-remove:wrong-node", "%s: the node matched follows '%s' but the node unlinked "
                                    "and recycled follows '%s'" % (fname, matched[-1], link), where=fr[3])
                        rule.fail()
                    else:
                        rule.ok()
                    continue
            if mm:
                pos = mm.group(1)
                ok = any(p[2][0] == pos for p in pops)
                if not ok:
                    why_not = "tag after '%s' is recycled but the list is popped at %s" % (pos, [p[2][0] for p in pops])
            elif pm:
                pos = pm.group(1)
                ok = True
            else:
                pos = None
                # the node pointer is a loop-carried local: accept if every value it is ever given is a popped node
                vm = re.match(r"^\((\w+)(?:#L\d+)? - &NULL->\w+\)$", tag)
                if vm:
                    from .. import inv as _inv
                    from ..vals import FuncCtx as _FC
                    from ..astutil import strip as _strip, kids as _kids
                    cx_ = _FC(m, f)
                    vals_ = []
                    for l_, r_, k_, n_ in _inv.stores(f):
                        ls_ = _strip(l_, casts=True)
                        if ls_["kind"] == "DeclRefExpr" and ls_["ref"]["name"] == vm.group(1):
                            vals_.append(cx_.canon(r_) if (r_ is not None and k_ == "=") else "?")
                    for d_ in walk(f.body):
                        if d_["kind"] == "VarDecl" and d_.get("name") == vm.group(1) and _kids(d_):
                            vals_.append(cx_.canon(_kids(d_)[0]))
                    pops_ = {v_ for v_ in vals_ if re.fullmatch(r"cmi_slist_pop\(.+\)", v_)}
                    if vals_ and len(pops_) == 1 and all(v_ in pops_ for v_ in vals_):
                        ok = True
                        pos = re.fullmatch(r"cmi_slist_pop\((.+)\)", next(iter(pops_))).group(1)
            if ok and matched and pos not in matched:
                ok = False
                why_not = "the node matched follows '%s' but the node unlinked and recycled follows '%s'" % (matched[-1], pos)
            rule.instance("%s: frees %s after pop at %s (matched after %s)" % (fname, tag, [p[2][0] for p in pops], matched))
            if ok:
                rule.ok()
            else:
                rep.finding(rule, fname, "list-remove:wrong-node", "%s: %s; the list then keeps a stale entry and loses a "
                            "live one" % (fname, why_not), where=fr[3])
                rule.fail()

    TR.run_traces(m, f, region)
    # the list that is unlinked from is the stored one, not a local copy of its head
    from .. import inv as _inv2
    from ..vals import FuncCtx as _FC2
    from ..astutil import kids as _kids2
    cx2 = _FC2(m, f)
    for c in walk(f.body):
        if c["kind"] == "CallExpr" and callee_ref(c) == "cmi_slist_pop" and len(_kids2(c)) > 1:
            root = _inv2.storage_root(cx2, f, _kids2(c)[1])
            if root is None:
                continue
            decl = [d for d in walk(f.body) if d["kind"] == "VarDecl" and d.get("name") == root]
            if decl and "*" not in (decl[0].get("type") or "") and (decl[0].get("type") or "").replace("const ", "").startswith("struct ") \
                    and _kids2(decl[0]) and decl[0].get("storageClass") != "static":
                ini = cx2.canon(_kids2(decl[0])[0])
                rule.instance("%s: unlinks from the list headed in local '%s' (a copy of %s)" % (fname, root, ini[:60]))
                rep.finding(rule, fname, "list-remove:copy", "%s unlinks the node from a list whose head lives in the local '%s', a copy "
                            "of %s: when the node is the first one only the copy is updated, the stored list keeps pointing at "
                            "a tag that has been returned to its pool" % (fname, root, ini[:80]), where=m.rel(c.get("file") and
                            "%s:%s" % (c.get("file"), c.get("line")) or f.where))
                rule.fail()
    if must_free and stats["frees"] == 0:
        # the unlink-and-recycle step may live in a helper this function calls: judge the helper
        helpers = []
        for c in walk(f.body):
            if c["kind"] == "CallExpr" and callee_ref(c):
                g = m.funcs.get(m.resolve(f.unit, callee_ref(c)))
                if g is not None and g is not f and (g.static or g.in_header) and \
                        any(y["kind"] == "CallExpr" and callee_ref(y) == "cmi_mempool_free" for y in walk(g.body)):
                    helpers.append(g.name)
        if len(set(helpers)) == 1 and _depth < 2:
            return check_list_removal(rep, rule, m, helpers[0], must_free, _depth + 1)
        raise AnalysisBroken("%s: no path recycles a tag (list-removal rule matched nothing)" % fname)
    return stats
