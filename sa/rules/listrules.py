"""Shared rule: list-removal routines unlink and recycle exactly the node they matched."""
import re

from ..astutil import kids, walk, callee_ref
from ..frontend import AnalysisBroken
from ..engines import trace as TR

NODE = re.compile(r"^\((.+)->next - &NULL->(\w+)\)$")
POPPED = re.compile(r"^\(cmi_slist_pop\((.+)\) - &NULL->(\w+)\)$")


def check_list_removal(rep, rule, m, fname, must_free=True):
    """Every path of `fname` that returns a tag to a pool must (i) pop the list position whose successor it
    matched and (ii) free exactly the popped node."""
    f = m.need(fname)
    stats = {"paths": 0, "frees": 0}

    def region(dom, flow, st, tr, why, where, ev):
        stats["paths"] += 1
        calls = [e for e in tr if e[0] == "call"]
        frees = [c for c in calls if c[1] == "cmi_mempool_free"]
        pops = [c for c in calls if c[1] == "cmi_slist_pop"]
        matched = []
        for e in tr:
            if e[0] == "assume" and e[2]:
                for mm in re.finditer(r"\(([^()]+)->next - &NULL->\w+\)->(\w+) == ", e[1]):
                    matched.append(mm.group(1))
        for fr in frees:
            stats["frees"] += 1
            tag = fr[2][1]
            ok = False
            why_not = "freed tag '%s' is not the node unlinked on this path" % tag
            mm = NODE.match(tag)
            pm = POPPED.match(tag)
            if mm:
                pos = mm.group(1)
                ok = any(p[2][0] == pos for p in pops)
                if not ok:
                    why_not = "tag after '%s' is recycled but the list is popped at %s" % (pos, [p[2][0] for p in pops])
            elif pm:
                pos = pm.group(1)
                ok = True
            else:
                pos = None
            if ok and matched and pos not in matched:
                ok = False
                why_not = "the node matched follows '%s' but the node unlinked and recycled follows '%s'" % (matched[-1], pos)
            rule.instance("%s: frees %s after pop at %s (matched after %s)" % (fname, tag, [p[2][0] for p in pops], matched))
            if ok:
                rule.ok()
            else:
                rep.finding(rule, fname, "list-remove:wrong-node", "%s: %s; the list then keeps a stale entry and loses a "
                            "live one" % (fname, why_not), where=fr[3])
                rule.fail()

    TR.run_traces(m, f, region)
    if must_free and stats["frees"] == 0:
        raise AnalysisBroken("%s: no path recycles a tag (list-removal rule matched nothing)" % fname)
    return stats
