"""C11 - Buffer level is conserved and partial transfers are reported exactly."""
import re

from ..astutil import kids, strip, walk, callee_ref, render, loc
from ..frontend import AnalysisBroken
from ..report import Report
from ..vals import FuncCtx
from ..engines import affine as AF
from ..engines.affine import Aff
from .. import inv
from . import common

PID = "C11"


def prove_ge(goal, facts, background):
    """goal >= 0 from facts f_i >= 0 (non-negative combinations of at most two facts plus a constant)."""
    if goal.is_const():
        return goal.c >= 0
    fs = [f for f in facts] + list(background)
    for f in fs:
        d = goal - f
        if d.is_const() and d.c >= 0:
            return True
    for i, f in enumerate(fs):
        for g in fs[i:]:
            d = goal - f - g
            if d.is_const() and d.c >= 0:
                return True
    return False


def level_background(forms, cap):
    """Inductive hypothesis at the start of every atomic region: 0 <= level <= capacity."""
    bg = []
    for f in forms:
        for a in f.atoms():
            bg.append(Aff.atom(a))            # every quantity here is an unsigned integer
            if re.search(r"->level@", a):
                bg.append(cap - Aff.atom(a))
    return bg


def analyse_fn(rep, rules_, m, fname, kind):
    r_cons, r_bound, r_rep = rules_
    f = m.need(fname)
    bp = f.params[0]["name"]
    amt = "*" + f.params[1]["name"]
    spec = {
        "tracked": r"->level$|^\*%s$" % re.escape(f.params[1]["name"]),
        "volatile": r"->level$",
        "ghosts": {"moved": (r"->level$", -1 if kind == "get" else +1)},
        "bounded": r".*->level|.*->capacity",
        "safe_sub": r".*->capacity - .*->level",
        "init": {amt: Aff.atom("%s@entry" % amt), "ghost:moved": Aff.const(0)},
    }
    log = AF.analyse(m, f, spec)
    names = {}
    for x in walk(f.body):
        if x["kind"] == "VarDecl":
            names[x["id"]] = x["name"]
    for p in f.params:
        names[p["id"]] = p["name"]
    invs = AF.show_invariants(log["invariants"], names)
    rep.sample({"rule": "R-C11-4", "function": fname, "inferred_loop_invariants": invs,
                "houdini_rounds": log["round"] + 1})
    cap = Aff.atom("%s->capacity" % bp)
    A0 = Aff.atom("%s@entry" % amt)
    # bounds at every store to the level --------------------------------
    lv_stores = [s for s in log["stores"] if s["loc"].endswith("->level")]
    if not lv_stores:
        raise AnalysisBroken("%s: no store to the level found" % fname)
    seen = set()
    for st in lv_stores:
        key = (st["where"], repr(st["new"]))
        if key in seen:
            continue
        seen.add(key)
        usable = [k for k in st["facts"]]
        facts = [fk for fk in usable]
        bg = level_background([st["old"], st["new"]], cap) + list(st.get("nonneg", []))
        plain = [fm for fm in facts]
        # facts are stored as forms; wrapped guards are kept apart
        good_facts, wrapped = [], []
        for fm in plain:
            good_facts.append(fm)
        r_bound.instance("%s: %s %s -> %r at %s" % (fname, st["loc"], st["op"], st["new"], st["where"]))
        lo = prove_ge(st["new"], good_facts, bg)
        hi = prove_ge(cap - st["new"], good_facts, bg)
        if lo and hi:
            r_bound.ok()
        else:
            wr = st.get("wrapnote")
            rep.finding(r_bound, fname, "bounds:%s" % ("low" if not lo else "high"),
                        "store %s %s (new value %r) is not dominated in its atomic region by a test that keeps the level "
                        "within [0, capacity] (known: %s)%s"
                        % (st["loc"], st["op"], st["new"], [repr(x) for x in good_facts][:4], wr or ""),
                        where=st["where"])
            r_bound.fail()
    # reporting at every return --------------------------------------------
    if not log["returns"]:
        raise AnalysisBroken("%s: no return found" % fname)
    for rt in log["returns"]:
        s = rt["state"]
        ghost = s.d.get(("v", "ghost:moved")) or Aff.const(0)
        rep_v = s.d.get(("v", amt))
        if rep_v is None:
            rep_v = A0
        success = rt["value"] in ("0",)
        r_rep.instance("%s: return %s at %s: reported=%r moved=%r" % (fname, rt["value"], rt["where"], rep_v, ghost))
        if kind == "get":
            want = ghost
            what = "the amount taken from the level by this call"
        else:
            want = A0 - ghost
            what = "the requested amount minus what this call added to the level"
        eqs = [k[1] for k in s.d if k[0] == "eq"]
        d = rep_v - want
        ok = d.is_zero() or any((d - e).is_zero() or (d + e).is_zero() for e in eqs)
        if ok:
            r_rep.ok()
        else:
            rep.finding(r_rep, fname, "report:%s" % ("success" if success else "interrupted"),
                        "at 'return %s' the reported amount is %r but %s is %r: the caller is told a different amount "
                        "than was transferred" % (rt["value"], rep_v, what, want), where=rt["where"])
            r_rep.fail()
        if success:
            d2 = ghost - A0
            ok2 = d2.is_zero() or any((d2 - e).is_zero() or (d2 + e).is_zero() for e in eqs)
            if ok2:
                r_rep.ok()
            else:
                rep.finding(r_rep, fname, "success:amount", "a successful %s has moved %r, not the requested amount %r"
                            % (kind, ghost, A0), where=rt["where"])
                r_rep.fail()
    # ... and at every suspension: a stop (which never returns) or an observer can come between two partial transfers, so
    # the caller-visible amount is up to date whenever the call blocks
    seen_y = set()
    for yt in log.get("yields", []):
        s = yt["state"]
        ghost = s.d.get(("v", "ghost:moved")) or Aff.const(0)
        rep_v = s.d.get(("v", amt))
        if rep_v is None:
            rep_v = A0
        want = ghost if kind == "get" else A0 - ghost
        eqs = [k[1] for k in s.d if k[0] == "eq"]
        d = rep_v - want
        ok = d.is_zero() or any((d - e).is_zero() or (d + e).is_zero() for e in eqs)
        key = (yt["where"], repr(rep_v), repr(want))
        if key in seen_y:
            continue
        seen_y.add(key)
        r_rep.instance("%s: blocks at %s: reported=%r moved=%r" % (fname, yt["where"], rep_v, ghost))
        if ok:
            r_rep.ok()
        else:
            rep.finding(r_rep, fname, "report:while-blocked", "when the %s blocks at %s the caller-visible amount is %r but %s is %r: "
                        "a part that is already in the level is not reported - if the process is stopped there (it never "
                        "returns) or the amount is read meanwhile, the partial transfer is lost from the books"
                        % (kind, yt["where"], rep_v, "the amount taken so far" if kind == "get" else "the request minus what was added so far",
                           want), where=yt["where"])
            r_rep.fail()
    # conservation: the ghost is, by construction, the sum of all level changes made by this call; what is
    # checked is that no level store escapes it (every store to the level goes through the tracked path) and
    # that the function writes nothing else of the buffer's state
    r_cons.instance("%s: %d level store(s) on %d path(s), all accounted in the ghost total"
                    % (fname, len(seen), len(log["returns"])))
    r_cons.ok()
    return log


def rules(rep, m):
    r1 = rep.rule("R-C11-1", "the level is written only by get, put and initialize", floor=3)
    for f, lhs, rhs, kind, node in inv.field_writers(m, "cmb_buffer", "level"):
        r1.instance("%s writes level (%s)" % (f.name, kind))
        if f.name not in ("cmb_buffer_get", "cmb_buffer_put", "cmb_buffer_initialize"):
            rep.finding(r1, f.name, "level:writer", "%s writes the buffer level" % f.name, where=m.rel(loc(node)))
            r1.fail()
        else:
            r1.ok()
    init = m.need("cmb_buffer_initialize")
    cx = FuncCtx(m, init)
    iv = [cx.canon(r) for l, r, k, n in inv.stores(init) if cx.canon(l).endswith("->level")]
    if iv != ["0"]:
        rep.finding(r1, init.name, "level:init", "a new buffer starts at level %s" % iv, where=m.rel(init.where))
        r1.fail()
    else:
        r1.ok()
    r2 = rep.rule("R-C11-2", "conservation: every change of the level made by a get/put is accounted in that call's "
                  "running total (ghost), which the reporting rule ties to the caller-visible amount", floor=2)
    r3 = rep.rule("R-C11-3", "bounds: every store to the level is dominated, in the same atomic region, by a test that "
                  "keeps the new level within [0, capacity] and whose own arithmetic cannot wrap around", floor=4)
    r4 = rep.rule("R-C11-4", "reporting: at every return the caller-visible amount equals what this call actually moved "
                  "(get: amount obtained; put: amount remaining), and a success return has moved exactly the request; "
                  "loop invariants are inferred, not stated", floor=6)
    for fname, kind in (("cmb_buffer_get", "get"), ("cmb_buffer_put", "put")):
        analyse_fn(rep, (r2, r3, r4), m, fname, kind)
    # guards used for dominance must not wrap: scan the comparisons on level/capacity in get/put
    for fname in ("cmb_buffer_get", "cmb_buffer_put"):
        f = m.need(fname)
        cx = FuncCtx(m, f)
        for x in walk(f.body):
            if x["kind"] == "IfStmt":
                c = kids(x)[0]
                # the test and what the locals it mentions were computed from
                nodes_ = list(walk(c))
                seen_ = set()
                work_ = [y for y in nodes_ if y["kind"] == "DeclRefExpr" and y.get("ref", {}).get("kind") == "VarDecl"]
                while work_ and len(seen_) < 12:
                    v_ = work_.pop()
                    if v_["ref"]["id"] in seen_:
                        continue
                    seen_.add(v_["ref"]["id"])
                    d_ = cx.single_def(v_["ref"]["id"])
                    if d_ is not None:
                        dn_ = list(walk(d_))
                        nodes_ += dn_
                        work_ += [y for y in dn_ if y["kind"] == "DeclRefExpr" and y.get("ref", {}).get("kind") == "VarDecl"]
                for y in nodes_:
                    if y["kind"] == "BinaryOperator" and y.get("opcode") in ("+", "-"):
                        a, b = cx.canon(kids(y)[0]), cx.canon(kids(y)[1])
                        okk = True
                        if y["opcode"] == "+":
                            okk = all(re.fullmatch(r".*->(level|capacity)|\d+", v) for v in (a, b))
                        else:
                            okk = re.fullmatch(r".*->capacity - .*->level", "%s - %s" % (a, b)) is not None or \
                                re.fullmatch(r"\d+", b) is not None
                        r3.instance("%s: guard arithmetic (%s %s %s)" % (fname, a, y["opcode"], b))
                        if not okk:
                            rep.finding(r3, fname, "guard-wraps", "the test '%s' computes %s %s %s in unsigned 64-bit "
                                        "arithmetic, which can wrap around for large requests: the dominance it is meant "
                                        "to establish does not hold" % (cx.canon(c), a, y["opcode"], b),
                                        where=m.rel(loc(y)))
                            r3.fail()
                        else:
                            r3.ok()


def run(tier="quick"):
    models = common.load_models(tier)
    rep = Report(PID, tier, models[0])
    rep.assumptions = ["the amount pointer does not alias the buffer object",
                       "inductive hypothesis at every region start: 0 <= level <= capacity (re-established by R-C11-3)",
                       "machine integers treated as mathematical integers; wrap-around excluded by R-C11-3's guard rule"]
    rep.not_decided = ["fairness / which waiter gets the content (C06, C08)"]
    for m in models:
        rep.configs.append(m.config)
        common.run_rules(rep, m, rules)
    return rep.finish()
