"""C12 - Queued objects are delivered exactly once, in FIFO/priority order, within capacity."""
import re

from ..astutil import kids, strip, walk, callee_ref, render, loc, int_value
from ..frontend import AnalysisBroken
from ..report import Report
from ..vals import FuncCtx
from ..engines import trace as TR
from .. import inv
from . import common

PID = "C12"
PQ_SPEC = [("isortkey", "desc"), ("key", "asc")]


def _assumed(trace, pattern, truth=True, upto=None):
    t = trace if upto is None else trace[:upto]
    if any(e[0] == "assume" and e[2] == truth and re.fullmatch(pattern, e[1]) for e in t):
        return True
    # the complementary spelling with the opposite outcome is the same fact
    if " == " in pattern:
        comp = pattern.replace(" == ", " != ")
        return any(e[0] == "assume" and e[2] == (not truth) and re.fullmatch(comp, e[1]) for e in t)
    if " != " in pattern:
        comp = pattern.replace(" != ", " == ")
        return any(e[0] == "assume" and e[2] == (not truth) and re.fullmatch(comp, e[1]) for e in t)
    return False


def rules(rep, m):
    SIG = common.signal_table(m)
    # R-C12-1 ------------------------------------------------------------
    r1 = rep.rule("R-C12-1", "the priority queue's comparator is the strict total order lex(priority descending, "
                  "handle ascending); put enqueues with key 0 (auto handle, so equal priorities are FIFO); the "
                  "position query counts with the queue's own comparator", floor=3)
    cmpf = common.installed_comparator(m, "cmb_priorityqueue_initialize")
    common.ord_rule(rep, r1, m, cmpf, PQ_SPEC, "key", "the strict total order (priority desc, handle asc)")
    put = m.need("cmb_priorityqueue_put")
    pcx = FuncCtx(m, put)
    enq = [c for c in walk(put.body) if c["kind"] == "CallExpr" and callee_ref(c) == "cmi_hashheap_enqueue"]
    if not enq:
        raise AnalysisBroken("cmb_priorityqueue_put: no enqueue found")
    pn = [p["name"] for p in put.params]
    for e_ in enq:
        a = [pcx.canon(x) for x in kids(e_)[1:]]
        r1.instance("put enqueues (%s)" % ", ".join(a))
        rep.sample({"rule": "R-C12-1", "put_enqueue": a})
        ok = a[0] == "&%s->queue" % pn[0] and a[1] == pn[1] and a[5] == "0" and a[7] == pn[2]
        if not ok:
            rep.finding(r1, put.name, "put:args", "put enqueues (%s); expected (&queue, object, .., key 0, .., priority)"
                        % ", ".join(a), where=m.rel(loc(e_)))
            r1.fail()
        else:
            r1.ok()
        # cancellation, reprioritisation and the position query go by handle: every enqueue hands its handle to the caller
        if len(put.params) > 3:
            hl = put.params[3]["name"]
            stored = False
            for l_, r_, k_, n_ in inv.stores(put):
                l0 = strip(l_, casts=True)
                tgt_ = pcx.canon(kids(l0)[0]) if l0["kind"] == "UnaryOperator" and l0.get("opcode") == "*" else ""
                # the caller's location, also when a dummy stands in for a NULL one: (hl != NULL) ? hl : &dummy
                to_caller = tgt_ == hl or re.fullmatch(r"\(\(%s != NULL\) \? %s : &\w+\)|\(%s \? %s : &\w+\)|\(\(%s == NULL\) \? &\w+ : %s\)"
                                                       % ((re.escape(hl),) * 6), tgt_) is not None
                if to_caller and r_ is not None and k_ == "=":
                    src = pcx.resolve(r_)
                    if src is e_ or any(y is e_ for y in walk(src)):
                        extra = [cd for cd in inv.dominating_conditions(pcx, put, n_) if cd not in inv.dominating_conditions(pcx, put, e_)]
                        if all(cd in ("(%s != NULL)" % hl, "!(%s == NULL)" % hl, hl) for cd in extra):
                            stored = True
            r1.instance("the handle of this enqueue is stored through '%s': %s" % (hl, stored))
            if not stored:
                rep.finding(r1, put.name, "put:handle-not-stored", "on the path through the enqueue at line %s the handle of the queued "
                            "object is not stored through '%s': the caller keeps an old (or zero) handle, so a later cancel, "
                            "reprioritise or position query names another object" % (e_.get("line"), hl), where=m.rel(loc(e_)))
                r1.fail()
            else:
                r1.ok()
    pos = m.need("cmb_priorityqueue_position")
    xcx = FuncCtx(m, pos)
    ind = [c for c in walk(pos.body) if c["kind"] == "CallExpr" and callee_ref(c) is None]
    r1.instance("position: %d comparator call(s)" % len(ind))
    good = False
    for c in ind:
        callee = xcx.canon(kids(c)[0])
        a2 = [xcx.canon(x) for x in kids(c)[1:]]
        tgt = "&%s->queue->heap[cmi_hash_find_index(&%s->queue, %s)]" % (pos.params[0]["name"], pos.params[0]["name"],
                                                                           pos.params[1]["name"])
        # the first operand is the entry the enclosing heap walk is at (subscript or walking pointer), the second the
        # target located through the handle
        walker = "heap[" in a2[0]
        if not walker:
            from . import siftrules
            for f_, lp_, H_ in siftrules.heap_walks(m):
                if f_ is pos and any(y is c for y in walk(lp_)) and lp_["kind"] == "ForStmt":
                    lvs = [d["name"] for d in walk(kids(lp_)[0]) if d["kind"] == "VarDecl"]
                    if render(strip(kids(c)[1], casts=True)) in lvs:
                        walker = True
        if len(a2) == 2 and re.fullmatch(r"\w+", a2[1]):
            # a local that is given the located entry on one branch (and NULL, followed by a return, on the other)
            vals_ = [xcx.canon(r_) for l_, r_, k_, n_ in inv.stores(pos)
                     if r_ is not None and render(strip(l_, casts=True)) == a2[1] and k_ == "="]
            vals_ = [v_ for v_ in vals_ if v_ not in ("NULL", "0")]
            if vals_ and all("find_index" in v_ or v_.startswith("&" + pos.params[0]["name"]) for v_ in vals_):
                a2[1] = vals_[0]
        if not walker:
            # a cursor of any enclosing loop that starts in the heap array
            w0 = strip(kids(c)[1], casts=True)
            for lp_ in [a_ for a_ in inv.enclosing_chain(pos, c) if a_["kind"] in ("ForStmt", "WhileStmt", "DoStmt")]:
                iv_, g_ = inv.induction_vars(xcx, pos, lp_)
                if w0["kind"] == "DeclRefExpr" and w0["ref"]["name"] in iv_ and "heap" in (iv_[w0["ref"]["name"]][0] or ""):
                    walker = True
        if len(a2) == 2 and re.fullmatch(r"\w+", a2[1]):
            # the target through locals: every value it can hold is NULL (with a return in front of the walk) or the entry
            # located by the handle
            def values_of(name_, depth_=0):
                out_ = []
                for l_, r_, k_, n_ in inv.stores(pos):
                    if r_ is not None and render(strip(l_, casts=True)) == name_ and k_ == "=":
                        out_.append(r_)
                for d_ in walk(pos.body):
                    if d_["kind"] == "VarDecl" and d_.get("name") == name_ and kids(d_):
                        out_.append(kids(d_)[0])
                res_ = []
                for r_ in out_:
                    r0 = strip(r_, casts=True)
                    if r0["kind"] == "ConditionalOperator":
                        arms_ = [kids(r0)[1], kids(r0)[2]]
                    else:
                        arms_ = [r0]
                    for a_ in arms_:
                        a0 = strip(a_, casts=True)
                        if a0["kind"] == "DeclRefExpr" and a0["ref"].get("kind") == "VarDecl" and a0["ref"]["name"] != name_ and depth_ < 3:
                            res_ += values_of(a0["ref"]["name"], depth_ + 1)
                        else:
                            res_.append(xcx.canon(a0))
                return res_
            vs_ = [v_ for v_ in values_of(a2[1]) if v_ not in ("NULL", "0")]
            if vs_ and all("find_index" in v_ and pos.params[1]["name"] in v_ for v_ in vs_):
                a2[1] = vs_[0]
        if callee.lstrip("*(").rstrip(")").endswith("heap_compare") and len(a2) == 2 and walker and \
                (a2[1].replace("(", "").replace(")", "").startswith(("&" + pos.params[0]["name"]))
                 or "find_index" in a2[1]) and inv.in_loop(pos, c):
            good = True
    if not good:
        rep.finding(r1, pos.name, "position:comparator", "the position query does not count entries that the queue's "
                    "own comparator puts before the target", where=m.rel(pos.where))
        r1.fail()
    else:
        r1.ok()
    rp = m.need("cmb_priorityqueue_reprioritize")
    rcx = FuncCtx(m, rp)
    rc = [c for c in walk(rp.body) if c["kind"] == "CallExpr" and callee_ref(c) == "cmi_hashheap_reprioritize"]
    if len(rc) != 1:
        raise AnalysisBroken("cmb_priorityqueue_reprioritize: expected one hashheap call")
    a = [rcx.canon(x) for x in kids(rc[0])[1:]]
    r1.instance("reprioritize -> (%s)" % ", ".join(a))
    if a[0] != "&%s->queue" % rp.params[0]["name"] or a[1] != rp.params[1]["name"] or a[3] != rp.params[2]["name"]:
        rep.finding(r1, rp.name, "reprioritize:args", "reprioritize passes (%s)" % ", ".join(a), where=m.rel(loc(rc[0])))
        r1.fail()
    else:
        r1.ok()

    # honoured on every path: the only reason not to reshuffle is that the *named* entry already has that priority
    q_, h_, p_ = ("&%s->queue" % rp.params[0]["name"]), rp.params[1]["name"], rp.params[2]["name"]
    own = re.compile(r"^!?\((?:cmi_hashheap_ikey\(%s, %s\) (?:==|!=) %s|%s (?:==|!=) cmi_hashheap_ikey\(%s, %s\))\)$"
                     % (re.escape(q_), re.escape(h_), re.escape(p_), re.escape(p_), re.escape(q_), re.escape(h_)))
    conds = inv.dominating_conditions(rcx, rp, rc[0])
    bad = [cd for cd in conds if not own.match(cd) and "cmi_hashheap_is_enqueued(%s, %s)" % (q_, h_) not in cd]
    r1.instance("reprioritize is reached under %s" % (conds or "no condition"))
    if bad:
        rep.finding(r1, rp.name, "reprioritize:skipped", "the new priority is applied only under %s: a condition on anything but "
                    "the named entry's own current priority leaves the entry at its old priority, and it is then delivered "
                    "out of order" % bad, where=m.rel(loc(rc[0])))
        r1.fail()
    else:
        r1.ok()

    # trace-based rules ----------------------------------------------------
    r2 = rep.rule("R-C12-2", "every insertion (length++ / enqueue on the queue's heap) is dominated, in the same "
                  "atomic region, by the test length < capacity", floor=2)
    r3 = rep.rule("R-C12-3", "object queue: a put links a freshly allocated tag carrying the object exactly once at the "
                  "tail (head when empty) in the region that raises the length; a successful get unlinks the head, "
                  "lowers the length, copies the tag's object to the caller before the tag is cleared and returned to "
                  "the pool, and resets the tail when the list becomes empty", floor=2)
    r4 = rep.rule("R-C12-4", "a get that does not return success stores NULL to the caller's location and changes no "
                  "queue state in that region; a successful priority-queue get delivers the payload of the dequeued head",
                  floor=4)

    def check_region(dom, flow, s, tr, why, where, ev):
        root = dom.root.name
        if not why.startswith("return"):
            # region ends in a wait: nothing may be half-done
            st = [e for e in tr if e[0] == "store" and re.search(r"->(length|queue_head|queue_end)$", e[1])]
            if st and root in ("cmb_objectqueue_get", "cmb_objectqueue_put"):
                rep.finding(r3, root, "half-done-at-wait", "queue state written (%s) and then the process blocks in the "
                            "same region" % st[0][1], where=where)
            return
        retval = ev[1]
        success = retval in ("0", "CMB_PROCESS_SUCCESS")
        stores = [(i, e) for i, e in enumerate(tr) if e[0] == "store"]
        calls = [(i, e) for i, e in enumerate(tr) if e[0] == "call"]
        if root == "cmb_objectqueue_put":
            O = dom.root.params[0]["name"]
            obj = dom.root.params[1]["name"]
            incs = [(i, e) for i, e in stores if e[1] == O + "->length" and e[2] in ("+=", "++")]
            if success:
                r2.instance("%s: success path at %s" % (root, where))
                if len(incs) != 1:
                    rep.finding(r3, root, "put:length", "successful put raises the length %d times" % len(incs), where=where)
                    r3.fail()
                    return
                i_inc = incs[0][0]
                if not common.rel_assumed(tr, O + "->length", "<", O + "->capacity", i_inc):
                    rep.finding(r2, root, "insert-without-capacity-test", "length is raised on a path where 'length < "
                                "capacity' was not established in the same atomic region", where=incs[0][1][4])
                    r2.fail()
                else:
                    r2.ok()
                allocs = [e for i, e in calls if e[1] == "cmi_mempool_alloc"]
                if len(allocs) != 1:
                    rep.finding(r3, root, "put:alloc", "successful put allocates %d tags" % len(allocs), where=where)
                    r3.fail()
                    return
                T = allocs[0][5]
                r3.instance("put success path: tag %s" % T)
                st = {e[1]: e[3] for i, e in stores}
                okobj = st.get(T + "->object") == obj
                oknext = st.get(T + "->next") == "NULL"
                head_null = _assumed(tr, r"\(%s->queue_head == NULL\)" % O, True)
                if head_null:
                    linked = st.get(O + "->queue_head") == T
                else:
                    linked = any(e[1].endswith("->next") and e[1] != T + "->next" and e[3] == T and
                                 re.match(re.escape(O) + r"->queue_end", e[1]) for i, e in stores)
                tail = st.get(O + "->queue_end") == T
                nlinks = sum(1 for i, e in stores if e[3] == T and e[1] != O + "->queue_end")
                rep.sample({"rule": "R-C12-3", "path": "put(head %s)" % ("empty" if head_null else "non-empty"),
                            "trace": TR.fmt(tr)})
                for cond_ok, key, msg in ((okobj, "put:object", "the tag does not carry the caller's object"),
                                          (oknext, "put:next", "the new tag's next pointer is not cleared"),
                                          (linked, "put:link", "the new tag is not linked at the %s" %
                                           ("head of the empty list" if head_null else "tail")),
                                          (tail, "put:tail", "queue_end is not moved to the new tag"),
                                          (nlinks == 1, "put:link-once", "the new tag is linked %d times" % nlinks)):
                    if cond_ok:
                        r3.ok()
                    else:
                        rep.finding(r3, root, key, "successful put: " + msg, where=where)
                        r3.fail()
            else:
                if incs or any(e[1].startswith(O + "->queue_") for i, e in stores):
                    rep.finding(r4, root, "put:fail-mutates", "a put that does not succeed changes the queue", where=where)
                    r4.fail()
        elif root == "cmb_objectqueue_get":
            O = dom.root.params[0]["name"]
            loc_ = "*" + dom.root.params[1]["name"]
            decs = [(i, e) for i, e in stores if e[1] == O + "->length" and e[2] in ("-=", "--")]
            outs = [(i, e) for i, e in stores if e[1] == loc_]
            if success:
                r3.instance("get success path at %s" % where)
                rep.sample({"rule": "R-C12-3", "path": "get", "trace": TR.fmt(tr)})
                heads = [(i, e) for i, e in stores if e[1] == O + "->queue_head"]
                frees = [(i, e) for i, e in calls if e[1] == "cmi_mempool_free"]
                ok = len(decs) == 1 and len(outs) == 1 and len(heads) == 1 and len(frees) == 1
                if not ok:
                    rep.finding(r3, root, "get:shape", "successful get has %d length decrements, %d deliveries, %d head "
                                "updates, %d tag frees (each must be exactly 1)" % (len(decs), len(outs), len(heads),
                                                                                    len(frees)), where=where)
                    r3.fail()
                    return
                T = frees[0][1][2][1]       # the tag handed back to the pool
                # T is the old head: the new head is T->next
                hv = heads[0][1][3]
                if not (hv == re.sub(r"@\d+", "", T) + "->next" and
                        re.fullmatch(re.escape(O) + r"->queue_head(@\d+)?", T)):
                    rep.finding(r3, root, "get:unlink", "the head is advanced to '%s' while tag '%s' is freed: the freed "
                                "tag is not the unlinked head" % (hv, T), where=heads[0][1][4])
                    r3.fail()
                else:
                    r3.ok()
                dv = outs[0][1][3]
                clear = [i for i, e in stores if e[1] == T + "->object" and e[3] == "NULL"]
                if dv != T + "->object":
                    rep.finding(r3, root, "get:deliver", "the caller receives '%s', not the head tag's object" % dv,
                                where=outs[0][1][4])
                    r3.fail()
                elif outs[0][0] > frees[0][0] or (clear and clear[0] < outs[0][0]):
                    rep.finding(r3, root, "get:deliver-late", "the object is copied to the caller after the tag was "
                                "cleared or returned to the pool", where=outs[0][1][4])
                    r3.fail()
                else:
                    r3.ok()
                # tail reset when the list becomes empty
                empty = _assumed(tr, r"\(%s->queue_head == NULL\)" % O, True) and \
                    any(e[0] == "assume" and i > heads[0][0] for i, e in enumerate(tr)
                        if e[0] == "assume" and re.fullmatch(r"\(%s->queue_head == NULL\)" % O, e[1]) and e[2])
                tailreset = any(e[1] == O + "->queue_end" and e[3] == "NULL" for i, e in stores)
                if empty and not tailreset:
                    rep.finding(r3, root, "get:tail", "the list became empty but queue_end still points at the freed tag",
                                where=where)
                    r3.fail()
                else:
                    r3.ok()
            else:
                r4.instance("objectqueue get non-success path at %s" % where)
                if decs or any(e[1].startswith(O + "->queue_") for i, e in stores):
                    rep.finding(r4, root, "get:fail-mutates", "a get that does not succeed changes the queue", where=where)
                    r4.fail()
                elif not (outs and outs[-1][1][3] == "NULL"):
                    rep.finding(r4, root, "get:fail-delivers", "a get that does not succeed does not store NULL to the "
                                "caller's location", where=where)
                    r4.fail()
                else:
                    r4.ok()
        elif root == "cmb_priorityqueue_put":
            O = dom.root.params[0]["name"]
            ins = [(i, e) for i, e in calls if e[1] == "cmi_hashheap_enqueue" and e[2][0] == "&%s->queue" % O]
            if success:
                r2.instance("%s: success path at %s" % (root, where))
                if len(ins) != 1:
                    rep.finding(r2, root, "put:count", "successful put enqueues %d times" % len(ins), where=where)
                    r2.fail()
                elif not common.rel_assumed(tr, O + "->queue.heap_count", "<", O + "->capacity", ins[0][0]):
                    rep.finding(r2, root, "insert-without-capacity-test", "the object is enqueued on a path where "
                                "'length < capacity' was not established in the same atomic region", where=ins[0][1][3])
                    r2.fail()
                else:
                    r2.ok()
                hl = "*" + dom.root.params[3]["name"]
                hs = [e for i, e in stores if e[1] == hl]
                if _assumed(tr, r"\(%s != NULL\)" % dom.root.params[3]["name"], True) and \
                        not (hs and hs[0][3] == ins[0][1][5] if ins else False):
                    rep.finding(r2, root, "put:handle", "the caller does not receive the handle issued for its object",
                                where=where)
                    r2.fail()
            elif ins:
                rep.finding(r4, root, "put:fail-mutates", "a put that does not succeed changes the queue", where=where)
                r4.fail()
        elif root == "cmb_priorityqueue_get":
            O = dom.root.params[0]["name"]
            loc_ = "*" + dom.root.params[1]["name"]
            deq = [(i, e) for i, e in calls if e[1] == "cmi_hashheap_dequeue" and e[2][0] == "&%s->queue" % O]
            outs = [(i, e) for i, e in stores if e[1] == loc_]
            if success:
                r4.instance("priorityqueue get success path at %s" % where)
                rep.sample({"rule": "R-C12-4", "path": "pq get", "trace": TR.fmt(tr)})
                want = None
                if deq:
                    want = ("*" + deq[0][1][5], deq[0][1][5] + "[0]")
                if len(deq) != 1 or len(outs) != 1 or outs[0][1][3] not in (want or ()):
                    rep.finding(r4, root, "get:deliver", "successful get dequeues %d time(s) and delivers %s; expected the "
                                "payload of the one dequeued head" % (len(deq), [e[3] for i, e in outs]), where=where)
                    r4.fail()
                elif not _assumed(tr, r"\(%s->queue\.heap_count > 0\)" % O, True, deq[0][0]) and \
                        not _assumed(tr, r"\(%s->queue\.heap_count != 0\)" % O, True, deq[0][0]):
                    rep.finding(r4, root, "get:empty", "the head is dequeued without a test that the queue is non-empty in "
                                "the same atomic region", where=where)
                    r4.fail()
                else:
                    r4.ok()
            else:
                r4.instance("priorityqueue get non-success path at %s" % where)
                if deq:
                    rep.finding(r4, root, "get:fail-mutates", "a get that does not succeed changes the queue", where=where)
                    r4.fail()
                elif not (outs and outs[-1][1][3] == "NULL"):
                    rep.finding(r4, root, "get:fail-delivers", "a get that does not succeed does not store NULL to the "
                                "caller's location", where=where)
                    r4.fail()
                else:
                    r4.ok()

    for fn in ("cmb_objectqueue_put", "cmb_objectqueue_get", "cmb_priorityqueue_put", "cmb_priorityqueue_get"):
        TR.run_traces(m, m.need(fn), check_region)

    # who-writes ---------------------------------------------------------
    r5 = rep.rule("R-C12-5", "the list fields of an object queue are written only by put, get, initialize and terminate; "
                  "the length queries return the live length", floor=6)
    for fld in ("length", "queue_head", "queue_end"):
        for f, lhs, rhs, kind, node in inv.field_writers(m, "cmb_objectqueue", fld):
            r5.instance("%s writes %s" % (f.name, fld))
            if f.name not in ("cmb_objectqueue_put", "cmb_objectqueue_get", "cmb_objectqueue_initialize",
                              "cmb_objectqueue_terminate"):
                rep.finding(r5, f.name, "writer:" + fld, "%s writes cmb_objectqueue.%s" % (f.name, fld),
                            where=m.rel(loc(node)))
                r5.fail()
            else:
                r5.ok()
    for qn, want in (("cmb_objectqueue_length", "{0}->length"), ("cmb_priorityqueue_length", "{0}->queue.heap_count"),
                     ("cmb_objectqueue_space", "({0}->capacity - {0}->length)"),
                     ("cmb_priorityqueue_space", "({0}->capacity - {0}->queue.heap_count)")):
        f = m.need(qn)
        cx = FuncCtx(m, f)
        rv = [cx.canon(kids(x)[0]) for x in walk(f.body) if x["kind"] == "ReturnStmt"]
        # a space query may go through the length query of its own class (judged in this same loop)
        for ln, lw in (("cmb_objectqueue_length", "{0}->length"), ("cmb_priorityqueue_length", "{0}->queue.heap_count")):
            rv = [re.sub(re.escape(ln) + r"\((\w+)\)", lambda mm_: lw.format(mm_.group(1)), v_) for v_ in rv]
        r5.instance("%s returns %s" % (qn, rv))
        if rv != [want.format(f.params[0]["name"])]:
            rep.finding(r5, qn, "query", "%s returns %s" % (qn, rv), where=m.rel(f.where))
            r5.fail()
        else:
            r5.ok()
    # the priority queue's heap is touched only through put/get/cancel/reprioritize/position and lifecycle
    allowed = {"cmb_priorityqueue_put", "cmb_priorityqueue_get", "cmb_priorityqueue_cancel",
               "cmb_priorityqueue_reprioritize", "cmb_priorityqueue_initialize", "cmb_priorityqueue_terminate"}
    for f in m.funcs.values():
        if not (m.rel(f.file) or "").startswith(("src/cmb_priorityqueue", "include/cmb_priorityqueue")):
            continue
        cx = None
        for c in walk(f.body):
            if c["kind"] == "CallExpr" and callee_ref(c) in ("cmi_hashheap_enqueue", "cmi_hashheap_dequeue",
                                                            "cmi_hashheap_remove", "cmi_hashheap_cancel",
                                                            "cmi_hashheap_clear", "cmi_hashheap_reprioritize"):
                r5.instance("%s calls %s" % (f.name, callee_ref(c)))
                if f.name not in allowed:
                    rep.finding(r5, f.name, "heap-writer", "%s restructures the priority queue's heap" % f.name,
                                where=m.rel(loc(c)))
                    r5.fail()
                else:
                    r5.ok()


    # R-C12-6 ------------------------------------------------------------
    rs = rep.rule("R-C12-6", "the priority queue delivers the object the comparator puts first: one round of the heap's sift loops keeps the heap order for every arrangement of "
                  "children and every order of the tags involved (shared with R-C02-8)", floor=6)
    from . import siftrules
    siftrules.check_sifts(rep, rs, m)

    # R-C12-7 ------------------------------------------------------------
    r7 = rep.rule("R-C12-7", "the position query agrees with the delivery order only if it looks at every queued object: the scan "
                  "in cmb_priorityqueue_position (and the heap's own pattern scans it relies on) covers exactly the slots "
                  "1 .. heap_count of the 1-based heap array (shared with R-C02-9)", floor=1)
    siftrules.check_scans(rep, r7, m, only={"cmb_priorityqueue_position", "cmi_hashheap_pattern_find", "cmi_hashheap_pattern_count",
                                            "cmi_hashheap_pattern_cancel"})


def run(tier="quick"):
    models = common.load_models(tier)
    rep = Report(PID, tier, models[0])
    rep.exhaustive = True
    rep.assumptions = ["objectloc / handleloc do not point into the queue object",
                       "user callbacks do not yield inside library regions"]
    rep.not_decided = ["FIFO order of the linked list as a shape property beyond the append/pop idioms",
                       "heap order (C02)"]
    for m in models:
        rep.configs.append(m.config)
        common.run_rules(rep, m, rules)
    return rep.finish()
