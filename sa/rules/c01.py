"""C01 - Events run exactly once, in (time, priority, FIFO) order; clock is monotone."""
import itertools
import re

from ..astutil import kids, strip, walk, callee_ref, render, loc, int_value, is_null_expr
from ..frontend import AnalysisBroken
from ..report import Report
from ..vals import FuncCtx, is_assert_stmt, is_logger_call, assert_condition
from ..engines.boolfun import BoolEval
from .. import inv
from . import common

PID = "C01"
EVENT_SPEC = [("dsortkey", "asc"), ("isortkey", "desc"), ("key", "asc")]
EVENT_UNIT = "src/cmb_event.c"


def _event_queue_arg(cx, call):
    return cx.canon(kids(call)[1]) == "event_queue"


def pattern_predicate_table(m, func, body_or_expr, npos, cx, is_body):
    """Truth table of a wildcard-match predicate over atoms e_i (value equals stored item i)
    and w_i (value is the wildcard).  Returns (table, pairing) where pairing maps position ->
    canonical name of the value compared there."""
    pairing = {}
    if is_body:
        from ..normalize import unroll_const_loops
        import copy as _copy
        body_or_expr = unroll_const_loops(body_or_expr)        # a loop over the positions with literal bounds
        known_ids = {x.get("id") for x in walk(func.body) if x["kind"] == "VarDecl"}
        if any(x["kind"] == "VarDecl" and x.get("id") not in known_ids for x in walk(body_or_expr)):
            # the rounds declare their own copies of the body's locals: read them in the unrolled body (next to the
            # function's own declarations, which the predicate may still refer to)
            f2 = _copy.copy(func)
            f2.body = {"kind": "CompoundStmt", "inner": [func.body, body_or_expr]} if body_or_expr is not func.body else body_or_expr
            cx = FuncCtx(m, f2)

    def classify(n):
        n = strip(n, casts=True)
        if n["kind"] != "BinaryOperator" or n.get("opcode") not in ("==", "!="):
            raise AnalysisBroken("%s: unsupported atom %s" % (func.name, render(n)))
        a, b = cx.canon(kids(n)[0]), cx.canon(kids(n)[1])
        neg = n["opcode"] == "!="
        for x, y in ((a, b), (b, a)):
            mm = re.search(r"item\[(\d+)\]$", y)
            if mm:
                return ("e", int(mm.group(1)), x, neg)
        for x, y in ((a, b), (b, a)):
            if re.fullmatch(r"\(?-?(18446744073709551615|0x[fF]+|1)\)?|.*ANY.*|-1", y) or \
                    y in ("18446744073709551615", "-1"):
                return ("w", None, x, neg)
        raise _Unclassified(render(n))

    table = {}
    for bits in itertools.product((False, True), repeat=2 * npos):
        e = bits[:npos]
        w = bits[npos:]

        def atom(n):
            n1 = strip(n, casts=True)
            if n1["kind"] == "DeclRefExpr" and n1.get("ref", {}).get("kind") == "VarDecl":
                d_ = cx.single_def(n1["ref"]["id"])
                if d_ is not None:
                    return ev.expr(d_)          # a named boolean temporary stands for its definition
            kind, idx, val, neg = classify(n)
            if kind == "e":
                pairing.setdefault(("e", idx), val)
                if idx >= npos:
                    # positions beyond those the caller can set: always passed the wildcard
                    return (not neg) if False else (False != neg)
                v = e[idx]
            else:
                # which position does this value belong to? by the value's name
                pos = None
                for (kk, i), vv in pairing.items():
                    if kk == "e" and vv == val:
                        pos = i
                if pos is None:
                    pairing.setdefault(("w?", val), val)
                    raise _Defer(val)
                if pos >= npos:
                    return True != neg
                v = w[pos]
            return v != neg
        ev = BoolEval(atom, func.name)
        try:
            res = ev.run_body(body_or_expr) if is_body else ev.expr(body_or_expr)
        except _Defer:
            # wildcard atom seen before its equality atom: evaluate again after a discovery pass
            _discover(body_or_expr, classify, pairing)
            res = ev.run_body(body_or_expr) if is_body else ev.expr(body_or_expr)
        table[bits] = res
    return table, pairing


class _Defer(Exception):
    pass


class _Unclassified(Exception):
    pass


def _discover(n, classify, pairing):
    from ..vals import is_assert_stmt
    skip = set()
    for x in walk(n):
        if is_assert_stmt(x):
            skip |= {id(y) for y in walk(x)}
    for x in walk(n):
        if id(x) in skip:
            continue
        if x["kind"] == "BinaryOperator" and x.get("opcode") in ("==", "!="):
            try:
                kind, idx, val, neg = classify(x)
            except AnalysisBroken:
                continue
            if kind == "e":
                pairing.setdefault(("e", idx), val)


def spec_table(npos):
    t = {}
    for bits in itertools.product((False, True), repeat=2 * npos):
        t[bits] = all(bits[i] or bits[npos + i] for i in range(npos))
    return t


def rules(rep, m):
    ev_funcs = {f.name: f for f in m.funcs.values() if m.rel(f.file) == EVENT_UNIT}
    for need in ("cmb_event_queue_initialize", "cmb_event_schedule", "cmb_event_execute_next",
                 "cmb_event_current", "cmb_event_reschedule", "cmb_event_reprioritize",
                 "cmb_event_pattern_cancel", "cmb_event_cancel"):
        if need not in ev_funcs:
            raise AnalysisBroken("anchor function %s not found in %s" % (need, EVENT_UNIT))

    # R-C01-1 ------------------------------------------------------------------
    r1 = rep.rule("R-C01-1", "the comparator installed on the event queue is the strict total order "
                  "lex(time ascending, priority descending, handle ascending), exhaustively", floor=1)
    cmpf = common.installed_comparator(m, "cmb_event_queue_initialize")
    common.ord_rule(rep, r1, m, cmpf, EVENT_SPEC, "key",
                    "the strict total order (time asc, priority desc, handle asc)")

    # R-C01-2 ------------------------------------------------------------------
    r2 = rep.rule("R-C01-2", "event handles are issued in increasing order: the item counter is written "
                  "only by an increment in the enqueue routine, and events are enqueued with key 0 "
                  "(auto-issued handle = counter)", floor=2)
    ws = inv.field_writers(m, "cmi_hashheap", "item_counter")
    for f, lhs, rhs, kind, node in ws:
        r2.instance("%s writes item_counter (%s)" % (f.name, kind))
        if f.name not in ("cmi_hashheap_enqueue", "cmi_hashheap_initialize", "cmi_hashheap_reset"):
            rep.finding(r2, f.name, "item_counter:write",
                        "item counter written by %s (%s %s): handles no longer strictly increase"
                        % (f.name, kind, render(rhs) if rhs else ""), where=m.rel(loc(node)))
            r2.fail()
        else:
            r2.ok()
    if not ws:
        raise AnalysisBroken("no writer of cmi_hashheap.item_counter found")
    # engine LSE: on every path through enqueue the counter goes up by exactly one and the key that is returned (and
    # stored) is the caller's key when that is non-zero and the new counter value when it is zero
    from ..engines.lse import LSE
    from ..engines.induct import Poly, Facts
    enq = m.need("cmi_hashheap_enqueue")
    ecx = FuncCtx(m, enq)
    hpn = enq.params[0]["name"]
    keyparam = enq.params[5]["name"]
    eng = LSE(ecx, {"%s->item_counter" % hpn: "n", "%s->heap_count" % hpn: "c"},
              Facts().add_le0(Poly.sym("key").scale(-1), "key >= 0 (unsigned)"), params={keyparam: "key"})
    paths = [p_ for p_ in eng.run(kids(enq.body)) if p_.ret is not None or p_.done]
    auto = bool(paths)
    why = "no path returns a key"
    N1 = Poly.sym("n") + Poly.const(1)
    for p_ in paths:
        cnt = p_.state["%s->item_counter" % hpn]
        if not (cnt - N1 == Poly()):
            auto, why = False, "the item counter becomes %s (expected its old value + 1)" % cnt.show()
            continue
        if p_.ret is None:
            auto, why = False, "a path returns a value that is not a linear function of the key and the counter"
            continue
        zero_key = p_.facts.proves_le0(Poly.sym("key"))            # key <= 0 and key >= 0
        if p_.ret - N1 == Poly():
            if not zero_key:
                auto, why = False, "the new counter value is returned although the caller's key may be non-zero"
        elif p_.ret - Poly.sym("key") == Poly():
            nonzero = not p_.facts.add_le0(Poly.sym("key")).feasible()
            if not nonzero:
                auto, why = False, "the caller's key is returned although it may be zero (no handle is issued)"
        else:
            auto, why = False, "a path returns %s" % p_.ret.show()
    r2.instance("enqueue: %d path(s); counter + 1 and key issue rule hold: %s" % (len(paths), auto))
    rep.sample({"rule": "R-C01-2", "enqueue_paths": [{"returns": p_.ret.show() if p_.ret is not None else None,
                                                      "facts": p_.facts.notes} for p_ in paths]})
    if not auto:
        rep.finding(r2, enq.name, "autokey", "enqueue no longer issues the incremented item counter as key for key 0 (%s)" % why,
                    where=m.rel(enq.where))
        r2.fail()
    else:
        r2.ok()
    sch = ev_funcs["cmb_event_schedule"]
    scx = FuncCtx(m, sch)
    sc_enq = [n for n in walk(sch.body) if n["kind"] == "CallExpr" and callee_ref(n) == "cmi_hashheap_enqueue"]
    if len(sc_enq) != 1:
        raise AnalysisBroken("cmb_event_schedule: expected one enqueue call")
    a = kids(sc_enq[0])[1:]
    rep.sample({"rule": "R-C01-2", "schedule_enqueue_args": [scx.canon(x) for x in a]})
    if int_value(a[5]) != 0:
        rep.finding(r2, sch.name, "schedule:key", "events are enqueued with caller-chosen key '%s', not an "
                    "auto-issued increasing handle" % scx.canon(a[5]), where=m.rel(loc(sc_enq[0])))
        r2.fail()
    else:
        r2.ok()
    # schedule passes its own arguments through unchanged
    pn = [p["name"] for p in sch.params]
    got = [scx.canon(a[1]), scx.canon(a[2]), scx.canon(a[3]), scx.canon(a[6]), scx.canon(a[7])]
    if got != pn[:5] or scx.canon(a[0]) != "event_queue":
        rep.finding(r2, sch.name, "schedule:args", "cmb_event_schedule enqueues (%s), not its own "
                    "(action, subject, object, time, priority)" % ", ".join(got), where=m.rel(loc(sc_enq[0])))
        r2.fail()
    else:
        r2.ok()

    # R-C01-3 ------------------------------------------------------------------
    r3 = rep.rule("R-C01-3", "the clock is written only by queue initialise/terminate and by the dispatcher, "
                  "which sets it to the time key of the entry it dequeues; every caller-supplied time entering "
                  "the event queue is dominated by a release assertion time >= clock", floor=4)
    gk = None
    for k, g in m.globals.items():
        if g.name == "sim_time" and m.rel(g.file) == EVENT_UNIT:
            gk = k
    if gk is None:
        raise AnalysisBroken("clock variable sim_time not found")
    allowed = {"cmb_event_queue_initialize", "cmb_event_queue_terminate", "cmb_event_execute_next"}
    for f, n, is_w, kind in inv.global_refs(m, gk):
        if not is_w:
            continue
        r3.instance("%s writes the clock" % f.name)
        if f.name not in allowed:
            rep.finding(r3, f.name, "clock:writer", "%s writes the simulation clock" % f.name, where=m.rel(loc(n)))
            r3.fail()
        else:
            r3.ok()
    ex = ev_funcs["cmb_event_execute_next"]
    xcx = FuncCtx(m, ex)
    deq = [n for n in walk(ex.body) if n["kind"] == "CallExpr" and callee_ref(n) == "cmi_hashheap_dequeue"]
    if len(deq) != 1 or not _event_queue_arg(xcx, deq[0]):
        rep.finding(r3, ex.name, "dispatch:dequeue-count", "cmb_event_execute_next must dequeue the event queue "
                    "exactly once (found %d dequeue calls)" % len(deq), where=m.rel(ex.where))
        r3.fail()
        deq_idx = None
    else:
        deq_idx = inv.stmt_index_containing(ex, deq[0])
    if not any(strip(l2, casts=True).get("ref", {}).get("name") == "sim_time" for l2, _, _, _ in inv.stores(ex)):
        rep.finding(r3, ex.name, "clock:not-advanced", "the dispatcher does not set the clock to the dequeued "
                    "event's time", where=m.rel(ex.where))
        r3.fail()
    for lhs, rhs, kind, node in inv.stores(ex):
        l = strip(lhs, casts=True)
        if l["kind"] == "DeclRefExpr" and l["ref"]["name"] == "sim_time":
            val = xcx.canon(rhs)
            idx = inv.stmt_index_containing(ex, node)
            r3.instance("dispatcher sets clock = %s" % val)
            rep.sample({"rule": "R-C01-3", "clock_value": val})
            ok = False
            nstores = sum(1 for l2, _, _, _ in inv.stores(ex)
                          if strip(l2, casts=True).get("ref", {}).get("name") == "sim_time")
            cond = any(a["kind"] in ("IfStmt", "WhileStmt", "ForStmt", "ConditionalOperator", "SwitchStmt")
                       for a in inv.enclosing_chain(ex, node))
            if cond or nstores != 1:
                rep.finding(r3, ex.name, "clock:conditional", "the clock update in the dispatcher is conditional "
                            "or not unique (%d store(s)); it must be set for every dequeued event" % nstores,
                            where=m.rel(loc(node)))
                r3.fail()
                continue
            if kind == "=" and deq_idx is not None:
                if val == "event_queue->heap[0].dsortkey" and idx is not None and idx > deq_idx:
                    ok = True     # slot 0 holds the entry just dequeued
                if val == "cmi_hashheap_peek_dkey(event_queue)" or val == "event_queue->heap[1].dsortkey":
                    # evaluated before the dequeue
                    src = xcx.resolve(rhs)
                    sidx = inv.stmt_index_containing(ex, src) if src is not rhs else idx
                    ok = sidx is not None and sidx < deq_idx
                # value read through the pointer / copy returned by the dequeue
                if not ok and "dsortkey" in val:
                    root = _root_var(rhs)
                    if root is not None and _derives_from(xcx, root, deq[0]):
                        ok = True
            if not ok:
                rep.finding(r3, ex.name, "clock:value", "clock set to '%s', which is not the time key of the "
                            "entry dequeued in this call" % val, where=m.rel(loc(node)))
                r3.fail()
            else:
                r3.ok()
    # the clock is advanced before anything in the dispatcher can read it: wake-ups for processes waiting for this
    # event are scheduled at cmb_time(), and the action runs at the event's time
    clock_readers = {f_.key for f_, n_, is_w_, k_ in inv.global_refs(m, gk) if not is_w_}
    reach_read = m.reaches(clock_readers) | clock_readers
    cstores = [node for lhs, rhs, kind, node in inv.stores(ex)
               if strip(lhs, casts=True).get("ref", {}).get("name") == "sim_time"]
    if len(cstores) == 1:
        for c_ in walk(ex.body):
            if c_["kind"] != "CallExpr" or c_ is deq[0] if deq else False:
                continue
            nm_ = callee_ref(c_)
            if nm_ in ("cmi_hashheap_dequeue", "cmi_hashheap_is_empty", "cmi_assert_failed", "cmi_slist_is_empty") or \
                    (nm_ or "").startswith(("cmi_logger", "cmb_logger")):
                continue
            reads = nm_ is None or (m.resolve(ex.unit, nm_) in reach_read)
            if not reads:
                continue
            r3.instance("dispatcher: %s runs after the clock is advanced: %s" % (nm_ or "the action", inv.executes_before(ex, cstores[0], c_)))
            if inv.executes_before(ex, cstores[0], c_):
                r3.ok()
            else:
                rep.finding(r3, ex.name, "clock:late", "the dispatcher calls %s before it has advanced the clock to the event's time: "
                            "what that call schedules or reads is stamped with the previous event's time (wake-ups of processes "
                            "waiting for this event would run in the past)" % (nm_ or "the event's action"), where=m.rel(loc(c_)))
                r3.fail()
    # time assertions on the way into the queue
    for f in ev_funcs.values():
        cx = FuncCtx(m, f)
        for n in walk(f.body):
            if n["kind"] != "CallExpr":
                continue
            nm = callee_ref(n)
            if nm == "cmi_hashheap_enqueue" and _event_queue_arg(cx, n):
                targ = kids(n)[7]
            elif nm == "cmi_hashheap_reprioritize" and _event_queue_arg(cx, n):
                targ = kids(n)[3]
            else:
                continue
            tv = cx.canon(targ)
            key = cx.canon(kids(n)[2]) if nm == "cmi_hashheap_reprioritize" else None
            r3.instance("%s: %s with time %s" % (f.name, nm, tv))
            idx = inv.stmt_index_containing(f, n)
            asserted = any(re.fullmatch(r"\(%s >= sim_time\)" % re.escape(tv), cx.canon(c))
                           for c in inv.release_asserts_before(f, idx if idx is not None else 0))
            readback = key is not None and tv == "cmi_hashheap_dkey(event_queue, %s)" % key
            if asserted or readback:
                r3.ok()
            else:
                rep.finding(r3, f.name, "time-assert:" + nm,
                            "time '%s' enters the event queue via %s without a dominating release assertion "
                            "'%s >= sim_time' (and is not the stored time read back)" % (tv, nm, tv),
                            where=m.rel(loc(n)))
                r3.fail()

    # R-C01-4 ------------------------------------------------------------------
    r4 = rep.rule("R-C01-4", "the dispatcher returns false without dequeuing when the queue is empty; otherwise "
                  "it dequeues once and calls the dequeued entry's action exactly once with its subject and "
                  "object, unconditionally and outside any loop, before returning true", floor=1)
    ind = [n for n in walk(ex.body) if n["kind"] == "CallExpr" and callee_ref(n) is None]
    r4.instance("cmb_event_execute_next: %d dequeue, %d indirect call(s)" % (len(deq), len(ind)))
    if len(ind) != 1 or len(deq) != 1:
        rep.finding(r4, ex.name, "dispatch:count", "dispatcher has %d action call(s) for %d dequeue(s); every "
                    "dequeued event must be executed exactly once" % (len(ind), len(deq)), where=m.rel(ex.where))
        r4.fail()
    else:
        call = ind[0]
        ci = inv.stmt_index_containing(ex, call)
        top = kids(ex.body)
        ok = True
        if kids(ex.body)[ci] is not call and strip(top[ci], casts=True) is not call:
            # the call must be the top-level statement itself, not nested in if/loop
            chain = inv.enclosing_chain(ex, call)
            if any(a["kind"] in ("IfStmt", "WhileStmt", "ForStmt", "DoStmt", "ConditionalOperator", "SwitchStmt")
                   for a in chain):
                rep.finding(r4, ex.name, "dispatch:conditional", "the action call is conditional or inside a loop",
                            where=m.rel(loc(call)))
                ok = False
        if deq_idx is None or ci is None or ci <= deq_idx:
            rep.finding(r4, ex.name, "dispatch:order", "the action is not called after the dequeue",
                        where=m.rel(loc(call)))
            ok = False
        else:
            for s in top[deq_idx:ci]:
                if any(x["kind"] == "ReturnStmt" for x in walk(s)):
                    rep.finding(r4, ex.name, "dispatch:early-return", "a return between the dequeue and the action "
                                "call drops the dequeued event", where=m.rel(loc(s)))
                    ok = False
            chain = inv.enclosing_chain(ex, deq[0])
            if any(a["kind"] in ("IfStmt", "WhileStmt", "ForStmt", "ConditionalOperator") for a in chain):
                rep.finding(r4, ex.name, "dispatch:dequeue-conditional", "the dequeue is conditional or in a loop",
                            where=m.rel(loc(deq[0])))
                ok = False
        # callee and arguments come from the dequeued entry
        parts = [kids(call)[0]] + kids(call)[1:]
        fields = []
        for p in parts:
            root = _root_var(p)
            cn = xcx.canon(p)
            fields.append(cn)
            if root is None or not _derives_from(xcx, root, deq[0]):
                rep.finding(r4, ex.name, "dispatch:operand", "operand '%s' of the action call does not come from "
                            "the dequeued entry" % cn, where=m.rel(loc(call)))
                ok = False
        want = ("action", "subject", "object")
        if len(fields) != 3 or any(not f.rstrip(")").endswith(w) for f, w in zip(fields, want)):
            rep.finding(r4, ex.name, "dispatch:fields", "action call is %s(%s); expected the entry's "
                        "action(subject, object)" % (fields[0], ", ".join(fields[1:])), where=m.rel(loc(call)))
            ok = False
        rep.sample({"rule": "R-C01-4", "dispatch": "%s(%s)" % (fields[0], ", ".join(fields[1:]))})
        # empty case: a `return false` guarded by the emptiness test before the dequeue
        empty_ok = False
        for s in top[:deq_idx or 0]:
            if s["kind"] == "IfStmt":
                c = xcx.canon(kids(s)[0])
                if ("is_empty" in c or "heap_count == 0" in c or "count(event_queue) == 0" in c) and \
                        any(x["kind"] == "ReturnStmt" and int_value(kids(x)[0]) == 0 for x in walk(kids(s)[1])):
                    empty_ok = True
        if not empty_ok:
            rep.finding(r4, ex.name, "dispatch:empty", "no 'queue empty -> return false' test before the dequeue",
                        where=m.rel(ex.where))
            ok = False
        last = top[-1]
        if not (last["kind"] == "ReturnStmt" and int_value(kids(last)[0]) == 1):
            rep.finding(r4, ex.name, "dispatch:return", "dispatcher does not end with 'return true'",
                        where=m.rel(loc(last)))
            ok = False
        (r4.ok if ok else r4.fail)(6)

    # R-C01-5 ------------------------------------------------------------------
    r5 = rep.rule("R-C01-5", "the storage the current-event query reads (derived from its body) is written only "
                  "on the dequeue path of the dispatcher", floor=1)
    cur = ev_funcs["cmb_event_current"]
    ccx = FuncCtx(m, cur)
    rets = [n for n in walk(cur.body) if n["kind"] == "ReturnStmt"]
    if len(rets) != 1:
        raise AnalysisBroken("cmb_event_current: expected one return")
    where_cur = ccx.canon(kids(rets[0])[0])
    mm = re.fullmatch(r"event_queue->heap\[(\d+)\]\.key", where_cur)
    r5.instance("cmb_event_current reads %s" % where_cur)
    if mm:
        slot = int(mm.group(1))
        writers = []
        for f in m.funcs.values():
            if not (m.rel(f.file) or "").startswith("src/"):
                continue
            cx = None
            for lhs, rhs, kind, node in inv.stores(f):
                # the lvalue, through single-definition locals (a tag pointer such as saved = &heap[0] included), names
                # slot <n> of a heap array of tags
                if "cmi_heap_tag" not in (strip(lhs, casts=True).get("type") or "") and \
                        not any("cmi_heap_tag" in (y.get("type") or "") for y in walk(lhs)):
                    continue
                cx = cx or FuncCtx(m, f)
                lc = cx.canon(lhs)
                mm_ = re.fullmatch(r"\*?&?\(?(?:.+->)?heap\[(\d+)\]\)?(?:\.\w+)*", lc)
                if mm_ and int(mm_.group(1)) == slot:
                    writers.append((f, node))
        names = sorted({f.name for f, _ in writers})
        r5.instance("writers of heap[%d]: %s" % (slot, ", ".join(names)))
        rep.sample({"rule": "R-C01-5", "slot": where_cur, "writers": names})
        if not writers:
            raise AnalysisBroken("no writer of heap[%d] found (dequeue should write it)" % slot)
        for f, node in writers:
            if f.name != "cmi_hashheap_dequeue":
                rep.finding(r5, f.name, "current-slot:write", "%s overwrites heap[%d], the slot cmb_event_current() "
                            "reads, outside the dequeue path" % (f.name, slot), where=m.rel(loc(node)))
                r5.fail()
            else:
                r5.ok()
        # dequeue's slot-0 write is a copy of the head
        dq = m.need("cmi_hashheap_dequeue")
        dcx = FuncCtx(m, dq)
        copied = any(kind == "=" and rhs is not None and re.fullmatch(r"\*?&?\(?(heap|.*->heap)\[1\]\)?", dcx.canon(rhs) or "") and
                     re.fullmatch(r"\*?&?\(?(heap|.*->heap)\[%d\]\)?" % slot, dcx.canon(lhs) or "")
                     for lhs, rhs, kind, node in inv.stores(dq))
        if not copied:
            rep.finding(r5, dq.name, "current-slot:copy", "dequeue does not copy the head entry into heap[%d]" % slot,
                        where=m.rel(dq.where))
            r5.fail()
        else:
            r5.ok()
    elif where_cur in m.globals or any(g.name == where_cur for g in m.globals.values()):
        gk2 = [k for k, g in m.globals.items() if g.name == where_cur][0]
        for f, n, is_w, kind in inv.global_refs(m, gk2):
            if is_w:
                r5.instance("%s writes %s" % (f.name, where_cur))
                if f.name not in allowed:
                    rep.finding(r5, f.name, "current-slot:write", "%s writes %s outside the dispatcher"
                                % (f.name, where_cur), where=m.rel(loc(n)))
                    r5.fail()
                else:
                    r5.ok()
    else:
        raise AnalysisBroken("cannot derive the location read by cmb_event_current ('%s')" % where_cur)

    # the slot must also survive a capacity doubling while the action runs
    from .c02 import grow_copies_whole_heap
    okg, desc = grow_copies_whole_heap(m)
    r5.instance("growth copies the whole old heap including slot 0: %s (%s)" % (okg, desc))
    if not okg:
        rep.finding(r5, "hashheap_grow", "current-slot:lost-on-grow", "when the event queue grows (an action schedules events) "
                    "the old heap is copied as %s, which does not include slot 0: the current-event query then reads "
                    "uninitialised memory" % desc, where="src/cmi_hashheap.c")
        r5.fail()
    else:
        r5.ok()

    # R-C01-6 ------------------------------------------------------------------
    r6 = rep.rule("R-C01-6", "reschedule changes only the time (priority read back from the queue for the same "
                  "handle) and reprioritise changes only the priority (time read back)", floor=2)
    for fname, keep, getter, new_idx, keep_idx in (("cmb_event_reschedule", "priority", "cmi_hashheap_ikey", 3, 4),
                                                   ("cmb_event_reprioritize", "time", "cmi_hashheap_dkey", 4, 3)):
        f = ev_funcs[fname]
        cx = FuncCtx(m, f)
        calls = [n for n in walk(f.body) if n["kind"] == "CallExpr" and callee_ref(n) == "cmi_hashheap_reprioritize"]
        if len(calls) != 1:
            raise AnalysisBroken("%s: expected one cmi_hashheap_reprioritize call" % fname)
        a = [cx.canon(x) for x in kids(calls[0])[1:]]
        r6.instance("%s -> cmi_hashheap_reprioritize(%s)" % (fname, ", ".join(a)))
        rep.sample({"rule": "R-C01-6", "function": fname, "args": a})
        handle, newv = f.params[0]["name"], f.params[1]["name"]
        ok = True
        if a[0] != "event_queue" or a[1] != handle:
            rep.finding(r6, fname, "target", "repositions (%s, %s), not the event queue entry of its own handle"
                        % (a[0], a[1]), where=m.rel(loc(calls[0])))
            ok = False
        if a[new_idx - 1] != newv:
            rep.finding(r6, fname, "new-value", "does not pass its new %s through" %
                        ("time" if keep == "priority" else "priority"), where=m.rel(loc(calls[0])))
            ok = False
        if a[keep_idx - 1] != "%s(event_queue, %s)" % (getter, handle):
            rep.finding(r6, fname, "keep:" + keep, "the %s passed on is '%s', not the stored value read back for "
                        "the same handle" % (keep, a[keep_idx - 1]), where=m.rel(loc(calls[0])))
            ok = False
        (r6.ok if ok else r6.fail)(3)
    # the hashheap's reprioritise stores both keys in the found entry and re-sifts it
    rp = m.need("cmi_hashheap_reprioritize")
    rcx = FuncCtx(m, rp)
    st = {}
    for lhs, rhs, kind, node in inv.stores(rp):
        st[rcx.canon(lhs)] = rcx.canon(rhs) if rhs is not None else kind
    idxe = "cmi_hash_find_index(%s, %s)" % (rp.params[0]["name"], rp.params[1]["name"])
    wantd = "%s->heap[%s].dsortkey" % (rp.params[0]["name"], idxe)
    wanti = "%s->heap[%s].isortkey" % (rp.params[0]["name"], idxe)
    r6.instance("cmi_hashheap_reprioritize stores: %s" % sorted(st.items()))
    if st.get(wantd) != rp.params[2]["name"] or st.get(wanti) != rp.params[3]["name"]:
        rep.finding(r6, rp.name, "store-keys", "does not store both new sort keys in the entry found for the key",
                    where=m.rel(rp.where))
        r6.fail()
    else:
        r6.ok()
    # re-keying restores the order in every situation (shared with R-C02-12: all paths x all scenarios of a small model)
    from . import siftrules as _sr
    _sr.check_reposition(rep, r6, m)
    sifts = [callee_ref(n) for n in walk(rp.body) if n["kind"] == "CallExpr" and callee_ref(n) in ("heap_up", "heap_down")]
    if sorted(set(sifts)) != ["heap_down", "heap_up"]:
        rep.finding(r6, rp.name, "resift", "the repositioned entry is not re-sifted both ways (calls: %s)" % sifts,
                    where=m.rel(rp.where))
        r6.fail()
    else:
        r6.ok()

    # R-C01-7 ------------------------------------------------------------------
    r7 = rep.rule("R-C01-7", "the wildcard predicates used by pattern find/count (item_match) and by event pattern "
                  "cancel have the same truth table, equal to 'wildcard or equal in every position'", floor=2)
    im = m.need(m.resolve(m.need("cmi_hashheap_pattern_find").unit, "item_match"))
    icx = FuncCtx(m, im)
    spec4 = spec_table(4)
    try:
        t1, pair1 = pattern_predicate_table(m, im, im.body, 4, icx, True)
        bad1 = [b for b in spec4 if spec4[b] != t1[b]]
    except _Unclassified as e:
        rep.finding(r7, im.name, "predicate:atom", "item_match contains the comparison %s, which is neither "
                    "'value equals stored item' nor 'value is the wildcard'" % e, where=m.rel(im.where))
        t1, pair1, bad1 = {}, {("e", i): p["name"] for i, p in enumerate(im.params[1:])}, list(spec4)[:1]
    r7.instance("item_match: %d/%d cases agree with the specification" % (len(spec4) - len(bad1), len(spec4)))
    r7.obligations += len(spec4)
    r7.discharged += len(spec4) - len(bad1)
    if bad1:
        rep.finding(r7, im.name, "predicate", "item_match differs from 'wildcard or equal in every position' in %d of "
                    "%d cases, e.g. equal=%s wildcard=%s" % (len(bad1), len(spec4), bad1[0][:4], bad1[0][4:]),
                    where=m.rel(im.where))
    # positions pair value i with item[i]
    pnames = [p["name"] for p in im.params[1:]]
    for i, pn in enumerate(pnames):
        if pair1.get(("e", i)) != pn:
            rep.finding(r7, im.name, "pairing:%d" % i, "position %d compares '%s' with item[%d], expected '%s'"
                        % (i, pair1.get(("e", i)), i, pn), where=m.rel(im.where))
            r7.fail()
        else:
            r7.ok()
    # find/count/cancel in the hashheap pass their values in order
    for fn in ("cmi_hashheap_pattern_find", "cmi_hashheap_pattern_count", "cmi_hashheap_pattern_cancel"):
        f = m.need(fn)
        cx = FuncCtx(m, f)
        cs = [n for n in walk(f.body) if n["kind"] == "CallExpr" and callee_ref(n) == "item_match"]
        if len(cs) != 1:
            raise AnalysisBroken("%s: expected one item_match call" % fn)
        a = [cx.canon(x) for x in kids(cs[0])[2:]]
        if a != [p["name"] for p in f.params[1:]]:
            rep.finding(r7, fn, "match-args", "passes (%s) to item_match, not its own pattern in order" % ", ".join(a),
                        where=m.rel(loc(cs[0])))
            r7.fail()
        else:
            r7.ok()
        if not inv.in_loop(f, cs[0]):
            rep.finding(r7, fn, "match-loop", "item_match is not applied to every heap entry", where=m.rel(loc(cs[0])))
            r7.fail()
    # event-level wrappers pass (action, subject, object, ANY)
    for fn, callee in (("cmb_event_pattern_find", "cmi_hashheap_pattern_find"),
                       ("cmb_event_pattern_count", "cmi_hashheap_pattern_count")):
        f = ev_funcs.get(fn)
        if f is None:
            raise AnalysisBroken("anchor %s missing" % fn)
        cx = FuncCtx(m, f)
        cs = [n for n in walk(f.body) if n["kind"] == "CallExpr" and callee_ref(n) == callee]
        if len(cs) != 1:
            raise AnalysisBroken("%s: expected one %s call" % (fn, callee))
        a = [cx.canon(x) for x in kids(cs[0])[1:]]
        pn = [p["name"] for p in f.params]
        r7.instance("%s -> %s(%s)" % (fn, callee, ", ".join(a)))
        if a[0] != "event_queue" or a[1:4] != pn[:3] or not re.search(r"18446744073709551615|ANY", a[4]):
            rep.finding(r7, fn, "wrapper-args", "calls %s(%s); expected (event_queue, action, subject, object, ANY)"
                        % (callee, ", ".join(a)), where=m.rel(loc(cs[0])))
            r7.fail()
        else:
            r7.ok()
    # the inlined predicate of cmb_event_pattern_cancel
    pc = ev_funcs["cmb_event_pattern_cancel"]
    pcx = FuncCtx(m, pc)
    conds = []
    for n in walk(pc.body):
        if n["kind"] == "IfStmt" and inv.in_loop(pc, n) and "item[" in pcx.canon(kids(n)[0]):
            conds.append(n)
    pred_expr, pred_is_body = (kids(conds[0])[0], False) if len(conds) == 1 else (None, False)
    if len(conds) != 1:
        # the predicate may have been computed into a boolean local first (an inlined helper): the match-if is the one
        # whose branch records the key; the predicate is the code of the loop body in front of it
        rec = [n for n in walk(pc.body) if n["kind"] == "IfStmt" and inv.in_loop(pc, n) and
               any(y["kind"] == "BinaryOperator" and y.get("opcode") == "=" and pcx.canon(kids(y)[1]).endswith((".key", "->key"))
                   for y in walk(kids(n)[1]))]
        rec = [n for n in rec if strip(kids(n)[0], casts=True)["kind"] == "DeclRefExpr"]
        if len(rec) != 1:
            raise AnalysisBroken("cmb_event_pattern_cancel: cannot find its match condition (%d candidates)" % len(conds))
        par = [a_ for a_ in inv.enclosing_chain(pc, rec[0]) if a_["kind"] == "CompoundStmt"][-1]
        before = kids(par)[:kids(par).index(rec[0])]
        pred_expr = {"kind": "CompoundStmt", "inner": before + [{"kind": "ReturnStmt", "inner": [kids(rec[0])[0]]}]}
        pred_is_body = True
        conds = rec
    spec3 = spec_table(3)
    try:
        t2, pair2 = pattern_predicate_table(m, pc, pred_expr, 3, pcx, pred_is_body)
        bad2 = [b for b in spec3 if spec3[b] != t2[b]]
    except _Unclassified as e:
        rep.finding(r7, pc.name, "predicate:atom", "the cancel predicate contains the comparison %s, which is "
                    "neither 'value equals stored item' nor 'value is the wildcard'" % e, where=m.rel(loc(conds[0])))
        t2, pair2, bad2 = {}, {("e", i): p["name"] for i, p in enumerate(pc.params)}, list(spec3)[:1]
    r7.instance("cmb_event_pattern_cancel condition: %d/%d cases agree" % (len(spec3) - len(bad2), len(spec3)))
    r7.obligations += len(spec3)
    r7.discharged += len(spec3) - len(bad2)
    if bad2:
        rep.finding(r7, pc.name, "predicate", "the cancel predicate differs from the find/count predicate in %d of %d "
                    "cases, e.g. equal=%s wildcard=%s" % (len(bad2), len(spec3), bad2[0][:3], bad2[0][3:]),
                    where=m.rel(loc(conds[0])))
    for i, pn in enumerate([p["name"] for p in pc.params]):
        if pair2.get(("e", i)) != pn:
            rep.finding(r7, pc.name, "pairing:%d" % i, "position %d compares '%s' with item[%d], expected '%s'"
                        % (i, pair2.get(("e", i)), i, pn), where=m.rel(loc(conds[0])))
            r7.fail()
        else:
            r7.ok()
    # every matched key is cancelled through cmb_event_cancel (which notifies waiters), after the scan
    canc = [n for n in walk(pc.body) if n["kind"] == "CallExpr" and callee_ref(n) in ("cmb_event_cancel",)]
    scan_mut = [n for n in walk(pc.body) if n["kind"] == "CallExpr" and inv.in_loop(pc, n)
                and callee_ref(n) in ("cmb_event_cancel", "cmi_hashheap_remove", "cmi_hashheap_cancel")
                and any(a is conds[0] for a in inv.enclosing_chain(pc, n))]
    if not canc or scan_mut:
        rep.finding(r7, pc.name, "two-pass", "matched events must be cancelled through cmb_event_cancel after the "
                    "scan, not during it", where=m.rel(pc.where))
        r7.fail()
    else:
        r7.ok()

    # R-C01-8 ------------------------------------------------------------
    rs = rep.rule("R-C01-8", "the event queue delivers the event the comparator puts first: one round of the heap's sift loops keeps the heap order for every arrangement of "
                  "children and every order of the tags involved (shared with R-C02-8)", floor=6)
    from . import siftrules
    siftrules.check_sifts(rep, rs, m)

    # R-C01-9 ------------------------------------------------------------
    r9 = rep.rule("R-C01-9", "the pattern operations look at every pending event: the scans of pattern find / count / cancel "
                  "visit exactly the slots 1 .. heap_count (shared with R-C02-9), and clearing the queue wipes the whole hash "
                  "map of the current size, so that no handle of a cleared event is still found (shared with R-C02-5)", floor=4)
    siftrules.check_scans(rep, r9, m, only={"cmb_event_pattern_cancel", "cmi_hashheap_pattern_find", "cmi_hashheap_pattern_count",
                                            "cmi_hashheap_pattern_cancel"})
    from . import c02
    c02.layout_rules(rep, r9, m, clear_only=True)



def _root_var(n):
    """Root variable (DeclRefExpr node) of an access path expression."""
    n = strip(n, casts=True)
    while True:
        k = n["kind"]
        if k in ("MemberExpr", "ArraySubscriptExpr"):
            n = strip(kids(n)[0], casts=True)
        elif k == "UnaryOperator" and n.get("opcode") in ("*", "&"):
            n = strip(kids(n)[0], casts=True)
        else:
            break
    return n if n["kind"] == "DeclRefExpr" else None


def _derives_from(cx, ref, call, depth=0):
    """Does the local variable `ref` get its (only) value from an expression containing `call`?"""
    if depth > 4:
        return False
    rid = ref["ref"]["id"]
    ini = cx.inits.get(rid) if cx.writes.get(rid, 0) == 0 else None
    if ini is None:
        ini = cx.assign1.get(rid)        # declared first, assigned once unconditionally
    if ini is None:
        return False
    for x in walk(ini):
        if x is call:
            return True
    r2 = _root_var(ini)
    if r2 is not None:
        return _derives_from(cx, r2, call, depth + 1)
    return False


def run(tier="quick"):
    models = common.load_models(tier)
    rep = Report(PID, tier, models[0])
    rep.exhaustive = True
    rep.assumptions = ["sort keys are not NaN", "heap sift index arithmetic is not decided (structural part: C02)",
                       "user actions do not touch the event queue's storage directly"]
    rep.not_decided = ["termination of the sift loops and the probe sequence of the hash map (one sift round is decided, R-C01-8)",
                       "pattern operations beyond predicate agreement and two-pass structure"]
    for m in models:
        rep.configs.append(m.config)
        common.run_rules(rep, m, rules)
    return rep.finish()
