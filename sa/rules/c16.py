"""C16 - Every sampler stays inside its support and follows its stated distribution.

Distribution fit and most support clauses are statements about floating-point values and statistical
convergence: not decidable statically and NOT claimed.  Claimed narrowly are the clauses that are in the shape
of the code: index-valued samplers return a structurally bounded index, the unit-interval generator cannot return
1, byte-indexed tables have 256 entries, counts are accumulated from 0/1 trials."""
import re

from ..astutil import kids, strip, walk, callee_ref, render, loc, int_value
from ..frontend import AnalysisBroken
from ..report import Report
from ..vals import FuncCtx
from .. import inv
from . import common

PID = "C16"


def rules(rep, m):
    rnd = [f for f in m.funcs.values() if (m.rel(f.file) or "") in ("src/cmb_random.c", "include/cmb_random.h")]
    # R-C16-1 ------------------------------------------------------------
    r1 = rep.rule("R-C16-1", "search loops: a loop counter that is used after a search loop (returned as the sampled index) "
                  "cannot hold the one-past-the-end value - the loop's bound stops at the last valid index (which then absorbs "
                  "the remaining probability) or the exhausted case is clamped before the value is used", floor=1)
    found = 0
    for f in rnd:
        cx = FuncCtx(m, f)
        for lp in [x for x in walk(f.body) if x["kind"] in ("ForStmt", "WhileStmt")]:
            body = kids(lp)[-1]
            if not any(y["kind"] == "BreakStmt" for y in walk(body)):
                continue
            ivars, guard = inv.induction_vars(cx, f, lp)
            if guard is None or ivars[guard[0]][1] != 1 or guard[1] not in ("<", "<=", "!="):
                continue
            ctr, op, bound = guard
            entry = ivars[ctr][0]
            # the counter (index or walking pointer) must be declared outside the loop and used after it
            declared_in_loop = any(d["kind"] == "VarDecl" and d.get("name") == ctr for d in walk(kids(lp)[0])) if lp["kind"] == "ForStmt" else False
            if declared_in_loop:
                continue
            chain = inv.enclosing_chain(f, lp)
            parent = chain[-1] if chain else f.body
            sibs = kids(parent)
            li = next((i_ for i_, s_ in enumerate(sibs) if s_ is lp), None)
            after = sibs[li + 1:] if li is not None else []
            used = [s_ for s_ in after for y in walk(s_) if y["kind"] == "DeclRefExpr" and y["ref"]["name"] == ctr]
            if not used:
                continue
            found += 1
            sizep = None
            for p_ in f.params:
                if "unsigned" in (p_.get("type") or "") or "int" in (p_.get("type") or ""):
                    sizep = p_["name"]
                    break
            # how far the counter is from its start when the loop is exhausted
            if entry == "0":
                exhausted = bound
            else:
                mm = re.fullmatch(r"\(%s \+ (.+)\)" % re.escape(entry), bound)
                exhausted = mm.group(1) if mm else None
            if op == "<=" and exhausted is not None:
                exhausted = "(%s + 1)" % exhausted
            r1.instance("%s: search loop on '%s' from %s while %s %s; counter used after the loop, %s steps when exhausted" %
                        (f.name, ctr, entry, op, bound, exhausted))
            rep.sample({"rule": "R-C16-1", "function": f.name, "counter": ctr, "bound": bound, "size_param": sizep})
            safe = sizep is not None and exhausted == "(%s - 1)" % sizep
            clamp = False
            for s_ in after:
                if s_["kind"] == "IfStmt":
                    c = cx.canon(kids(s_)[0])
                    if re.fullmatch(r"\(%s (==|>=) %s\)" % (re.escape(ctr), sizep or "?"), c) and \
                            any(y["kind"] == "BinaryOperator" and y.get("opcode") == "=" and render(kids(y)[0]) == ctr
                                for y in walk(kids(s_)[1])):
                        clamp = True
            if safe or clamp:
                r1.ok()
            elif exhausted is None:
                raise AnalysisBroken("%s: search loop on '%s' while %s %s not understood" % (f.name, ctr, op, bound))
            else:
                rep.finding(r1, f.name, "index:fallthrough", "the search loop in %s runs while %s %s %s and its counter is used "
                            "afterwards: when no element matches (the probabilities are only required to sum to 1 within a "
                            "tolerance) the counter is %s steps from its start, one past the last valid index" %
                            (f.name, ctr, op, bound, exhausted), where=m.rel(loc(lp)))
                r1.fail()
    if found == 0:
        raise AnalysisBroken("no search loop with an escaping counter found in the samplers (anchor vanished)")

    # R-C16-2 ------------------------------------------------------------
    r2 = rep.rule("R-C16-2", "byte-indexed lookup tables of the ziggurat samplers have 256 entries (shared with R-C10-6)", floor=6)
    for f in rnd:
        for x in walk(f.body):
            if x["kind"] != "ArraySubscriptExpr":
                continue
            idx = strip(kids(x)[1])
            it = idx.get("type") or ""
            if "uint8_t" not in it:
                continue
            base = strip(kids(x)[0], casts=True)
            if base["kind"] != "DeclRefExpr":
                continue
            gk = m.global_key(f.unit, f, base["ref"])
            if gk is None:
                continue
            mm = re.search(r"\[(\d+)\]", m.globals[gk].type)
            r2.instance("%s: %s[%s]" % (f.name, base["ref"]["name"], render(idx)))
            if mm and int(mm.group(1)) < 256:
                rep.finding(r2, f.name, "table-size:" + base["ref"]["name"], "table %s has %s entries but is indexed by a byte"
                            % (base["ref"]["name"], mm.group(1)), where=m.rel(loc(x)))
                r2.fail()
            else:
                r2.ok()

    # R-C16-3 ------------------------------------------------------------
    r3 = rep.rule("R-C16-3", "the unit-interval generator is (64-bit output >> s) * 2^-(64 - s) with s >= 11: exactly "
                  "representable and strictly below 1, so 'floor(n * u)' style index computations stay below n", floor=1)
    ur = m.need("cmb_random")
    ux = FuncCtx(m, ur)
    rv = [render(kids(x)[0]) for x in walk(ur.body) if x["kind"] == "ReturnStmt"]
    r3.instance("cmb_random returns %s" % rv)
    rep.sample({"rule": "R-C16-3", "cmb_random": rv})
    mm = re.fullmatch(r"ldexp\(\(cmb_random_sfc64\(\) >> (\d+)\), -(\d+)\)", rv[0].replace("(double)", "")) if rv else None
    unit_ok = bool(mm) and int(mm.group(1)) >= 11 and 64 - int(mm.group(1)) == int(mm.group(2))
    if not unit_ok and rv:
        # the same value as a product: (output >> s) * 2^-(64 - s), s possibly spelled 64 - 53, through a const local
        cv = [ux.canon(kids(x)[0]).replace("(double)", "") for x in walk(ur.body) if x["kind"] == "ReturnStmt"]
        m2 = re.fullmatch(r"\(\(cmb_random_sfc64\(\) >> \(?([\d \-+]+)\)?\) \* ([0-9.eE+\-]+)\)", cv[0]) if len(cv) == 1 else None
        if m2 and re.fullmatch(r"[\d \-+]+", m2.group(1)):
            sh = eval(m2.group(1))
            try:
                unit_ok = 11 <= sh < 64 and float(m2.group(2)) == 2.0 ** -(64 - sh)
            except ValueError:
                unit_ok = False
    if not unit_ok:
        rep.finding(r3, ur.name, "unit-interval", "cmb_random returns %s: not provably in [0, 1) (needs >> s with s >= 11 and a "
                    "scale of 2^-(64-s))" % rv, where=m.rel(ur.where))
        r3.fail()
    else:
        r3.ok()
    als = m.need("cmb_random_alias_sample")
    ax = FuncCtx(m, als)
    ap = als.params[0]["name"]
    idxs = [ax.canon(kids(x)[0]) for x in walk(als.body) if x["kind"] == "VarDecl" and x.get("name") == "idx" and kids(x)]
    rets = [ax.canon(kids(x)[0]) for x in walk(als.body) if x["kind"] == "ReturnStmt"]
    r3.instance("alias sample: idx = %s; returns %s" % (idxs, rets))
    okal = idxs and re.fullmatch(r"floor\(\(%s->n \* (ldexp\(.*\)|cmb_random\(\))\)\)" % ap, idxs[0]) is not None
    if okal and rets:
        okal = re.fullmatch(r"\(.* \? %s->alias\[.+\] : .+\)" % ap, rets[0]) is not None
        if not okal:
            # the same choice spelled with an if: every value the returned local is given is the column or its alias
            rn = [strip(kids(x)[0], casts=True) for x in walk(als.body) if x["kind"] == "ReturnStmt" and kids(x)]
            if len(rn) == 1 and rn[0]["kind"] == "DeclRefExpr":
                vid = rn[0]["ref"]["id"]
                vals_ = [render(strip(kids(d_)[0], casts=True)) for d_ in walk(als.body) if d_["kind"] == "VarDecl" and d_["id"] == vid and kids(d_)]
                vals_ += [render(strip(r_, casts=True)) for l_, r_, k_, n_ in inv.stores(als)
                          if r_ is not None and k_ == "=" and strip(l_, casts=True).get("ref", {}).get("id") == vid]
                okal = bool(vals_) and all(v_ == "idx" or re.fullmatch(r"(%s->)?alias\[idx\]" % ap, v_) for v_ in vals_) and \
                    any("alias[" in v_ for v_ in vals_) and "idx" in vals_
    if not okal:
        rep.finding(r3, als.name, "alias:index", "the alias sampler's index is %s and it returns %s: not 'floor(n * u)' with the "
                    "column itself or its alias" % (idxs, rets), where=m.rel(als.where))
        r3.fail()
    else:
        r3.ok()
    # alias tables: every alias entry written is an index that came out of the [0, n) scan
    ac = m.need("cmb_random_alias_create")
    acx = FuncCtx(m, ac)
    bad = []
    for l, r, k, n_ in inv.stores(ac):
        lc = render(l)
        if re.search(r"->alias\[", lc):
            src = render(acx.resolve(r))
            if not re.fullmatch(r"large\[--idxl\]", src):
                bad.append((lc, src))
    r3.instance("alias table entries come from the 'large' work list: %s" % (not bad))
    if bad:
        rep.finding(r3, ac.name, "alias:entries", "alias entries are written from %s" % bad, where=m.rel(ac.where))
        r3.fail()
    else:
        r3.ok()

    # R-C16-4 ------------------------------------------------------------
    r4 = rep.rule("R-C16-4", "count-valued samplers built from Bernoulli trials accumulate 0/1 outcomes over exactly n trials "
                  "(binomial in [0, n]); the Bernoulli trial returns only 0 or 1", floor=2)
    bn = m.need("cmb_random_binomial")
    bx = FuncCtx(m, bn)
    lps = [x for x in walk(bn.body) if x["kind"] in ("ForStmt", "WhileStmt")]
    okb = False
    if len(lps) == 1:
        ivs_, gd_ = inv.induction_vars(bx, bn, lps[0])
        trip = inv.trip_count(ivs_, gd_)
        body_ = kids(lps[0])[-1]
        adds = [(render(kids(y)[0]), bx.canon(kids(y)[1])) for y in walk(body_) if y["kind"] == "CompoundAssignOperator" and y.get("opcode") == "+="]
        rets = [render(kids(x)[0]) for x in walk(bn.body) if x["kind"] == "ReturnStmt"]
        r4.instance("binomial: %s round(s): %s; returns %s" % (trip, adds, rets))
        # exactly n rounds, each adding one Bernoulli outcome (the 0/1 function, inlined or called) to the value returned
        def is_trial(t_):
            return ("<=" in t_ and "? 1 : 0" in t_) or re.fullmatch(r"cmb_random_bernoulli\(\w+\)", t_) is not None
        okb = trip == bn.params[0]["name"] and len(adds) == 1 and adds[0][0] == (rets[0] if rets else None) and is_trial(adds[0][1])
        if not okb and trip == bn.params[0]["name"] and not adds:
            # the outcome tested and the counter raised by one: if (trial) ctr++ / if (trial != 0) ctr += 1
            incs_ = [y for y in walk(body_) if (y["kind"] == "UnaryOperator" and y.get("opcode") == "++") or
                     (y["kind"] == "CompoundAssignOperator" and y.get("opcode") == "+=")]
            if len(incs_) == 1 and render(kids(incs_[0])[0]) == (rets[0] if rets else None):
                conds_ = inv.dominating_conditions(bx, bn, incs_[0])
                loop_conds = inv.dominating_conditions(bx, bn, lps[0])
                extra_ = [c_ for c_ in conds_ if c_ not in loop_conds]
                if len(extra_) == 1:
                    mm_ = re.fullmatch(r"\((.+) != 0\)|\((.+) == 1\)|!\((.+) == 0\)|(.+)", extra_[0])
                    t_ = next((g_ for g_ in mm_.groups() if g_), "") if mm_ else ""
                    okb = is_trial(t_) or is_trial(t_.strip("()"))
                    r4.instance("binomial: the counter is raised by one under '%s'" % extra_[0])
    if not okb:
        rep.finding(r4, bn.name, "binomial:count", "the binomial sampler does not add one 0/1 trial per iteration over exactly n "
                    "iterations", where=m.rel(bn.where))
        r4.fail()
    else:
        r4.ok()
    be = m.need("cmb_random_bernoulli")
    rv = [render(kids(x)[0]) for x in walk(be.body) if x["kind"] == "ReturnStmt"]
    r4.instance("bernoulli returns %s" % rv)
    def zero_one(t_):
        return re.fullmatch(r"\(?[01]u?\)?", t_) is not None or re.fullmatch(r"\(.+ \? [01] : [01]\)", t_) is not None or \
            re.fullmatch(r"\(.+ (<|<=|>|>=|==|!=) .+\)", t_) is not None
    if not rv or not all(zero_one(t_) for t_ in rv):
        rep.finding(r4, be.name, "bernoulli:range", "a Bernoulli trial returns %s" % rv, where=m.rel(be.where))
        r4.fail()
    else:
        r4.ok()


    # R-C16-5 ------------------------------------------------------------
    r5 = rep.rule("R-C16-5", "tail by shifting: where a sampler accumulates an offset across retry rounds (the exponential "
                  "ziggurat restarts beyond the tail start, using memorylessness), every value returned from inside the retry "
                  "loop adds that offset - a return without it folds tail samples back into the body", floor=2)
    from ..astutil import float_value
    for f in rnd:
        offs = {}
        for x in walk(f.body):
            if x["kind"] == "VarDecl" and kids(x) and (x.get("type") or "").replace("const ", "") in ("double", "float") \
                    and float_value(strip(kids(x)[0], casts=True)) == 0.0:
                offs[x["id"]] = x["name"]
        for vid, vn in offs.items():
            ws = [(k_, n_) for l, r_, k_, n_ in inv.stores(f) if strip(l, casts=True).get("ref", {}).get("id") == vid]
            if not ws or not any(k_ == "+=" for k_, n_ in ws) and not any(inv.in_loop(f, n_) for k_, n_ in ws):
                continue
            loops = [lp for lp in walk(f.body) if lp["kind"] in ("ForStmt", "WhileStmt", "DoStmt") and
                     any(y is ws[0][1] for y in walk(lp))]
            if not loops:
                continue
            outer = loops[0]
            rets_using = [x for x in walk(outer) if x["kind"] == "ReturnStmt" and kids(x) and
                          any(y["kind"] == "DeclRefExpr" and y["ref"]["id"] == vid for y in walk(x))]
            if not rets_using:
                continue
            plain = [(k_, n_) for k_, n_ in ws if k_ != "+=" and any(y is n_ for y in walk(outer))]
            for k_, n_ in plain:
                r5.instance("%s: %s" % (f.name, render(n_)[:70]))
                rep.finding(r5, f.name, "tail:offset-not-accumulated", "%s sets the offset '%s' with '%s' inside the retry loop: the "
                            "shift of earlier tail rounds is forgotten, so no sample can lie beyond two tail starts" %
                            (f.name, vn, render(n_)[:60]), where=m.rel(loc(n_)))
                r5.fail()
            if plain:
                continue
            rets = [x for x in walk(outer) if x["kind"] == "ReturnStmt" and kids(x)]
            uses = [x for x in rets if any(y["kind"] == "DeclRefExpr" and y["ref"]["id"] == vid for y in walk(x))]
            if not uses:
                continue       # not an offset that is returned
            for x in rets:
                e = strip(kids(x)[0], casts=True)
                top_sum = e["kind"] == "BinaryOperator" and e.get("opcode") == "+" and any(
                    strip(z, casts=True)["kind"] == "DeclRefExpr" and strip(z, casts=True)["ref"]["id"] == vid for z in kids(e))
                r5.instance("%s: return %s" % (f.name, render(e)[:70]))
                if not top_sum:
                    rep.finding(r5, f.name, "tail:offset-dropped", "%s returns '%s' from inside the retry loop without adding the "
                                "accumulated offset '%s': after a tail round the sample is returned unshifted, so the tail of "
                                "the distribution is folded back into its body" % (f.name, render(e)[:80], vn), where=m.rel(loc(x)))
                    r5.fail()
                else:
                    r5.ok()


    # R-C16-6 ------------------------------------------------------------
    r6 = rep.rule("R-C16-6", "boundary parameters: with a parameter pinned at a closed end of its asserted range (p = 1, ...) "
                  "the interval of the value returned - random draws replaced by their ranges - is not entirely outside the "
                  "support the function itself asserts for its result (an over-approximation that lies wholly outside the "
                  "support means every draw at that parameter value is wrong)", floor=2)
    from ..vals import any_assert_condition
    from ..engines.interval import Eval, Iv, INF

    def definitely(e, cond):
        """True / False / None for a comparison (or conjunction) under the evaluator's intervals."""
        c = strip(cond, casts=True)
        if c["kind"] == "BinaryOperator" and c.get("opcode") == "&&":
            a, b = definitely(e, kids(c)[0]), definitely(e, kids(c)[1])
            if a is False or b is False:
                return False
            return True if (a is True and b is True) else None
        if c["kind"] == "BinaryOperator" and c.get("opcode") == "||":
            a, b = definitely(e, kids(c)[0]), definitely(e, kids(c)[1])
            if a is True or b is True:
                return True
            return False if (a is False and b is False) else None
        if c["kind"] == "UnaryOperator" and c.get("opcode") == "!":
            d = definitely(e, kids(c)[0])
            return None if d is None else (not d)
        if c["kind"] != "BinaryOperator" or c.get("opcode") not in ("<", "<=", ">", ">=", "==", "!="):
            return None
        a, b = e.ev(kids(c)[0]), e.ev(kids(c)[1])
        if a is None or b is None:
            return None
        op = c["opcode"]
        if op in ("==", "!="):
            same = a.lo == a.hi == b.lo == b.hi
            apart = a.hi < b.lo or b.hi < a.lo
            if same:
                return op == "=="
            if apart:
                return op == "!="
            return None
        if op in (">", ">="):
            a, b, op = b, a, {">": "<", ">=": "<="}[op]
        # a op b with op in (<, <=)
        if op == "<=":
            if a.hi <= b.lo:
                return True
            if a.lo > b.hi or (a.lo == b.hi and not (a.lc and b.hc)):
                return False
        else:
            if a.hi < b.lo or (a.hi == b.lo and not (a.hc and b.lc)):
                return True
            if a.lo >= b.hi:
                return False
        return None

    for f in sorted(rnd, key=lambda f_: f_.name):
        if not f.name.startswith("cmb_random_"):
            continue
        cx = FuncCtx(m, f)
        e0 = Eval(m, f, cx, any_assert_condition, guards=False)
        # closed finite ends that come from an assertion (not from the parameter's type)
        asserted = set()
        for s_ in kids(f.body):
            c = any_assert_condition(s_)
            if c is not None:
                asserted |= {y["ref"]["name"] for y in walk(c) if y["kind"] == "DeclRefExpr"}
        ends = [(p_, iv.lo) for p_, iv in e0.params.items() if p_ in asserted and iv.lc and abs(iv.lo) != INF] + \
               [(p_, iv.hi) for p_, iv in e0.params.items() if p_ in asserted and iv.hc and abs(iv.hi) != INF]
        # the result's asserted support: assertions that come after the first statement that is not an assertion
        stmts = kids(f.body)
        first_code = next((i for i, s_ in enumerate(stmts) if any_assert_condition(s_) is None), len(stmts))
        posts = [any_assert_condition(s_) for s_ in stmts[first_code:] if any_assert_condition(s_) is not None]
        # assertions on the result placed inside a branch: they speak only for parameter values that reach the branch
        nested = []
        for s_ in stmts[first_code:]:
            if any_assert_condition(s_) is not None:
                continue
            for y in walk(s_):
                if y is not s_ and y["kind"] in ("DoStmt", "ParenExpr", "ConditionalOperator") and any_assert_condition(y) is not None and \
                        not any(z["kind"] in ("ForStmt", "WhileStmt") for z in inv.enclosing_chain(f, y)):
                    nested.append((any_assert_condition(y), inv.dominating_cond_nodes(f, y)))
        if not ends or not (posts or nested):
            continue
        for p_, v_ in ends:
            e = Eval(m, f, cx, any_assert_condition, guards=False)
            e.params[p_] = Iv.point(v_)
            e.with_random = True
            reach = True
            for s_ in stmts:
                if s_["kind"] == "IfStmt" and len(kids(s_)) == 2:
                    body = kids(s_)[1]
                    last = kids(body)[-1] if body["kind"] == "CompoundStmt" and kids(body) else body
                    if last["kind"] == "ReturnStmt" and definitely(e, kids(s_)[0]) is True:
                        reach = False       # the function returns here for this parameter value
                        # the value returned here has to lie in the support asserted for the final result
                        fin = [x for x in walk(f.body) if x["kind"] == "ReturnStmt" and kids(x)]
                        fv = strip(kids(fin[-1])[0], casts=True) if fin else None
                        eiv = e.ev(kids(last)[0]) if kids(last) else None
                        if fv is not None and fv["kind"] == "DeclRefExpr" and eiv is not None and last is not fin[-1]:
                            e.override = {fv["ref"]["id"]: eiv}
                            ev_ = [definitely(e, c) for c in posts]
                            e.override = {}
                            if any(d is False for d in ev_):
                                rep.finding(r6, f.name, "boundary-early:%s=%g" % (p_, v_), "%s with %s = %g returns early with a "
                                            "value in %s, outside its own asserted support %s" %
                                            (f.name, p_, v_, eiv.show(), [render(c) for c, d in zip(posts, ev_) if d is False]),
                                            where=m.rel(loc(last)))
                                r6.fail()
                        break
            live = list(posts)
            for c_, doms_ in nested:
                if all(definitely(e, dn_) is not (not dt_) for dn_, dt_ in doms_):
                    live.append(c_)
            verdicts = [definitely(e, c) for c in live] if reach else []
            r6.instance("%s at %s = %g: %s" % (f.name, p_, v_, ["%s: %s" % (render(c)[:40], d) for c, d in zip(live, verdicts)]
                                              if reach else "returns early"))
            rep.sample({"rule": "R-C16-6", "function": f.name, "pinned": "%s = %g" % (p_, v_),
                        "post": [[render(c)[:60], str(d)] for c, d in zip(live, verdicts)]})
            if any(d is False for d in verdicts):
                bad = [render(c) for c, d in zip(live, verdicts) if d is False]
                ret = [x for x in walk(f.body) if x["kind"] == "ReturnStmt" and kids(x)]
                riv = e.ev(kids(ret[-1])[0]) if ret else None
                rep.finding(r6, f.name, "boundary:%s=%g" % (p_, v_), "%s with %s = %g (admitted by its precondition) returns a "
                            "value in %s for every random draw, outside its own asserted support %s" %
                            (f.name, p_, v_, riv.show() if riv else "?", bad), where=m.rel(f.where))
                r6.fail()
            else:
                r6.ok()

    # R-C16-7 ------------------------------------------------------------
    r7 = rep.rule("R-C16-7", "a real value is turned into the integer a sampler returns by rounding in a stated direction "
                  "(floor / ceil) or is provably non-negative: a plain conversion truncates toward zero, which is floor only for "
                  "non-negative values - for a signed range it skips the lowest value and doubles zero", floor=3)
    ROUND = {"floor", "ceil", "round", "trunc", "lround", "llround", "rint", "nearbyint", "floorf", "ceilf"}
    for f in m.funcs.values():
        if (m.rel(f.file) or "") not in ("src/cmb_random.c", "include/cmb_random.h"):
            continue
        fx = None
        for x in walk(f.body):
            if x["kind"] not in ("ImplicitCastExpr", "CStyleCastExpr") or x.get("castKind") != "FloatingToIntegral":
                continue
            fx = fx or FuncCtx(m, f)
            opnd = fx.resolve(kids(x)[0])
            r7.instance("%s: (%s) %s" % (f.name, x.get("type"), render(opnd)[:70]))
            # a probability scaled to the full 64-bit range: p * 2^64 does not fit for p = 1 (the conversion is undefined and
            # wraps to 0 in practice) - the factor must be known to be below 1 where the product is converted
            for y in walk(opnd):
                if y["kind"] == "BinaryOperator" and y.get("opcode") == "*":
                    sides = [fx.canon(z) for z in kids(y)]
                    big = [i_ for i_, c_ in enumerate(sides) if re.fullmatch(r"\(?(18446744073709551615|1\.8446744073709552e\+19)\)?", c_)]
                    if len(big) == 1:
                        q = sides[1 - big[0]]
                        known = inv.dominating_conditions(fx, f, x) + \
                            [fx.canon(any_assert_condition(s_)) for s_ in walk(f.body) if any_assert_condition(s_) is not None]
                        below = any(re.fullmatch(r"\(%s < 1(\.0)?\)|!\(%s >= 1(\.0)?\)" % (re.escape(q), re.escape(q)), cd) or
                                    re.search(r"\(%s < 1(\.0)?\)" % re.escape(q), cd) and " || " not in cd for cd in known)
                        r7.instance("%s: '%s' scaled by 2^64 before conversion; known below 1 there: %s" % (f.name, q, below))
                        if not below:
                            rep.finding(r7, f.name, "conversion:out-of-range", "%s converts '%s * 2^64' to a 64-bit integer where '%s' "
                                        "may be exactly 1: the product 2^64 is outside the type, the conversion is undefined and "
                                        "yields 0 in practice, so the certain event never happens" % (f.name, q, q), where=m.rel(loc(x)))
                            r7.fail()
                        else:
                            r7.ok()
            if opnd["kind"] == "CallExpr" and callee_ref(opnd) in ROUND:
                r7.ok()
                continue
            asserted = [fx.canon(any_assert_condition(s_)) for s_ in walk(f.body) if any_assert_condition(s_) is not None]
            for cd in inv.dominating_conditions(fx, f, x):
                # what the branches leading here establish:  !(p <= 0.0)  is  p > 0.0
                mm_ = re.fullmatch(r"!\((.+) (<=|<) (0(\.0)?)\)", cd)
                asserted.append("(%s %s 0)" % (mm_.group(1), ">" if mm_.group(2) == "<=" else ">=") if mm_ else cd)

            def nonneg(n_, depth=0):
                n_ = fx.resolve(n_) if depth < 8 else strip(n_, casts=True)
                k_ = n_["kind"]
                if k_ in ("IntegerLiteral", "FloatingLiteral"):
                    v_ = float_value(n_)
                    return v_ is not None and v_ >= 0
                if k_ == "CallExpr":
                    return callee_ref(n_) in ("cmb_random", "fabs", "sqrt", "exp", "cmb_random_std_exponential", "cmb_random_exponential")
                if k_ in ("DeclRefExpr", "MemberExpr"):
                    t_ = n_.get("type") or ""
                    c_ = fx.canon(n_)
                    if "unsigned" in t_ or "uint" in t_ or "size_t" in t_:
                        return True
                    return any(a_ in ("(%s >= 0)" % c_, "(%s >= 0.0)" % c_, "(%s > 0)" % c_, "(%s > 0.0)" % c_) for a_ in asserted) or \
                        any(re.fullmatch(r"\(\(%s >= 0(\.0)?\) && .*\)|\(\(%s > 0(\.0)?\) && .*\)" % (re.escape(c_), re.escape(c_)), a_) for a_ in asserted)
                if k_ == "BinaryOperator" and n_.get("opcode") in ("+", "*", "/"):
                    return nonneg(kids(n_)[0], depth + 1) and nonneg(kids(n_)[1], depth + 1)
                if k_ == "ConditionalOperator":
                    return nonneg(kids(n_)[1], depth + 1) and nonneg(kids(n_)[2], depth + 1)
                return False
            if nonneg(opnd):
                r7.ok()
            else:
                rep.finding(r7, f.name, "conversion:truncates", "%s converts '%s' to %s by plain conversion, which rounds toward zero: "
                            "for a negative value that is one above the floor, so the lowest value of a signed range is never "
                            "returned and zero is returned twice as often" % (f.name, render(opnd)[:100], x.get("type")),
                            where=m.rel(loc(x)))
                r7.fail()

    # R-C16-8 ------------------------------------------------------------
    r8 = rep.rule("R-C16-8", "tail of the normal ziggurat (Marsaglia): the candidate x that the acceptance test 2z > x*x examines "
                  "is the one that is returned (shifted by the tail start, with the sign) - scaling it after the test makes the "
                  "test judge another density, and the tail collapses toward its start", floor=1)
    nh = m.need("cmi_random_nor_not_hot")
    nx = FuncCtx(m, nh)
    tails = []
    for lp in walk(nh.body):
        if lp["kind"] not in ("DoStmt", "WhileStmt", "ForStmt"):
            continue
        cnd = kids(lp)[1] if lp["kind"] == "DoStmt" else kids(lp)[0] if lp["kind"] == "WhileStmt" else kids(lp)[2]
        sq = [y for y in walk(cnd) if y.get("kind") == "BinaryOperator" and y.get("opcode") == "*" and
              strip(kids(y)[0], casts=True).get("kind") == "DeclRefExpr" and strip(kids(y)[1], casts=True).get("kind") == "DeclRefExpr" and
              strip(kids(y)[0], casts=True)["ref"]["id"] == strip(kids(y)[1], casts=True)["ref"]["id"]]
        if sq:
            tails.append((lp, strip(kids(sq[0])[0], casts=True)["ref"], None))
            continue
        # the test may be an `if` inside an endless loop whose accepting branch returns
        for st_ in walk(lp):
            if st_["kind"] == "IfStmt" and not any(z is not lp and z["kind"] in ("DoStmt", "WhileStmt", "ForStmt") and any(w is st_ for w in walk(z))
                                                   for z in walk(lp)):
                sq = [y for y in walk(kids(st_)[0]) if y.get("kind") == "BinaryOperator" and y.get("opcode") == "*" and
                      strip(kids(y)[0], casts=True).get("kind") == "DeclRefExpr" and strip(kids(y)[1], casts=True).get("kind") == "DeclRefExpr" and
                      strip(kids(y)[0], casts=True)["ref"]["id"] == strip(kids(y)[1], casts=True)["ref"]["id"]]
                if sq and any(y["kind"] == "ReturnStmt" for y in walk(st_)):
                    tails.append((lp, strip(kids(sq[0])[0], casts=True)["ref"], st_))
    for lp, vref, test_if in tails:
        if test_if is not None:
            rets = [y for y in walk(test_if) if y["kind"] == "ReturnStmt" and kids(y)]
        else:
            par = [a_ for a_ in inv.enclosing_chain(nh, lp) if a_["kind"] == "CompoundStmt"][-1]
            after = kids(par)[kids(par).index(lp) + 1:]
            rets = [y for s_ in after for y in walk(s_) if y["kind"] == "ReturnStmt" and kids(y)]
        r8.instance("%s: candidate '%s' tested in the loop at line %s, returned as %s" % (nh.name, vref["name"], lp.get("line"),
                                                                                       [render(kids(y)[0])[:60] for y in rets]))
        if not rets:
            raise AnalysisBroken("%s: no return after the tail's rejection loop" % nh.name)
        bad = None
        for rt in rets:
            # occurrences of the candidate in the value returned, also through single-definition locals: (use node, top node)
            uses = []

            def occurrences(expr, top, depth=0):
                for y in walk(expr):
                    if y["kind"] == "DeclRefExpr" and y["ref"]["id"] == vref["id"]:
                        uses.append((y, top))
                    elif y["kind"] == "DeclRefExpr" and y["ref"].get("kind") == "VarDecl" and depth < 4:
                        d_ = nx.single_def(y["ref"]["id"])
                        if d_ is not None:
                            before = len(uses)
                            holder_ = [v for v in walk(nh.body) if v["kind"] == "VarDecl" and v.get("id") == y["ref"]["id"]]
                            occurrences(d_, holder_[0] if holder_ else d_, depth + 1)
                            if len(uses) > before:
                                uses.append((y, top))      # the local that carries the candidate is itself a use here
            occurrences(kids(rt)[0], rt)
            if not uses:
                bad = "the value returned does not contain the accepted candidate '%s'" % vref["name"]
            for u, top_ in uses:
                chain = inv.enclosing_chain(nh, u)
                for anc in chain[chain.index(top_):] if top_ in chain else chain:
                    if anc["kind"] == "BinaryOperator" and anc.get("opcode") in ("*", "/"):
                        other = [z for z in kids(anc) if not any(y is u for y in walk(z))]
                        for o_ in other:
                            o0 = strip(o_, casts=True)
                            unit = (o0["kind"] == "DeclRefExpr" and ("int" in (o0.get("type") or "") or o0["ref"]["name"].startswith("sign"))) or \
                                (float_value(o0) in (1.0, -1.0) if o0["kind"] in ("IntegerLiteral", "FloatingLiteral") else False)
                            if not unit and anc.get("opcode") == "*" or (anc.get("opcode") == "/" and any(y is u for y in walk(kids(anc)[0])) and not unit):
                                bad = "the accepted candidate '%s' is rescaled by '%s' after the test" % (vref["name"], render(o0)[:50])
        if bad:
            rep.finding(r8, nh.name, "tail:accepted-value-rescaled", "%s: %s: the acceptance test judged another value than the one "
                        "returned, so the tail beyond the start point no longer follows the normal density" % (nh.name, bad),
                        where=m.rel(loc(lp)))
            r8.fail()
        else:
            r8.ok()
    if not tails:
        raise AnalysisBroken("%s: the tail's rejection loop (test on x*x) was not found" % nh.name)


def run(tier="quick"):
    models = common.load_models(tier)
    rep = Report(PID, tier, models[0])
    rep.assumptions = ["only the structural clauses are decided; nothing about distribution fit is claimed"]
    rep.not_decided = ["distribution fit (moments, bin frequencies, EDF convergence)", "value-level support of the continuous "
                       "samplers away from closed parameter boundaries"]
    for m in models[:1]:
        rep.configs.append(m.config)
        common.run_rules(rep, m, rules)
    return rep.finish()
