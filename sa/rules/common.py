import re
"""Rule pieces shared between properties."""
from ..astutil import kids, strip, walk, callee_ref, render, is_null_expr, loc
from ..frontend import AnalysisBroken
from ..engines import ord as ORD
from .. import model as M

TIER_CONFIGS = {"quick": ["release"], "thorough": ["release", "debug", "release-nologinfo"]}


def load_models(tier, extra_units=()):
    return [M.load(config=c, extra_units=extra_units) for c in TIER_CONFIGS.get(tier, ["release"])]


def comparator_registry(m):
    """[(installing function, call node, comparator Func or None)] from every
    cmi_hashheap_initialize call site (third argument)."""
    out = []
    for f in m.funcs.values():
        for n in walk(f.body):
            if n["kind"] == "CallExpr" and callee_ref(n) == "cmi_hashheap_initialize":
                a = kids(n)[3]
                s = strip(a, casts=True)
                if s["kind"] == "UnaryOperator" and s.get("opcode") == "&":
                    s = strip(kids(s)[0], casts=True)
                if s["kind"] == "DeclRefExpr" and s["ref"].get("kind") == "FunctionDecl":
                    out.append((f, n, m.need(m.resolve(f.unit, s["ref"]["name"]))))
                elif is_null_expr(a):
                    out.append((f, n, "NULL"))
                else:
                    out.append((f, n, None))
    return out


def installed_comparator(m, installer_name):
    reg = [r for r in comparator_registry(m) if r[0].name == installer_name]
    if len(reg) != 1 or not isinstance(reg[0][2], M.Func):
        raise AnalysisBroken("cannot resolve the comparator installed by %s (%d call sites)"
                             % (installer_name, len(reg)))
    return reg[0][2]


def ord_rule(rep, rule, m, func, spec, total_on, what):
    """Run ORD on one comparator and file findings."""
    try:
        res = ORD.check(func, spec=spec, total_on=total_on)
    except ORD.Unordered as e:
        rule.instance("%s (%s): decides by arithmetic on the keys" % (func.key, m.rel(func.file)))
        rule.fail()
        rep.finding(rule, func.name, "order:arithmetic", "%s is not %s for all key values: %s" % (func.name, what, e),
                    where="%s:%s" % (m.rel(func.file), func.line))
        return {"fields": [], "obligations": 1, "failures": [("arithmetic", str(e))], "samples": []}
    rule.instance("%s (%s) fields=%s" % (func.key, m.rel(func.file), ",".join(res["fields"])))
    nfail = len(res["failures"])
    rule.obligations += res["obligations"]
    rule.discharged += res["obligations"] - nfail
    for s in res["samples"]:
        rep.sample({"rule": rule.id, "comparator": func.key, **s})
    if nfail:
        kinds = sorted({k for k, _ in res["failures"]})
        ex = res["failures"][0]
        rep.finding(rule, func.name, "order:" + "+".join(kinds),
                    "%s is not %s: %d of %d abstract cases fail (%s), e.g. %s: %s"
                    % (func.name, what, nfail, res["obligations"], ", ".join(kinds), ex[0], ex[1]),
                    where="%s:%s" % (m.rel(func.file), func.line))
    return res


def signal_table(m):
    """{name: value} of the CMB_PROCESS_* signal macros, read from include/cmb_process.h."""
    import os, re
    txt = open(os.path.join(m.repo, "include", "cmb_process.h")).read()
    tab = {}
    for mm in re.finditer(r"#define\s+(CMB_PROCESS_[A-Z]+)\s+INT64_C\((-?\d+)\)", txt):
        tab[mm.group(1)] = int(mm.group(2))
    for need in ("CMB_PROCESS_SUCCESS", "CMB_PROCESS_PREEMPTED", "CMB_PROCESS_STOPPED", "CMB_PROCESS_CANCELLED"):
        if need not in tab:
            raise AnalysisBroken("signal macro %s not found in cmb_process.h" % need)
    return tab


def sigval(canon):
    """Integer value of a canonicalised signal argument, or None if not a constant."""
    c = canon.strip()
    if c == "NULL":
        return 0
    c = c.strip("()")
    try:
        return int(c)
    except ValueError:
        return None


def same_object(m, a, b):
    """Canonical pointer expressions denote the same object address modulo first-member embedding:
    '&x->core' == 'x' when 'core' is the first member of a record (base-class idiom)."""
    first = getattr(m, "_first_fields", None)
    if first is None:
        first = {fl[0][0] for fl in m.records.values() if fl and fl[0][0]}
        m._first_fields = first

    def norm(t):
        t = t.strip()
        changed = True
        while changed:
            changed = False
            while t.startswith("(") and t.endswith(")") and t.count("(") == t.count(")") and _balanced(t[1:-1]):
                t = t[1:-1]
                changed = True
            mm = re.fullmatch(r"&(.+)->(\w+)", t)
            if mm and mm.group(2) in first and _balanced(mm.group(1)):
                t = mm.group(1)
                changed = True
                continue
            mm = re.fullmatch(r"&(.+)\.(\w+)", t)
            if mm and mm.group(2) in first and _balanced(mm.group(1)):
                t = "&" + mm.group(1)
                changed = True
        return t
    return norm(a) == norm(b)


def _balanced(t):
    d = 0
    for ch in t:
        d += ch == "("
        d -= ch == ")"
        if d < 0:
            return False
    return d == 0


_NEG = {"<": ">=", "<=": ">", ">": "<=", ">=": "<", "==": "!=", "!=": "=="}
_SWAP = {"<": ">", "<=": ">=", ">": "<", ">=": "<=", "==": "==", "!=": "!="}


def _top_cmp(t):
    """('A', op, 'B') for a canonical comparison string '(A op B)' (split at the top-level operator), else None"""
    if not (t.startswith("(") and t.endswith(")")):
        return None
    inner, depth = t[1:-1], 0
    for i, ch_ in enumerate(inner):
        depth += ch_ == "("
        depth -= ch_ == ")"
        if depth == 0 and ch_ == " ":
            for op in ("<=", ">=", "==", "!=", "<", ">"):
                if inner.startswith(" " + op + " ", i):
                    return inner[:i], op, inner[i + len(op) + 2:]
    return None


def rel_assumed(trace, a, op, b, upto=None):
    """Some assumption on the path (before index `upto`) states exactly `a op b`, in any equivalent spelling:
    negated with the complementary operator, operands swapped, or wrapped in '!'."""
    t = trace if upto is None else trace[:upto]
    for e in t:
        if e[0] != "assume":
            continue
        txt, truth = e[1], e[2]
        while txt.startswith("!"):
            txt, truth = txt[1:], not truth
        c = _top_cmp(txt)
        if c is None:
            continue
        x, o, y = c
        if not truth:
            o = _NEG[o]
        if (x, o, y) == (a, op, b) or (y, _SWAP[o], x) == (a, op, b):
            return True
    return False


def run_rules(rep, m, rules):
    """Run a property's rules.  A construct that cannot be analysed stops the run as analysis-broken - unless concrete
    findings were already made: those are reported (a violation outranks 'undecided'), and the undecided part is noted."""
    from ..frontend import AnalysisBroken
    try:
        rules(rep, m)
    except AnalysisBroken as e:
        if not rep.findings:
            raise
        if not hasattr(rep, "deferred_broken"):
            rep.deferred_broken = []
        rep.deferred_broken.append(str(e))


def synchronous_withdrawals(m, f, cx, victim):
    """Calls in f that withdraw, before they return, every pending wake-up of the process `victim` (canonical text):
    cmi_process_cancel_awaiteds(victim) itself, or a function given the victim that reaches it through direct calls
    (an interrupt only *schedules* the withdrawal: the handler runs later, possibly after another wake-up)."""
    from ..astutil import walk, kids, callee_ref
    reach = m.reaches({"cmi_process_cancel_awaiteds"})
    out = []
    for c in walk(f.body):
        if c["kind"] != "CallExpr" or not callee_ref(c):
            continue
        args = [cx.canon(a) for a in kids(c)[1:]]
        if victim not in args:
            continue
        nm = callee_ref(c)
        if nm == "cmi_process_cancel_awaiteds":
            out.append(c)
            continue
        key = m.resolve(f.unit, nm)
        if key in reach and key in m.funcs and m.funcs[key].name not in ("cmb_process_stop",):
            out.append(c)
    return out


def as_ternary(cx, f, node):
    """If `node` is a local that receives its value in exactly two places under complementary conditions (an if / else,
    e.g. the result variable of an inlined helper), the canonical text of the equivalent conditional expression
    '((c) ? v1 : v2)'; otherwise the node's canonical text."""
    from ..astutil import strip, kids, walk
    from .. import inv
    n0 = strip(node, casts=True)
    for _ in range(4):
        if n0["kind"] != "DeclRefExpr" or n0["ref"].get("kind") != "VarDecl":
            return cx.canon(n0)
        vid = n0["ref"]["id"]
        defs = []
        for d_ in walk(f.body):
            if d_["kind"] == "VarDecl" and d_["id"] == vid and kids(d_):
                defs.append((kids(d_)[0], d_))
        for l_, r_, k_, nd in inv.stores(f):
            l0 = strip(l_, casts=True)
            if l0["kind"] == "DeclRefExpr" and l0["ref"]["id"] == vid and r_ is not None and k_ == "=":
                defs.append((r_, nd))
        if len(defs) == 1:
            n0 = strip(defs[0][0], casts=True)
            if n0["kind"] == "ConditionalOperator":
                return cx.canon(n0)
            continue
        if len(defs) != 2:
            return cx.canon(node)
        (v1, n1), (v2, n2) = defs
        c1, c2 = inv.dominating_conditions(cx, f, n1), inv.dominating_conditions(cx, f, n2)
        only1 = [c for c in c1 if c not in c2]
        only2 = [c for c in c2 if c not in c1]
        if len(only1) == 1 and len(only2) == 1 and (only1[0] == "!" + only2[0] or only2[0] == "!" + only1[0]):
            if only1[0].startswith("!"):
                only1, only2, v1, v2 = only2, only1, v2, v1
            return "(%s ? %s : %s)" % (only1[0], cx.canon(v1), cx.canon(v2))
        return cx.canon(node)
    return cx.canon(node)


PURE_MATH = {"sqrt", "log", "exp", "pow", "fabs", "ceil", "floor", "ldexp", "log1p", "expm1", "cbrt", "fmin", "fmax"}


def parameter_memo(m, g, writer_keys):
    """Is the static-storage variable `g` a parameter memo: every value stored into it (or into one of its members) is
    computed from the writing function's parameters, constants, pure math and other members of the same memo / other
    memos of the same function - never from generator output or from the member's own previous value.
    Returns (bool, reason)."""
    from ..astutil import strip, kids, walk, callee_ref
    from .. import inv
    from ..vals import FuncCtx
    for fk in writer_keys:
        f = m.funcs[fk]
        cx = FuncCtx(m, f)
        pids = {p["id"] for p in f.params}

        def root_of(lv):
            n = strip(lv, casts=True)
            path = []
            while n["kind"] in ("MemberExpr", "ArraySubscriptExpr") and not n.get("isArrow") and kids(n):
                path.append(n.get("name"))
                n = strip(kids(n)[0], casts=True)
            return n, tuple(reversed(path))

        def derived(n_, lhs_path, depth=0):
            """None if fine, else the reason"""
            for x in walk(n_):
                if x["kind"] == "CallExpr":
                    nm = callee_ref(x)
                    if nm not in PURE_MATH:
                        return "value computed by calling %s in %s" % (nm, f.name)
                if x["kind"] == "DeclRefExpr" and x.get("ref", {}).get("kind") in ("VarDecl", "ParmVarDecl"):
                    if x["ref"]["id"] in pids:
                        continue
                    gk2 = m.global_key(f.unit, f, x["ref"])
                    if gk2 is None:
                        d = cx.single_def(x["ref"]["id"])
                        if d is not None and depth < 4:
                            why = derived(d, lhs_path, depth + 1)
                            if why:
                                return why
                            continue
                        return "depends on local '%s' in %s" % (x["ref"]["name"], f.name)
                    if gk2 == g:
                        # another member of the same memo is fine; the member itself is not
                        par = [a for a in inv.enclosing_chain(f, x) if a["kind"] == "MemberExpr"]
                        sel = tuple(a.get("name") for a in reversed(par) if any(y is x for y in walk(a)))
                        if not lhs_path or not sel or sel[:len(lhs_path)] == lhs_path:
                            return "depends on its own previous value in %s" % f.name
                        continue
                    if m.globals[gk2].local_to != f.key and not m.globals[gk2].const:
                        return "depends on '%s'" % gk2
            return None
        for lhs, rhs, kind, node in inv.stores(f):
            root, path = root_of(lhs)
            if not (root["kind"] == "DeclRefExpr" and m.global_key(f.unit, f, root.get("ref", {})) == g):
                continue
            if kind != "=" or rhs is None:
                return False, "updated in place (%s) in %s" % (kind, f.name)
            why = derived(rhs, path)
            if why:
                return False, why
    return True, ""


# ---------------------------------------------------------------------------------------------------------------
# effects that exist only in some build configurations

_PURE_EXTERNALS = {"strlen", "strnlen", "strcmp", "strncmp", "memcmp", "fabs", "sqrt", "log", "log1p", "exp", "expm1", "pow", "floor",
                   "ceil", "fmax", "fmin", "isnan", "isinf", "isfinite", "ldexp", "frexp", "lgamma", "tgamma", "sin", "cos", "tan",
                   "atan", "atan2", "round", "trunc", "abs", "labs", "llabs", "__builtin_expect", "__builtin_isnan", "__builtin_isinf",
                   "__builtin_isfinite", "__builtin_fabs", "pthread_self", "sysconf", "malloc", "calloc", "realloc", "free", "aligned_alloc",
                   "_mm_getcsr"}


def impure_functions(m):
    """keys of functions that may change state outside their own locals: a store through a pointer / to a member / to a global,
    a call through a pointer, a call of an unknown external, or a call of such a function (fixpoint)"""
    cache = m.__dict__.get("_impure")
    if cache is not None:
        return cache
    from ..astutil import strip, kids, walk, callee_ref
    from .. import inv
    direct = set()
    calls = {}
    for k, f in m.funcs.items():
        if f.body is None:
            continue
        local_ids = {x.get("id") for x in walk(f.body) if x["kind"] == "VarDecl" and x.get("storageClass") != "static"}
        local_ids |= {p.get("id") for p in f.params}
        # pointer locals that only ever hold freshly allocated storage: what they point to is local as well
        fresh = set()
        for x in walk(f.body):
            if x["kind"] == "VarDecl" and kids(x) and "*" in (x.get("type") or ""):
                i0 = strip(kids(x)[0], casts=True)
                if i0["kind"] == "CallExpr" and callee_ref(i0) in ("cmi_malloc", "cmi_calloc", "malloc", "calloc"):
                    fresh.add(x.get("id"))
        for l, r, kd, n in inv.stores(f):
            l0 = strip(l, casts=True)
            if l0["kind"] == "DeclRefExpr" and l0["ref"].get("id") in fresh and kd == "=":
                r0 = strip(r, casts=True) if r is not None else None
                if not (r0 is not None and r0["kind"] == "CallExpr" and callee_ref(r0) in ("cmi_malloc", "cmi_calloc", "malloc", "calloc")):
                    fresh.discard(l0["ref"]["id"])
        for l, r, kd, n in inv.stores(f):
            l0 = strip(l, casts=True)
            if l0["kind"] == "DeclRefExpr" and l0["ref"].get("id") in local_ids:
                continue
            # a member of a struct-typed local is local storage as well
            root = l0
            via_ptr = False
            while root["kind"] in ("MemberExpr", "ArraySubscriptExpr", "UnaryOperator", "ParenExpr", "ImplicitCastExpr", "CStyleCastExpr"):
                if (root["kind"] == "MemberExpr" and root.get("isArrow")) or (root["kind"] == "UnaryOperator" and root.get("opcode") == "*") or \
                        (root["kind"] == "ArraySubscriptExpr" and "*" in (strip(kids(root)[0], casts=True).get("type") or "") and
                         "[" not in (strip(kids(root)[0], casts=True).get("type") or "")):
                    via_ptr = True
                root = kids(root)[0]
            if root["kind"] == "DeclRefExpr" and root["ref"].get("id") in local_ids and not via_ptr:
                continue
            if root["kind"] == "DeclRefExpr" and root["ref"].get("id") in fresh:
                continue
            direct.add(k)
            break
        cs = set()
        for c in walk(f.body):
            if c["kind"] == "CallExpr":
                nm = callee_ref(c)
                if nm is not None and (nm == "cmi_assert_failed" or nm.startswith(("cmi_logger_", "cmb_logger_"))):
                    continue                  # the failure arm of an assertion and logging are not state of the model
                if nm is None:
                    direct.add(k)
                    continue
                tk = m.resolve(f.unit, nm)
                if tk in m.funcs:
                    cs.add(tk)
                elif nm not in _PURE_EXTERNALS:
                    direct.add(k)
        calls[k] = cs
    imp = set(direct)
    changed = True
    while changed:
        changed = False
        for k, cs in calls.items():
            if k not in imp and cs & imp:
                imp.add(k)
                changed = True
    m.__dict__["_impure"] = imp
    return imp


def config_dependent_effects(m, files=None):
    """[(function, call node, callee name, 'assert' | 'log')] for calls of state-changing functions that sit inside the
    condition of an assertion or among the arguments of a logging call: such code is compiled out by NDEBUG / NASSERT /
    NLOGINFO, so the state change exists in some build configurations only."""
    from ..astutil import kids, walk, callee_ref
    from ..vals import any_assert_condition
    imp = impure_functions(m)
    out = []
    for f in m.funcs.values():
        rel = m.rel(f.file) or ""
        if not rel.startswith(("src/", "include/")) or f.body is None:
            continue
        if files is not None and not any(rel.endswith(x) for x in files):
            continue
        for s in walk(f.body):
            conds = []
            kind = None
            if s["kind"] in ("ParenExpr", "ConditionalOperator", "DoStmt"):
                c = any_assert_condition(s)
                if c is not None:
                    conds, kind = [c], "assert"
            if s["kind"] == "CallExpr" and (callee_ref(s) or "").startswith(("cmi_logger_", "cmb_logger_")):
                conds, kind = kids(s)[1:], "log"
            for cnd in conds:
                for y in walk(cnd):
                    if y["kind"] == "CallExpr":
                        nm = callee_ref(y)
                        if nm is None:
                            continue
                        tk = m.resolve(f.unit, nm)
                        if (tk in m.funcs and tk in imp) or (tk not in m.funcs and nm not in _PURE_EXTERNALS and
                                                             not nm.startswith(("__builtin", "cmb_logger", "cmi_logger"))):
                            out.append((f, y, nm, kind))
    return out


def config_effects_rule(rep, rule, m, files=None, consequence=""):
    from ..astutil import loc
    found = config_dependent_effects(m, files)
    n_as = sum(1 for f in m.funcs.values() if (m.rel(f.file) or "").startswith(("src/", "include/")))
    rule.instance("assertion conditions and logging arguments of %d library functions scanned for state-changing calls: %d found"
                  % (n_as, len(found)))
    if not found:
        rule.ok()
    for f, node, nm, kind in found:
        rep.finding(rule, f.name, "config:effect-in-" + kind, "%s calls %s inside %s: that code is compiled out by the documented "
                    "production flags (%s), so the state change happens in some build configurations only%s"
                    % (f.name, nm, "the condition of an assertion" if kind == "assert" else "the arguments of a logging call",
                       "NDEBUG / NASSERT" if kind == "assert" else "NLOGINFO", consequence), where=m.rel(loc(node)))
        rule.fail()
