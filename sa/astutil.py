"""Helpers over the pruned clang JSON AST (dict nodes)."""

TRANSPARENT = ("ParenExpr", "ImplicitCastExpr", "ConstantExpr")


def kids(n):
    return n.get("inner") or []


def strip(n, casts=False):
    """Skip parentheses and implicit casts (and explicit casts when casts=True)."""
    while n is not None:
        k = n["kind"]
        if k in TRANSPARENT and kids(n):
            n = kids(n)[0]
        elif casts and k == "CStyleCastExpr" and kids(n):
            n = kids(n)[0]
        else:
            break
    return n


def walk(n):
    """Pre-order traversal."""
    stack = [n]
    while stack:
        x = stack.pop()
        yield x
        ch = x.get("inner")
        if ch:
            stack.extend(reversed(ch))


def is_null(n):
    n = strip(n)
    if n is None:
        return False
    if n["kind"] in ("CStyleCastExpr", "ImplicitCastExpr") and n.get("castKind") == "NullToPointer":
        return True
    if n["kind"] == "CStyleCastExpr":
        return is_null(kids(n)[0]) or (int_value(kids(n)[0]) == 0 and "*" in (n.get("type") or ""))
    # ImplicitCastExpr NullToPointer is stripped by strip(); check the original chain
    return False


def is_null_expr(n):
    """True for NULL / (void*)0 / 0 converted to pointer."""
    x = n
    while x is not None:
        if x.get("castKind") == "NullToPointer":
            return True
        if x["kind"] in TRANSPARENT or x["kind"] == "CStyleCastExpr":
            ch = kids(x)
            if not ch:
                return False
            x = ch[0]
        else:
            return False
    return False


def int_value(n):
    """Constant integer value of an expression if syntactically evident, else None."""
    n = strip(n, casts=True)
    if n is None:
        return None
    k = n["kind"]
    if k == "IntegerLiteral":
        try:
            return int(n["value"])
        except (KeyError, ValueError):
            return None
    if k == "CharacterLiteral":
        return n.get("value")
    if k == "UnaryOperator" and n.get("opcode") == "-":
        v = int_value(kids(n)[0])
        return None if v is None else -v
    if k == "CXXBoolLiteralExpr":
        return 1 if n.get("value") else 0
    if k == "BinaryOperator":
        a, b = int_value(kids(n)[0]), int_value(kids(n)[1])
        if a is None or b is None:
            return None
        op = n.get("opcode")
        try:
            if op == "+":
                return a + b
            if op == "-":
                return a - b
            if op == "*":
                return a * b
            if op == "<<":
                return a << b
            if op == ">>":
                return a >> b
            if op == "|":
                return a | b
            if op == "&":
                return a & b
            if op == "/" and b:
                return a // b
        except Exception:
            return None
    return None


def float_value(n):
    n = strip(n, casts=True)
    if n is None:
        return None
    if n["kind"] == "FloatingLiteral":
        try:
            return float(n["value"])
        except (KeyError, ValueError):
            return None
    if n["kind"] == "IntegerLiteral":
        return float(n["value"])
    if n["kind"] == "UnaryOperator" and n.get("opcode") == "-":
        v = float_value(kids(n)[0])
        return None if v is None else -v
    return None


def callee_ref(call):
    """(name, id) of the directly called function, or None for an indirect call."""
    f = strip(kids(call)[0], casts=True)
    if f["kind"] == "DeclRefExpr" and f.get("ref", {}).get("kind") == "FunctionDecl":
        return f["ref"]["name"]
    if f["kind"] == "UnaryOperator" and f.get("opcode") in ("*", "&"):
        g = strip(kids(f)[0], casts=True)
        if g["kind"] == "DeclRefExpr" and g.get("ref", {}).get("kind") == "FunctionDecl":
            return g["ref"]["name"]
    return None


def call_args(call):
    return kids(call)[1:]


def render(n, casts=False):
    """Canonical C-like rendering; implicit casts and parentheses dropped.
    Explicit casts are dropped unless casts=True."""
    if n is None:
        return "?"
    k = n["kind"]
    ch = kids(n)
    if k in TRANSPARENT:
        return render(ch[0], casts) if ch else "?"
    if k == "CStyleCastExpr":
        if n.get("castKind") == "NullToPointer":
            return "NULL"
        if casts:
            return "(%s)%s" % (n.get("type"), render(ch[0], casts))
        return render(ch[0], casts)
    if k == "DeclRefExpr":
        return n.get("ref", {}).get("name") or "?"
    if k == "MemberExpr":
        if not n.get("name"):
            return render(ch[0], casts) + ("->" if n.get("isArrow") else ".") + "<anon>"
        b = render(ch[0], casts)
        if b.endswith("<anon>"):
            return b[:-6] + n["name"]
        return b + ("->" if n.get("isArrow") else ".") + n["name"]
    if k == "ArraySubscriptExpr":
        return "%s[%s]" % (render(ch[0], casts), render(ch[1], casts))
    if k == "IntegerLiteral":
        return str(n.get("value"))
    if k == "FloatingLiteral":
        return str(n.get("value"))
    if k == "CharacterLiteral":
        return "'%s'" % n.get("value")
    if k == "StringLiteral":
        return str(n.get("value"))
    if k == "BinaryOperator" or k == "CompoundAssignOperator":
        return "(%s %s %s)" % (render(ch[0], casts), n.get("opcode"), render(ch[1], casts))
    if k == "UnaryOperator":
        op = n.get("opcode")
        if n.get("isPostfix"):
            return "%s%s" % (render(ch[0], casts), op)
        return "%s%s" % (op, render(ch[0], casts))
    if k == "CallExpr":
        return "%s(%s)" % (render(ch[0], casts), ", ".join(render(a, casts) for a in ch[1:]))
    if k == "ConditionalOperator":
        return "(%s ? %s : %s)" % tuple(render(c, casts) for c in ch[:3])
    if k == "UnaryExprOrTypeTraitExpr":
        if ch:
            return "%s(%s)" % (n.get("name", "sizeof"), render(ch[0], casts))
        return "%s(%s)" % (n.get("name", "sizeof"), n.get("argType") or "?")
    if k == "InitListExpr":
        return "{%s}" % ", ".join(render(c, casts) for c in ch)
    if k == "CompoundLiteralExpr":
        return "(lit)%s" % (render(ch[0], casts) if ch else "")
    if k == "StmtExpr":
        return "({...})"
    if k == "VAArgExpr":
        return "va_arg"
    if k == "PredefinedExpr":
        return n.get("name", "__func__")
    if k == "ImplicitValueInitExpr":
        return "{}"
    if k == "OffsetOfExpr":
        return "offsetof"
    if k == "AtomicExpr":
        return "%s(%s)" % (n.get("name", "__atomic"), ", ".join(render(c, casts) for c in ch))
    return "<%s>" % k


def pointee(t):
    """'struct X *' -> 'struct X' (qualifiers dropped); None if not a pointer type."""
    if t is None:
        return None
    t = t.strip()
    if not t.endswith("*") and not t.endswith("*const") and not t.endswith("* const") \
            and not t.endswith("*restrict"):
        return None
    t = t.rsplit("*", 1)[0]
    return unqual(t)


def unqual(t):
    if t is None:
        return None
    toks = [x for x in t.replace("*", " * ").split() if x not in ("const", "volatile", "restrict", "_Atomic")]
    s = " ".join(toks).replace(" *", " *")
    return s.strip()


def struct_name(t):
    """'struct X' or 'const struct X' -> 'X'; else None."""
    t = unqual(t)
    if t and t.startswith("struct ") and "*" not in t and "[" not in t:
        return t[len("struct "):].strip()
    return None


def loc(n):
    return "%s:%s" % (n.get("file", "?"), n.get("line", "?"))


def find_calls(n, name=None):
    for x in walk(n):
        if x["kind"] == "CallExpr":
            if name is None or callee_ref(x) == name:
                yield x
