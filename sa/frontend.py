"""Front end: build the program model from /repo's working tree on every run.

Nothing from /repo/_build is trusted.  The unit list is read from the meson
build descriptions, the two generated sources are regenerated with the
project's own generators, every C unit is parsed by clang (JSON AST), the NASM
units are assembled and disassembled.  The pruned model is cached under
/verif/.cache keyed by the content hash of every input, so any edit to /repo
invalidates it.
"""
import hashlib
import json
import os
import pickle
import re
import shutil
import subprocess
import sys
import tempfile
import time
from concurrent.futures import ProcessPoolExecutor

REPO = os.environ.get("VERIF_REPO", "/repo")
VERIF = os.path.dirname(os.path.dirname(os.path.abspath(__file__)))
CACHE = os.path.join(VERIF, ".cache")
FRONTEND_VERSION = "9"

BASE_FLAGS = ["-std=c17", "-D_POSIX_C_SOURCE=200809L"]
CONFIGS = {
    "release": ["-DNDEBUG"],
    "debug": ["-UNDEBUG"],
    "release-nologinfo": ["-DNDEBUG", "-DNLOGINFO"],
}


class AnalysisBroken(Exception):
    """The analysis cannot give a verdict (exit 2): never a pass, never a violation."""


def _read(p):
    with open(p, "rb") as f:
        return f.read()


def meson_files(path):
    """Return the file names listed in files(...) calls of a meson.build."""
    txt = _read(path).decode()
    txt = re.sub(r"#.*", "", txt)
    out = []
    for m in re.finditer(r"files\s*\(([^)]*)\)", txt, re.S):
        out += re.findall(r"'([^']+)'", m.group(1))
    # generator(...).process('a.asm', 'b.asm')
    for m in re.finditer(r"\.process\s*\(([^)]*)\)", txt, re.S):
        out += re.findall(r"'([^']+)'", m.group(1))
    return out


def unit_list(repo=None):
    repo = repo or REPO
    src = os.path.join(repo, "src")
    port = os.path.join(src, "port", "x86-64", "linux")
    c_units, asm_units = [], []
    for d in (src, port):
        for f in meson_files(os.path.join(d, "meson.build")):
            p = os.path.join(d, f)
            if f.endswith(".c"):
                c_units.append(p)
            elif f.endswith(".asm"):
                asm_units.append(p)
    # cover what the build covers: every .c on disk must be in the build and vice versa
    for d in (src, port):
        on_disk = {os.path.join(d, f) for f in os.listdir(d) if f.endswith(".c")}
        listed = {p for p in c_units if os.path.dirname(p) == d}
        if on_disk != listed:
            raise AnalysisBroken(
                "unit list mismatch in %s: on disk only %s, in meson.build only %s"
                % (d, sorted(on_disk - listed), sorted(listed - on_disk)))
    for p in c_units + asm_units:
        if not os.path.exists(p):
            raise AnalysisBroken("unit listed in meson.build is missing: " + p)
    return c_units, asm_units


def input_files(repo=None):
    repo = repo or REPO
    files = []
    for sub in ("src", "include", "codegen"):
        for root, _, names in os.walk(os.path.join(repo, sub)):
            for n in sorted(names):
                if n.endswith((".c", ".h", ".asm", ".inc", ".build")):
                    files.append(os.path.join(root, n))
    files.append(os.path.join(repo, "meson.build"))
    return sorted(files)


def tree_hash(repo=None, extra=()):
    h = hashlib.sha256()
    h.update(FRONTEND_VERSION.encode())
    for p in input_files(repo):
        h.update(p.encode())
        h.update(b"\0")
        h.update(_read(p))
        h.update(b"\0")
    for e in extra:
        h.update(str(e).encode())
    return h.hexdigest()


def generate_includes(repo, gendir):
    """Regenerate the ziggurat tables exactly as codegen/meson.build does."""
    cg = os.path.join(repo, "codegen")
    for exe, src, out in (("calc_exponential", "calc_exponential.c", "cmi_random_exp_zig.inc"),
                          ("calc_normal", "calc_normal.c", "cmi_random_nor_zig.inc")):
        binp = os.path.join(gendir, exe)
        r = subprocess.run(["cc", "-O1", "-o", binp, os.path.join(cg, src),
                            os.path.join(cg, "calc_utils.c"), "-lm"],
                           capture_output=True, text=True)
        if r.returncode != 0:
            raise AnalysisBroken("code generator does not compile: " + r.stderr[:500])
        r = subprocess.run([binp], capture_output=True, text=True, timeout=120)
        if r.returncode != 0:
            raise AnalysisBroken("code generator failed: " + exe)
        with open(os.path.join(gendir, out), "w") as f:
            f.write(r.stdout)
        os.unlink(binp)


# --------------------------------------------------------------------------
# JSON AST loading and pruning

_KEEP_KEYS = ("kind", "name", "opcode", "value", "castKind", "isArrow", "storageClass",
              "tls", "inline", "isPostfix", "init", "tagUsed", "completeDefinition",
              "isBitfield", "isPartOfExplicitCast", "computeLHSType", "hasElse",
              "isImplicit", "argType", "isUsed", "isReferenced", "variadic")


class _Loader:
    def __init__(self, roots):
        self.roots = roots          # directory prefixes whose decls are kept
        self.file = None
        self.line = None

    def bare(self, loc):
        if not loc:
            return None
        if "file" in loc:
            self.file = loc["file"]
        if "line" in loc:
            self.line = loc["line"]
        return (self.file, self.line, loc.get("col"))

    def loc(self, loc):
        """update the tracker, return (file,line,col) of the expansion location"""
        if not loc:
            return None
        if "spellingLoc" in loc or "expansionLoc" in loc:
            sp = self.bare(loc.get("spellingLoc"))
            ex = self.bare(loc.get("expansionLoc"))
            return ex or sp
        return self.bare(loc)

    def keep(self, fl):
        return fl is not None and any(fl.startswith(r) for r in self.roots)

    def walk(self, n, keep):
        """Walk in document order, tracking locations; return pruned node if keep."""
        where = None
        if "loc" in n:
            where = self.loc(n["loc"])
        rng = n.get("range")
        if rng:
            b = self.loc(rng.get("begin"))
            e = self.loc(rng.get("end"))
            if where is None:
                where = b
            end = e
        else:
            end = None
        out = None
        if keep:
            out = {}
            for k in _KEEP_KEYS:
                if k in n:
                    out[k] = n[k]
            if "kind" not in out:
                out["kind"] = "Null"
            out["id"] = n.get("id")
            if isinstance(out.get("argType"), dict):
                out["argType"] = out["argType"].get("qualType")
            t = n.get("type")
            if t:
                out["type"] = t.get("qualType")
                if "desugaredQualType" in t:
                    out["dtype"] = t["desugaredQualType"]
            if where:
                out["file"], out["line"], out["col"] = where
            if end:
                out["endline"] = end[1]
            rd = n.get("referencedDecl")
            if rd:
                out["ref"] = {"id": rd.get("id"), "kind": rd.get("kind"), "name": rd.get("name"),
                              "type": (rd.get("type") or {}).get("qualType")}
            if "referencedMemberDecl" in n:
                out["member"] = n["referencedMemberDecl"]
            if "previousDecl" in n:
                out["prev"] = n["previousDecl"]
            if "ownedTagDecl" in n:
                out["ownedTag"] = n["ownedTagDecl"].get("id")
            if "decl" in n and isinstance(n["decl"], dict):
                out["decl"] = {"id": n["decl"].get("id"), "name": n["decl"].get("name"),
                               "kind": n["decl"].get("kind")}
        inner = n.get("inner")
        if inner:
            kids = []
            for c in inner:
                r = self.walk(c, keep)
                if keep and r is not None:
                    kids.append(r)
            if keep:
                out["inner"] = kids
        elif keep:
            out["inner"] = []
        return out

    def load_tu(self, tu):
        kept = []
        for d in tu.get("inner", []):
            # decide keep by the decl's own location: need to peek the file first
            save = (self.file, self.line)
            # dry peek: compute location of this decl
            fl = None
            if "loc" in d:
                l = d["loc"]
                if "spellingLoc" in l or "expansionLoc" in l:
                    ex = l.get("expansionLoc") or l.get("spellingLoc") or {}
                    # the tracker sees spellingLoc first; emulate
                    f = self.file
                    sp = l.get("spellingLoc") or {}
                    if "file" in sp:
                        f = sp["file"]
                    if "file" in ex:
                        f = ex["file"]
                    fl = f
                else:
                    fl = l.get("file", self.file)
            keep = self.keep(fl)
            r = self.walk(d, keep)
            if keep:
                kept.append(r)
        return kept


def _parse_unit(args):
    path, flags, roots, outdir = args
    cmd = ["clang", "-fsyntax-only", "-Xclang", "-ast-dump=json", "-Wno-everything"] + flags + [path]
    r = subprocess.run(cmd, capture_output=True)
    if r.returncode != 0:
        return (path, None, r.stderr.decode(errors="replace")[:2000])
    tu = json.loads(r.stdout)
    del r
    ld = _Loader(roots)
    decls = ld.load_tu(tu)
    outp = os.path.join(outdir, os.path.basename(path) + ".pkl")
    with open(outp, "wb") as f:
        pickle.dump(decls, f, protocol=pickle.HIGHEST_PROTOCOL)
    return (path, outp, None)


def parse_units(repo, config, gendir, workdir, extra_units=()):
    """Parse all C units (plus extra_units, e.g. controls) -> {path: [top-level decls]}"""
    c_units, _ = unit_list(repo)
    flags = BASE_FLAGS + CONFIGS[config] + ["-I" + os.path.join(repo, "include"),
                                            "-I" + os.path.join(repo, "src"), "-I" + gendir]
    roots = [repo + "/", gendir + "/"] + [os.path.dirname(u) + "/" for u in extra_units]
    jobs = [(u, flags, roots, workdir) for u in list(c_units) + list(extra_units)]
    out = {}
    with ProcessPoolExecutor(max_workers=min(16, os.cpu_count() or 4)) as ex:
        for path, pk, err in ex.map(_parse_unit, jobs):
            if err is not None:
                raise AnalysisBroken("clang failed on %s:\n%s" % (path, err))
            with open(pk, "rb") as f:
                out[path] = pickle.load(f)
            os.unlink(pk)
    return out


def assemble(repo, workdir):
    """Assemble NASM units with the project's flags and disassemble the objects."""
    _, asm_units = unit_list(repo)
    out = {}
    for a in asm_units:
        obj = os.path.join(workdir, os.path.basename(a) + ".o")
        r = subprocess.run(["nasm", "-f", "elf64", a, "-o", obj], capture_output=True, text=True)
        if r.returncode != 0:
            raise AnalysisBroken("nasm failed on %s: %s" % (a, r.stderr[:500]))
        d = subprocess.run(["objdump", "-d", "-M", "intel", "--no-show-raw-insn", obj],
                           capture_output=True, text=True)
        rel = subprocess.run(["objdump", "-r", obj], capture_output=True, text=True)
        lst = subprocess.run(["nasm", "-f", "elf64", "-E", a], capture_output=True, text=True)
        out[a] = {"disasm": d.stdout, "relocs": rel.stdout, "preprocessed": lst.stdout,
                  "source": _read(a).decode(errors="replace")}
        os.unlink(obj)
    return out


def build(repo=None, config="release", use_cache=True, extra_units=()):
    """Return {'units': {path: decls}, 'asm': {...}, 'hash':..., 'config':...}"""
    repo = repo or REPO
    extra_units = tuple(extra_units)
    key = tree_hash(repo, extra=(config, repo) + tuple(
        hashlib.sha256(_read(u)).hexdigest() for u in extra_units))
    cpath = os.path.join(CACHE, key + ".pkl")
    if use_cache and os.path.exists(cpath):
        try:
            with open(cpath, "rb") as f:
                return pickle.load(f)
        except Exception:
            pass
    work = tempfile.mkdtemp(prefix="cimba-sa-")
    try:
        gendir = os.path.join(work, "gen")
        os.mkdir(gendir)
        generate_includes(repo, gendir)
        units = parse_units(repo, config, gendir, work, extra_units)
        asm = assemble(repo, work)
        gen = {n: _read(os.path.join(gendir, n)).decode() for n in os.listdir(gendir)}
        res = {"units": units, "asm": asm, "hash": key, "config": config, "repo": repo,
               "gendir": gendir, "generated": gen}
    finally:
        shutil.rmtree(work, ignore_errors=True)
    if use_cache:
        os.makedirs(CACHE, exist_ok=True)
        # keep the cache small: drop entries beyond the 12 most recent
        # (never another process's file that is still being written; stale temporaries older than an hour do go)
        try:
            now = time.time()
            ents = []
            for f in os.listdir(CACHE):
                fp = os.path.join(CACHE, f)
                try:
                    mt = os.path.getmtime(fp)
                except OSError:
                    continue
                if f.endswith(".tmp"):
                    if now - mt > 3600:
                        try:
                            os.unlink(fp)
                        except OSError:
                            pass
                    continue
                ents.append((mt, f))
            for _, f in sorted(ents)[:-12]:
                try:
                    os.unlink(os.path.join(CACHE, f))
                except OSError:
                    pass
        except OSError:
            pass
        # the cache is best effort: a failure to store the entry never fails the analysis
        tmp = cpath + ".%d.tmp" % os.getpid()
        try:
            with open(tmp, "wb") as f:
                pickle.dump(res, f, protocol=pickle.HIGHEST_PROTOCOL)
            os.replace(tmp, cpath)
        except OSError:
            try:
                os.unlink(tmp)
            except OSError:
                pass
    return res


def witness_ast(repo, config, source, name):
    """Parse a small witness translation unit against the tree's headers (nothing is executed) and return the raw clang
    JSON nodes of the declarations whose name contains `name`."""
    work = tempfile.mkdtemp(prefix="cimba-wit-")
    try:
        gendir = os.path.join(work, "gen")
        os.mkdir(gendir)
        for n in ("cmi_random_exp_zig.inc", "cmi_random_nor_zig.inc"):
            open(os.path.join(gendir, n), "w").close()
        src = os.path.join(work, "witness.c")
        with open(src, "w") as f:
            f.write(source)
        flags = BASE_FLAGS + CONFIGS[config] + ["-I" + os.path.join(repo, "include"),
                                                "-I" + os.path.join(repo, "src"), "-I" + gendir]
        cmd = ["clang", "-fsyntax-only", "-Xclang", "-ast-dump=json", "-Xclang", "-ast-dump-filter=" + name,
               "-Wno-everything"] + flags + [src]
        r = subprocess.run(cmd, capture_output=True, text=True)
        if r.returncode != 0:
            raise AnalysisBroken("witness does not compile:\n%s" % r.stderr[:1500])
        out, txt, i = [], r.stdout, 0
        dec = json.JSONDecoder()
        while True:
            while i < len(txt) and txt[i] != "{":
                i += 1
            if i >= len(txt):
                break
            obj, i = dec.raw_decode(txt, i)
            out.append(obj)
        return out
    finally:
        shutil.rmtree(work, ignore_errors=True)


if __name__ == "__main__":
    import time
    t = time.time()
    m = build(use_cache="--nocache" not in sys.argv)
    print("units", len(m["units"]), "asm", len(m["asm"]), "%.1fs" % (time.time() - t))
    for u, d in m["units"].items():
        print(" ", os.path.relpath(u, REPO), len(d))
