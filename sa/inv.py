"""INV - inventories over the whole model: who writes a field / a global, who
calls a function, statement-order helpers."""
import re
from .astutil import kids, strip, walk, callee_ref, render, struct_name, pointee, unqual, loc
from .vals import is_assert_stmt, assert_condition


def member_record(n):
    """Record name that a MemberExpr selects from (by the base expression's type)."""
    b = kids(n)[0]
    t = b.get("type")
    if n.get("isArrow"):
        t = pointee(t)
    return struct_name(t) or struct_name(unqual(t) if t else None)


def lhs_member(n):
    """For an lvalue expression, the (record, field) it ultimately stores to, following
    array subscripts: hp->heap[i].key -> ('cmi_heap_tag','key'); hp->heap[i] -> ('cmi_hashheap','heap[]')."""
    n = strip(n, casts=True)
    if n["kind"] == "MemberExpr":
        return (member_record(n), n.get("name"))
    if n["kind"] == "ArraySubscriptExpr":
        b = strip(kids(n)[0], casts=True)
        if b["kind"] == "MemberExpr":
            return (member_record(b), (b.get("name") or "") + "[]")
        if b["kind"] == "DeclRefExpr":
            return (None, b["ref"]["name"] + "[]")
    if n["kind"] == "UnaryOperator" and n.get("opcode") == "*":
        return (None, "*" + render(kids(n)[0]))
    if n["kind"] == "DeclRefExpr":
        return (None, n["ref"]["name"])
    return (None, render(n))


def stores(func):
    """Every store in func: (lhs node, rhs node or None, kind, stmt node).
    kind: '=', 'op=' (compound), '++', '--'."""
    out = []
    for n in walk(func.body):
        k = n["kind"]
        if k == "BinaryOperator" and n.get("opcode") == "=":
            out.append((kids(n)[0], kids(n)[1], "=", n))
        elif k == "CompoundAssignOperator":
            out.append((kids(n)[0], kids(n)[1], n.get("opcode"), n))
        elif k == "UnaryOperator" and n.get("opcode") in ("++", "--"):
            out.append((kids(n)[0], None, n.get("opcode"), n))
    return out


def field_writers(m, record, field):
    """[(func, lhs, rhs, kind, node)] for every store to record.field anywhere in the library."""
    out = []
    for f in m.funcs.values():
        for lhs, rhs, kind, node in stores(f):
            l = strip(lhs, casts=True)
            if l["kind"] == "MemberExpr" and l.get("name") == field and member_record(l) == record:
                out.append((f, lhs, rhs, kind, node))
    return out


def global_refs(m, gkey):
    """[(func, node, is_write, kind)] for every reference to global `gkey`."""
    g = m.globals[gkey]
    out = []
    for f in m.funcs.values():
        written = {}
        for lhs, rhs, kind, node in stores(f):
            base = strip(lhs, casts=True)
            # walk down to the root variable of the lvalue
            root = base
            while root["kind"] in ("MemberExpr", "ArraySubscriptExpr") and kids(root):
                if root["kind"] == "MemberExpr" and root.get("isArrow"):
                    root = None
                    break
                root = strip(kids(root)[0], casts=True)
            if root is not None and root["kind"] == "DeclRefExpr":
                written[id(root)] = kind
        for n in walk(f.body):
            if n["kind"] == "DeclRefExpr" and n.get("ref", {}).get("kind") == "VarDecl" \
                    and n["ref"].get("name") == g.name:
                if m.global_key(f.unit, f, n["ref"]) == gkey:
                    out.append((f, n, id(n) in written, written.get(id(n))))
    return out


def calls_to(m, name):
    """[(func, call node)] of every direct call of a function named `name`."""
    out = []
    for f in m.funcs.values():
        for n in walk(f.body):
            if n["kind"] == "CallExpr" and callee_ref(n) == name:
                out.append((f, n))
    return out


def top_statements(func):
    return kids(func.body)


def stmt_index_containing(func, node):
    """Index of the top-level statement of func's body that contains `node`."""
    for i, s in enumerate(kids(func.body)):
        for x in walk(s):
            if x is node:
                return i
    return None


def release_asserts_before(func, idx):
    """Conditions of release assertions among the top-level statements before index idx."""
    out = []
    for s in kids(func.body)[:idx]:
        c = assert_condition(s)
        if c is not None:
            out.append(c)
    return out


def enclosing_chain(func, node):
    """List of ancestor nodes from the body down to `node` (exclusive)."""
    path = []

    def rec(n):
        if n is node:
            return True
        for c in kids(n):
            if rec(c):
                path.append(n)
                return True
        return False
    rec(func.body)
    return list(reversed(path))


def in_loop(func, node):
    return any(a["kind"] in ("WhileStmt", "ForStmt", "DoStmt") for a in enclosing_chain(func, node))


def global_effects(m, cut=()):
    """(`cut`: function names whose effects are not propagated to callers, e.g. the assertion-failure
    and logging paths, which do not influence returned values.)  Transitive read/write sets of static-storage variables per function key:
    {fkey: {'reads': set(gkey), 'writes': set(gkey)}} (direct calls + type-compatible indirect targets)."""
    direct = {}
    for f in m.funcs.values():
        rd, wr = set(), set()
        wnodes = set()
        for lhs, rhs, kind, node in stores(f):
            root = strip(lhs, casts=True)
            while root["kind"] in ("MemberExpr", "ArraySubscriptExpr") and kids(root):
                if root["kind"] == "MemberExpr" and root.get("isArrow"):
                    root = None
                    break
                root = strip(kids(root)[0], casts=True)
            if root is not None and root["kind"] == "DeclRefExpr" and root.get("ref", {}).get("kind") == "VarDecl":
                gk = m.global_key(f.unit, f, root["ref"])
                if gk:
                    wr.add(gk)
                    wnodes.add(id(root))
                    if kind != "=":
                        rd.add(gk)
        # a static-storage variable whose address is handed to a callee through a pointer-to-non-const
        # parameter may be written there (conservative)
        for c in walk(f.body):
            if c["kind"] != "CallExpr" or (callee_ref(c) or "").startswith("__atomic"):
                continue
            cf = m.funcs.get(m.resolve(f.unit, callee_ref(c))) if callee_ref(c) else None
            for i, a in enumerate(kids(c)[1:]):
                a0 = strip(a, casts=True)
                if a0["kind"] == "UnaryOperator" and a0.get("opcode") == "&":
                    root = strip(kids(a0)[0], casts=True)
                    while root["kind"] in ("MemberExpr", "ArraySubscriptExpr") and not root.get("isArrow") and kids(root):
                        root = strip(kids(root)[0], casts=True)
                    if root["kind"] == "DeclRefExpr" and root.get("ref", {}).get("kind") == "VarDecl":
                        gk = m.global_key(f.unit, f, root["ref"])
                        if not gk:
                            continue
                        pt = None
                        if cf is not None and i < len(cf.params):
                            pt = cf.params[i].get("type") or ""
                        if pt is None or not pt.strip().startswith("const "):
                            wr.add(gk)
                            wnodes.add(id(root))
        for n in walk(f.body):
            if n["kind"] == "DeclRefExpr" and n.get("ref", {}).get("kind") == "VarDecl" and id(n) not in wnodes:
                gk = m.global_key(f.unit, f, n["ref"])
                if gk:
                    rd.add(gk)
        direct[f.key] = {"reads": rd, "writes": wr}
    cg = m.callgraph()
    eff = {k: {"reads": set(v["reads"]), "writes": set(v["writes"])} for k, v in direct.items()}
    changed = True
    while changed:
        changed = False
        for f, cs in cg.items():
            e = eff.setdefault(f, {"reads": set(), "writes": set()})
            for c in cs:
                ce = eff.get(c)
                if not ce or c.split("@")[0] in cut:
                    continue
                for kind in ("reads", "writes"):
                    add = ce[kind] - e[kind]
                    if add:
                        e[kind] |= add
                        changed = True
    return direct, eff


def _neg(c):
    return c[1:] if c.startswith("!") else "!" + c


def _ends_in_exit(stmt):
    """the statement always leaves the enclosing function or loop body (return / break / continue / goto last)"""
    if stmt["kind"] in ("ReturnStmt", "BreakStmt", "ContinueStmt", "GotoStmt"):
        return True
    if stmt["kind"] == "CompoundStmt" and kids(stmt):
        return _ends_in_exit(kids(stmt)[-1])
    if stmt["kind"] == "IfStmt" and len(kids(stmt)) > 2:
        return _ends_in_exit(kids(stmt)[1]) and _ends_in_exit(kids(stmt)[2])
    return False


def dominating_cond_nodes(func, node):
    """[(condition node, truth)] for the same facts as dominating_conditions, as AST nodes: enclosing if / ternary
    branches, left operands of && / ||, and earlier sibling guards whose branch always leaves."""
    out = []
    chain = enclosing_chain(func, node) + [node]
    for i, anc in enumerate(chain[:-1]):
        nxt = chain[i + 1]
        if anc["kind"] in ("IfStmt", "ConditionalOperator"):
            ch = kids(anc)
            if nxt is ch[1]:
                out.append((ch[0], True))
            elif len(ch) > 2 and nxt is ch[2]:
                out.append((ch[0], False))
        if anc["kind"] == "BinaryOperator" and anc.get("opcode") in ("&&", "||") and nxt is kids(anc)[1]:
            out.append((kids(anc)[0], anc["opcode"] == "&&"))
        if anc["kind"] == "CompoundStmt":
            for s_ in kids(anc):
                if s_ is nxt:
                    break
                if s_["kind"] == "IfStmt" and _ends_in_exit(kids(s_)[1]) and not (len(kids(s_)) > 2 and _ends_in_exit(kids(s_)[2])):
                    out.append((kids(s_)[0], False))
                elif s_["kind"] == "IfStmt" and len(kids(s_)) > 2 and _ends_in_exit(kids(s_)[2]) and not _ends_in_exit(kids(s_)[1]):
                    out.append((kids(s_)[0], True))
    # split conjunctions that hold / disjunctions that do not
    res = []

    def split(n_, truth):
        n0 = strip(n_, casts=True)
        if n0["kind"] == "UnaryOperator" and n0.get("opcode") == "!":
            return split(kids(n0)[0], not truth)
        if n0["kind"] == "BinaryOperator" and ((n0.get("opcode") == "&&" and truth) or (n0.get("opcode") == "||" and not truth)):
            split(kids(n0)[0], truth)
            split(kids(n0)[1], truth)
            return
        res.append((n0, truth))
    for n_, t_ in out:
        split(n_, t_)
    return res


def dominating_conditions(cx, func, node, _depth=0):
    """Canonical condition strings known to hold whenever `node` executes: conditions of enclosing if-branches (negated
    for else-branches) and negations of earlier sibling guards whose branch always leaves (`if (c) return;` ... node).
    A leading '!' marks negation; double negations are removed; top-level conjunctions of positive conditions and
    disjunctions of negated ones are split."""
    out = []
    chain = enclosing_chain(func, node) + [node]
    for i, anc in enumerate(chain[:-1]):
        nxt = chain[i + 1]
        if anc["kind"] == "IfStmt":
            ch = kids(anc)
            c = cx.canon(ch[0])
            if nxt is ch[1] or any(y is nxt for y in [ch[1]]):
                out.append(c)
            elif len(ch) > 2 and nxt is ch[2]:
                out.append(_neg(c))
        if anc["kind"] == "ConditionalOperator":
            ch = kids(anc)
            if nxt is ch[1]:
                out.append(cx.canon(ch[0]))
            elif nxt is ch[2]:
                out.append(_neg(cx.canon(ch[0])))
        if anc["kind"] == "BinaryOperator" and anc.get("opcode") in ("&&", "||") and nxt is kids(anc)[1]:
            out.append(cx.canon(kids(anc)[0]) if anc["opcode"] == "&&" else _neg(cx.canon(kids(anc)[0])))
        if anc["kind"] == "CompoundStmt":
            for s_ in kids(anc):
                if s_ is nxt:
                    break
                if s_["kind"] == "IfStmt" and _ends_in_exit(kids(s_)[1]) and not (len(kids(s_)) > 2 and _ends_in_exit(kids(s_)[2])):
                    out.append(_neg(cx.canon(kids(s_)[0])))
                elif s_["kind"] == "IfStmt" and len(kids(s_)) > 2 and _ends_in_exit(kids(s_)[2]) and not _ends_in_exit(kids(s_)[1]):
                    out.append(cx.canon(kids(s_)[0]))
    # normalise
    res = []

    def split(t):
        t = t.strip()
        while t.startswith("!!"):
            t = t[2:]
        neg = t.startswith("!")
        core = t[1:] if neg else t
        if core.startswith("(") and core.endswith(")"):
            inner, depth, parts, cur, i_ = core[1:-1], 0, [], "", 0
            sep = " || " if neg else " && "
            while i_ < len(inner):
                ch_ = inner[i_]
                depth += ch_ == "("
                depth -= ch_ == ")"
                if depth == 0 and inner.startswith(sep, i_):
                    parts.append(cur)
                    cur = ""
                    i_ += 4
                    continue
                cur += ch_
                i_ += 1
            parts.append(cur)
            if len(parts) > 1 and depth == 0:
                for p_ in parts:
                    split(("!" if neg else "") + p_)
                return
        res.append(("!" if neg else "") + core)
    for c in out:
        split(c)
    # a boolean local that holds: if only one of its assignments can make it true (the others store 0), the conditions
    # of that assignment and the assigned test hold too
    if _depth < 3:
        from .astutil import int_value
        for c in list(res):
            if not re.fullmatch(r"[A-Za-z_]\w*", c):
                continue
            sts = [(r_, n_) for l, r_, k_, n_ in stores(func)
                   if k_ == "=" and r_ is not None and strip(l, casts=True).get("kind") == "DeclRefExpr" and
                   strip(l, casts=True)["ref"]["name"] == c]
            for d in walk(func.body):
                if d["kind"] == "VarDecl" and d.get("name") == c and kids(d):
                    sts.append((kids(d)[0], d))
            can_true = [(r_, n_) for r_, n_ in sts if int_value(strip(r_, casts=True)) != 0]
            if len(can_true) == 1 and len(sts) >= 1:
                r_, n_ = can_true[0]
                if n_ is not node:
                    for extra in dominating_conditions(cx, func, n_, _depth + 1):
                        if extra not in res:
                            res.append(extra)
                    if int_value(strip(r_, casts=True)) is None:
                        before = len(res)
                        split(cx.canon(r_))
    return res


def executes_before(func, a, b):
    """`a` is executed before `b` on every path that reaches `b` (structural check): in their lowest common ancestor,
    which must be a statement list, a's statement comes first and a is unconditional inside it."""
    ca = enclosing_chain(func, a) + [a]
    cb = enclosing_chain(func, b) + [b]
    i = 0
    while i < len(ca) and i < len(cb) and ca[i] is cb[i]:
        i += 1
    if i == 0 or i >= len(ca) or i >= len(cb):
        return False
    lca = ca[i - 1]
    if lca["kind"] != "CompoundStmt":
        # both inside one expression / one if: order by position only when it is a call's argument list etc. - refuse
        return False
    st = kids(lca)
    ia = next((k_ for k_, s_ in enumerate(st) if s_ is ca[i]), None)
    ib = next((k_ for k_, s_ in enumerate(st) if s_ is cb[i]), None)
    if ia is None or ib is None or ia >= ib:
        return False
    # a must be unconditional within its statement
    for j in range(i, len(ca) - 1):
        n, nxt = ca[j], ca[j + 1]
        k = n["kind"]
        if k == "IfStmt" and nxt is not kids(n)[0]:
            return False
        if k in ("ForStmt", "WhileStmt", "DoStmt", "SwitchStmt", "ConditionalOperator"):
            if not (k == "ConditionalOperator" and nxt is kids(n)[0]):
                return False
        if k == "BinaryOperator" and n.get("opcode") in ("&&", "||") and nxt is not kids(n)[0]:
            return False
    return True


def induction_vars(cx, func, loop, allow_conjunct=False):
    """For a for/while loop: {name: (canonical entry value, step per iteration)} for every variable that the loop
    advances by a constant once per iteration (i++, --p, v += 2, v = v - 1), unconditionally in the body or in the
    increment expression; and the guard as (name, op, canonical bound) if it compares such a variable, else None."""
    from .astutil import int_value
    ch = kids(loop)
    if loop["kind"] == "ForStmt":
        init, cond, inc, body = ch[0], ch[2], ch[3], ch[4]
    elif loop["kind"] == "DoStmt":
        init, cond, inc, body = None, ch[1], None, ch[0]
    else:
        init, cond, inc, body = None, ch[0], None, ch[1]
    steps = {}
    counts = {}

    def note(node, conditional):
        for y in ([node] if node is not None else []):
            pass
        return
    def scan(n, conditional):
        k = n["kind"]
        if k in ("IfStmt", "ConditionalOperator", "ForStmt", "WhileStmt", "DoStmt", "SwitchStmt"):
            for c in kids(n):
                scan(c, True)
            return
        t, d = None, None
        if k == "UnaryOperator" and n.get("opcode") in ("++", "--"):
            t, d = strip(kids(n)[0], casts=True), (1 if n["opcode"] == "++" else -1)
        elif k == "CompoundAssignOperator" and n.get("opcode") in ("+=", "-="):
            v = int_value(strip(kids(n)[1], casts=True))
            t, d = strip(kids(n)[0], casts=True), (None if v is None else (v if n["opcode"] == "+=" else -v))
        elif k == "BinaryOperator" and n.get("opcode") == "=":
            t = strip(kids(n)[0], casts=True)
            r = strip(kids(n)[1], casts=True)
            d = None
            if t["kind"] == "DeclRefExpr" and r["kind"] == "BinaryOperator" and r.get("opcode") in ("+", "-"):
                a, b = strip(kids(r)[0], casts=True), strip(kids(r)[1], casts=True)
                v = int_value(b)
                if a["kind"] == "DeclRefExpr" and a["ref"]["id"] == t["ref"]["id"] and v is not None:
                    d = v if r["opcode"] == "+" else -v
        if t is not None and t["kind"] == "DeclRefExpr":
            nm = t["ref"]["name"]
            counts[nm] = counts.get(nm, 0) + 1
            steps[nm] = None if (conditional or d is None) else d
            # steps nested in the value that is assigned (total += *p++)
            if k in ("CompoundAssignOperator", "BinaryOperator"):
                for c in kids(n)[1:]:
                    scan(c, conditional)
            return
        for c in kids(n):
            scan(c, conditional)
    if body is not None:
        scan(body, False)
    if inc is not None and inc["kind"] != "Null":
        scan(inc, False)
    if cond is not None and cond["kind"] != "Null":
        # a step inside the test itself (while (n-- > 0), do ... while (--n > 0)): once per round as well
        c1 = strip(cond, casts=True)
        if c1["kind"] == "BinaryOperator" and c1.get("opcode") in ("<", "<=", ">", ">=", "!="):
            for side in kids(c1):
                s1 = strip(side, casts=True)
                if s1["kind"] == "UnaryOperator" and s1.get("opcode") in ("++", "--"):
                    scan(s1, False)
    out = {}
    for nm, d in steps.items():
        if d is None or counts.get(nm) != 1:
            continue
        entry = None
        if init is not None and init["kind"] != "Null":
            for x in walk(init):
                if x["kind"] == "VarDecl" and x.get("name") == nm and kids(x):
                    entry = cx.canon(kids(x)[0])
                if x["kind"] == "BinaryOperator" and x.get("opcode") == "=" and render(strip(kids(x)[0], casts=True)) == nm:
                    entry = cx.canon(kids(x)[1])
        if entry is None:
            # declared before the loop with an initialiser and not written in between
            for x in walk(func.body):
                if x["kind"] == "VarDecl" and x.get("name") == nm and kids(x):
                    entry = cx.canon(kids(x)[0])
        if entry is not None:
            out[nm] = (entry, d)
    guard = None
    conjuncts = []
    if cond is not None and cond["kind"] != "Null":
        def conj(n_):
            n0 = strip(n_, casts=True)
            if n0["kind"] == "BinaryOperator" and n0.get("opcode") == "&&":
                conj(kids(n0)[0])
                conj(kids(n0)[1])
            else:
                conjuncts.append(n0)
        conj(cond)
    # with a conjunction (a search that also stops on "found") the counting conjunct bounds the rounds
    induction_vars.last_guard_node = None
    if len(conjuncts) > 1 and not allow_conjunct:
        conjuncts = []          # the loop can also stop for another reason: no exact trip count
    for c0 in conjuncts:
        if guard is not None:
            break
        if c0["kind"] == "BinaryOperator" and c0.get("opcode") in ("<", "<=", ">", ">=", "!="):
            a, b = strip(kids(c0)[0], casts=True), strip(kids(c0)[1], casts=True)
            if a["kind"] == "UnaryOperator" and a.get("opcode") in ("++", "--"):
                a = strip(kids(a)[0], casts=True)
            if b["kind"] == "UnaryOperator" and b.get("opcode") in ("++", "--"):
                b = strip(kids(b)[0], casts=True)
            op = c0["opcode"]
            if b["kind"] == "DeclRefExpr" and b["ref"]["name"] in out and not (a["kind"] == "DeclRefExpr" and a["ref"]["name"] in out):
                a, b = b, a
                op = {"<": ">", "<=": ">=", ">": "<", ">=": "<=", "!=": "!="}[op]
            if a["kind"] == "DeclRefExpr" and a["ref"]["name"] in out:
                guard = (a["ref"]["name"], op, cx.canon(b))
                induction_vars.last_guard_node = c0
    return out, guard


def trip_count(ivars, guard):
    """canonical trip count string of a loop with induction variables, for the common counting forms, else None"""
    if guard is None:
        return None
    nm, op, bound = guard
    entry, d = ivars[nm]
    if d == 1 and op in ("<", "!=") and entry == "0":
        return bound
    if d == 1 and op == "<=" and entry == "1":
        return bound
    if d == -1 and op in (">", "!=") and bound == "0":
        return entry
    if d == -1 and op == ">=" and bound == "1":
        return entry
    # a pointer (or index) walking from E up to E + N
    if d == 1 and op in ("<", "!=") and bound.startswith("(" + entry + " + ") and bound.endswith(")"):
        return bound[len(entry) + 4:-1]
    return None


def storage_root(cx, func, node, depth=0, _visiting=None):
    """Name of the local/parameter that owns the storage an expression points into or selects from: follows subscripts,
    member selection, * and &, pointer arithmetic, single-definition locals, and walking pointers (locals whose every
    value is derived from one root, apart from stepping themselves).  None if undetermined."""
    if depth > 12:
        return None
    n = strip(node, casts=True)
    k = n["kind"]
    if k in ("ArraySubscriptExpr", "MemberExpr"):
        return storage_root(cx, func, kids(n)[0], depth + 1, _visiting)
    if k == "UnaryOperator" and n.get("opcode") in ("*", "&", "++", "--"):
        return storage_root(cx, func, kids(n)[0], depth + 1, _visiting)
    if k == "BinaryOperator" and n.get("opcode") in ("+", "-"):
        return storage_root(cx, func, kids(n)[0], depth + 1, _visiting)
    if k == "DeclRefExpr":
        rid = n["ref"]["id"]
        if n["ref"].get("kind") == "ParmVarDecl":
            return n["ref"]["name"]
        t_ = (n["ref"].get("type") or n.get("type") or "")
        if "*" not in t_ and (t_.replace("const ", "").startswith(("struct ", "union ")) or "[" in t_):
            return n["ref"]["name"]          # a record or array local owns its storage (it may be a copy of something)
        d = cx.single_def(rid)
        if d is not None:
            d0 = strip(d, casts=True)
            if d0["kind"] == "CallExpr":
                return n["ref"]["name"]
            return storage_root(cx, func, d, depth + 1, _visiting)
        # a walking pointer / re-assigned local: all its sources must agree
        _visiting = set(_visiting or ())
        if rid in _visiting:
            return n["ref"]["name"]          # reached again through its own stepping: itself
        _visiting.add(rid)
        roots = set()
        srcs = []
        if cx.inits.get(rid) is not None:
            srcs.append(cx.inits[rid])
        for l, r, k_, nd in stores(func):
            ls = strip(l, casts=True)
            if ls["kind"] == "DeclRefExpr" and ls["ref"]["id"] == rid and r is not None and k_ == "=":
                srcs.append(r)
        for sx in srcs:
            s0 = strip(sx, casts=True)
            if s0["kind"] == "CallExpr":
                roots.add(n["ref"]["name"])
                continue
            rr = storage_root(cx, func, sx, depth + 1, _visiting)
            if rr == n["ref"]["name"]:
                continue
            roots.add(rr)
        if len(roots) == 1:
            return next(iter(roots))
        return n["ref"]["name"] if not srcs else None
    return None
