"""Findings, known-findings matching, evidence files, exit codes."""
import json
import os
import sys
import time

from .frontend import VERIF, AnalysisBroken

KNOWN = os.path.join(VERIF, "known_findings.json")
EVID = os.path.join(VERIF, "evidence")
OUT = os.path.join(VERIF, "out")


class Rule:
    def __init__(self, rid, text, floor=0):
        self.id = rid
        self.text = text
        self.floor = floor
        self.instances = []       # strings naming each instance analysed
        self.obligations = 0
        self.discharged = 0
        self.notes = []

    def instance(self, desc):
        self.instances.append(desc)

    def ok(self, n=1):
        self.obligations += n
        self.discharged += n

    def fail(self, n=1):
        self.obligations += n


class Report:
    def __init__(self, pid, tier="quick", model=None):
        self.pid = pid
        self.tier = tier
        self.t0 = time.time()
        self.rules = []
        self.findings = []
        self.samples = []
        self.assumptions = []
        self.model = model
        self.configs = []
        self.extra = {}
        self.exhaustive = False
        self.not_decided = []

    def rule(self, rid, text, floor=0):
        r = Rule(rid, text, floor)
        self.rules.append(r)
        return r

    def finding(self, rule, function, construct, message, where=None, path=None):
        """construct: stable key naming the construct (never a line number)."""
        rid = rule.id if isinstance(rule, Rule) else rule
        f = {"property": self.pid, "rule": rid, "function": function, "construct": construct,
             "message": message, "where": where, "path": path}
        for g in self.findings:
            if (g["rule"], g["function"], g["construct"]) == (rid, function, construct):
                return
        self.findings.append(f)

    def sample(self, s):
        if len(self.samples) < 12:
            self.samples.append(s)

    # ------------------------------------------------------------------
    def selftest(self):
        """Thorough tier: analyse the recorded source variants of this property (scratch copies outside /repo and
        /verif, nothing is executed).  A breaking variant that is no longer reported, or a behaviour-preserving one
        that now alarms, means the checker has lost power or precision: analysis broken, not a pass."""
        import importlib.util
        spec = importlib.util.spec_from_file_location("selftest_tool", os.path.join(VERIF, "tools", "selftest.py"))
        st = importlib.util.module_from_spec(spec)
        spec.loader.exec_module(st)
        vs = [v for v in json.load(open(os.path.join(VERIF, "selftest", "variants.json"))) if v["property"] == self.pid]
        r = self.rule("SELFTEST", "recorded source variants: breaking variants must be reported by the named rule, "
                      "behaviour-preserving variants must stay silent (variants whose anchor text has left the tree are "
                      "skipped)", floor=0)
        bad = []
        from concurrent.futures import ThreadPoolExecutor
        repo = self.model.repo if self.model else "/repo"
        with ThreadPoolExecutor(max_workers=8) as ex:
            results = list(ex.map(lambda v: st.run_variant(v, repo), vs))
        for v, (got, detail) in zip(vs, results):
            r.instance("%s: expected %s, got %s" % (v["id"], v["expect"], got))
            ok = got in (v["expect"], "skipped")
            if ok and got == "violation" and v.get("rule") and v["rule"] not in detail:
                ok = False
            if ok:
                r.ok()
            else:
                r.fail()
                bad.append("%s (expected %s, got %s %s)" % (v["id"], v["expect"], got, detail[:80]))
        self.extra["selftest"] = {"variants": len(vs), "unexpected": bad}
        return bad

    def finish(self):
        bad_selftest = []
        if self.tier == "thorough" and not os.environ.get("VERIF_NO_SELFTEST") and not (
                os.environ.get("VERIF_REPO") and os.path.realpath(os.environ["VERIF_REPO"]) != "/repo"):
            os.environ["VERIF_NO_SELFTEST"] = "1"
            try:
                bad_selftest = self.selftest()
            finally:
                os.environ.pop("VERIF_NO_SELFTEST", None)
        known = []
        if os.path.exists(KNOWN):
            with open(KNOWN) as fh:
                known = json.load(fh).get("findings", [])
        knownset = {(k["property"], k["rule"], k["function"], k["construct"])
                    for k in known if k.get("status") == "known"}
        broken = ["self-test variant behaves unexpectedly: " + b for b in bad_selftest]
        # constructs a rule could not analyse: reported as analysis-broken unless a concrete finding exists
        broken += list(getattr(self, "deferred_broken", []))
        for r in self.rules:
            if len(r.instances) < r.floor:
                broken.append("rule %s matched %d instance(s), below the floor of %d confirmed by hand"
                              % (r.id, len(r.instances), r.floor))
        new, old = [], []
        for f in self.findings:
            key = (f["property"], f["rule"], f["function"], f["construct"])
            (old if key in knownset else new).append(f)
        wall = time.time() - self.t0
        obligations = sum(r.obligations for r in self.rules)
        discharged = sum(r.discharged for r in self.rules)
        instances = sum(len(r.instances) for r in self.rules)
        ev = {
            "property_id": self.pid,
            "tier": self.tier,
            "seed": int(os.environ.get("VERIF_SEED", "0") or 0),
            "level": "other",
            "coverage": {
                "explanation": "static analysis of /repo's working tree (clang AST of every unit in the "
                               "build description, assembled context switch); nothing is executed. "
                               "Rules, instances and obligations are listed under 'rules'.",
                "technique": "static analysis",
                "units_analysed": len(self.model.units) if self.model else 0,
                "functions_analysed": len(self.model.funcs) if self.model else 0,
                "configurations": self.configs,
                "rules": [{"id": r.id, "rule": r.text, "instances": len(r.instances), "floor": r.floor,
                           "obligations": r.obligations, "discharged": r.discharged,
                           "instance_list": r.instances[:40], "notes": r.notes[:10]} for r in self.rules],
                "obligations": obligations,
                "discharged": discharged,
                "evaluations": max(1, obligations),
                "distinct_nontrivial": max(2, instances),
                "rule": "one case = one rule instance (call site, function, path, abstract order case) found "
                        "in the source; distinct by construct key",
                "samples": self.samples or [{"note": "no sample recorded"}],
                "checker_cmd": "./check %s --tier %s" % (self.pid, self.tier),
                "trusted_base": ["clang 14 parser/type checker (JSON AST)", "nasm + objdump",
                                 "the checker's own flow-graph builder and engines (self-tested with "
                                 "controls and seeded variants)"],
                "exhaustive": self.exhaustive,
                "not_decided": self.not_decided,
                "findings": [{k: f[k] for k in ("rule", "function", "construct", "message", "where")}
                             for f in self.findings],
                "known_findings_reported": len(old),
                "tree_hash": self.model.raw["hash"] if self.model else None,
            },
            "assumptions": self.assumptions,
            "wall_s": round(wall, 3),
            "violations": len(new),
        }
        ev["coverage"].update(self.extra)
        evdir = EVID
        if os.environ.get("VERIF_REPO") and os.path.realpath(os.environ["VERIF_REPO"]) != "/repo":
            evdir = os.path.join(OUT, "alt-evidence")     # never overwrite real evidence with a scratch tree's
        os.makedirs(evdir, exist_ok=True)
        with open(os.path.join(evdir, self.pid + ".json"), "w") as fh:
            json.dump(ev, fh, indent=1, default=str)
        for r in self.rules:
            print("%s %s: %d instance(s) (floor %d), %d/%d obligations discharged"
                  % (self.pid, r.id, len(r.instances), r.floor, r.discharged, r.obligations))
        if broken and not new:
            # a floor protects against passing vacuously; a concrete new finding is reported as such
            for b in broken:
                print("ANALYSIS-BROKEN property=%s %s" % (self.pid, b))
            return 2
        for b in broken:
            print("NOTE property=%s %s" % (self.pid, b))
        for f in old:
            print("KNOWN-FINDING: property=%s %s %s/%s: %s"
                  % (self.pid, f["rule"], f["function"], f["construct"], f["message"]))
        if new:
            os.makedirs(OUT, exist_ok=True)
            for i, f in enumerate(new):
                p = os.path.join(OUT, "%s_violation_%d.json" % (self.pid, i))
                f = dict(f)
                f["rerun"] = "./check %s --tier %s" % (self.pid, self.tier)
                with open(p, "w") as fh:
                    json.dump(f, fh, indent=1, default=str)
                print("  %s %s in %s [%s]: %s (%s)" % (self.pid, f["rule"], f["function"], f["construct"],
                                                      f["message"], f.get("where")))
                print("VIOLATION property=%s replay=%s" % (self.pid, p))
            return 1
        print("%s: OK (%d obligations, %d known finding(s))" % (self.pid, obligations, len(old)))
        return 0
